"""Check context: verdicts, replay files, known findings, evidence (DESIGN.md 2.5)."""
from __future__ import annotations

import hashlib
import json
import os
import sys
import time

ROOT = os.path.dirname(os.path.dirname(os.path.abspath(__file__)))
EVIDENCE_DIR = os.path.join(ROOT, "evidence")
REPLAY_DIR = os.path.join(ROOT, "replays")
KNOWN = os.path.join(ROOT, "known_findings.json")


def load_known():
    if not os.path.exists(KNOWN):
        return []
    with open(KNOWN) as f:
        return json.load(f)["findings"]


class Ctx:
    """One run of one property's check."""

    def __init__(self, pid, tier, seed, level):
        self.pid, self.tier, self.seed, self.level = pid, tier, seed, level
        self.t0 = time.time()
        self.violations = []       # (klass, replay path, summary)
        self.known_hits = {}       # klass -> count
        self.divergences = []
        self.cov = {"evaluations": 0, "distinct_nontrivial": 0, "rule": "", "samples": [],
                    "states": 0, "transitions": 0, "traces_validated_against_impl": 0}
        self.assumptions = []
        self._distinct = set()
        self.notes = {}
        self._known = [k for k in load_known() if k["property"] == pid]

    # -- coverage accounting ------------------------------------------------
    def count(self, n=1):
        self.cov["evaluations"] += n

    def distinct(self, key):
        """Register a distinct non-trivial case (by structural hash)."""
        h = key if isinstance(key, str) else hashlib.sha256(json.dumps(key, sort_keys=True, default=str).encode()).hexdigest()
        self._distinct.add(h)

    def sample(self, obj, limit=3):
        if len(self.cov["samples"]) < limit:
            self.cov["samples"].append(obj)

    def add_tlc(self, stats=None, result=None):
        if stats:
            self.cov["states"] += int(stats.get("states", 0))
            self.cov["transitions"] += int(stats.get("transitions", 0))
        if result is not None:
            self.cov["states"] += result.distinct
            self.cov["transitions"] += result.generated

    def traces(self, n=1):
        self.cov["traces_validated_against_impl"] += n

    def bump(self, key, n=1):
        self.notes[key] = self.notes.get(key, 0) + n

    # -- verdicts -------------------------------------------------------------
    def violation(self, klass, witness, summary=""):
        """Report a violation of the property.  `klass` is the witness class used to match
        known findings; `witness` is a JSON-serialisable, re-executable description."""
        for k in self._known:
            if k.get("status", "open") == "open" and k["class"] == klass:
                self.known_hits[klass] = self.known_hits.get(klass, 0) + 1
                return False
        os.makedirs(os.path.join(REPLAY_DIR, self.pid), exist_ok=True)
        body = json.dumps({"property": self.pid, "class": klass, "summary": summary, "witness": witness},
                          indent=1, sort_keys=True, default=str)
        h = hashlib.sha256(body.encode()).hexdigest()[:12]
        path = os.path.join(REPLAY_DIR, self.pid, f"{h}.json")
        with open(path, "w") as f:
            f.write(body)
        if len(self.violations) < 20:
            print(f"VIOLATION property={self.pid} replay={path}")
            if summary:
                print(f"  class={klass} {summary[:400]}")
        self.violations.append((klass, path, summary))
        return True

    def divergence(self, what, detail=None):
        """A model/code difference that no clause of the property covers: never fails the check."""
        if len(self.divergences) < 20:
            self.divergences.append({"what": what, "detail": detail})
        self.bump("divergences")

    # -- finish ---------------------------------------------------------------
    def finish(self, rule, exhaustive=False, extra=None):
        for k in self._known:
            if k.get("status", "open") == "open" and self.known_hits.get(k["class"]):
                print(f"KNOWN-FINDING: property={self.pid} {k['class']}: {k['what']} ({self.known_hits[k['class']]} witnesses this run)")
        cov = dict(self.cov)
        cov["rule"] = rule
        cov["distinct_nontrivial"] = len(self._distinct)
        cov["exhaustive"] = bool(exhaustive)
        cov["programs"] = cov["evaluations"]
        cov["disagreements_checked"] = len(self.violations) + sum(self.known_hits.values())
        cov["explanation"] = rule
        cov.update(self.notes)
        if self.divergences:
            cov["divergence_samples"] = self.divergences[:5]
        if self.known_hits:
            cov["known_finding_hits"] = self.known_hits
        if extra:
            cov.update(extra)
        if not cov["samples"]:
            cov["samples"] = ["(none)"]
        ev = {"property_id": self.pid, "tier": self.tier, "seed": self.seed, "level": self.level,
              "coverage": cov, "assumptions": self.assumptions, "wall_s": round(time.time() - self.t0, 2),
              "violations": len(self.violations)}
        os.makedirs(EVIDENCE_DIR, exist_ok=True)
        with open(os.path.join(EVIDENCE_DIR, f"{self.pid}.json"), "w") as f:
            json.dump(ev, f, indent=1, default=str)
        status = "FAIL" if self.violations else "ok"
        print(f"[{self.pid}] {status} tier={self.tier} seed={self.seed} evaluations={cov['evaluations']} "
              f"distinct={cov['distinct_nontrivial']} states={cov['states']} traces={cov['traces_validated_against_impl']} "
              f"violations={len(self.violations)} wall={ev['wall_s']}s")
        return 1 if self.violations else 0
