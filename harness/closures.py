"""FILE-DEFINED function factories (inspect.getsource works on what they return, unlike on the exec-generated bodies
of build.py): every function a factory returns has the same source text; the definitions differ in what they CAPTURE
(a closure cell, a default value evaluated at definition time)."""


def make_closure(RT, PATH, K):
    def body(x):
        return RT.call(PATH, (("x", x),)) if K is not None else None
    return body


def make_default(RT, PATH, K):
    def body(x, _k=K):
        return RT.call(PATH, (("x", x),)) if _k is not None else None
    return body


def make_closure_obj(RT, K):
    """Captures the runtime and ONE object K (which knows the body's path): two definitions differ in that object only."""
    def body(x):
        return RT.call(K.path, (("x", x),))
    return body
