"""Generators for C19 (construction-time validation).

Part 1: the closed universe of type TERMS over the documented constructors, and the mapping
        term <-> real typing object.
Part 2: the program IR of Validate.tla, valid base programs, every single injected flaw at every
        position, seeded random small programs, and the builder IR -> real hypergraph objects.

IR of a program (every record carries every field; TLC records are strict; JSON null is never used):

  prog  = {name: str | "~none", strict: bool, explicit: bool, edges: [edge], nodes: [node], lex: [[s, [chars]]]}
  edge  = {src, dst, auto: bool, vals: [str]}        auto = 2-tuple edge (values inferred)
  node  = {name, kind: func|route|ifelse|graph, inputs, outputs (data), emit, wait_for,
           defaults: [[param, value-tag]], targets ("END" = the END sentinel), multi,
           intypes: [[param, term]], outtypes: [[output, term]], sub: [] | [prog]}
  term  = {k, args}  (see spec/TypeCompat.tla); {"k": "~none", "args": []} = not annotated
  lex   = every name used at this level, spelled as a list of one-character strings (a change of
          representation only: the judgement "legal identifier" is made by Validate.tla)
"""
from __future__ import annotations

import copy
import collections.abc
import functools
import itertools
import json
import operator
import random
import types
import typing

NOANN = {"k": "~none", "args": []}


# =============================================================================================
# Part 1: types
# =============================================================================================
class A:  # noqa: D101 - plain class of the universe
    pass


class B(A):  # noqa: D101 - B <: A
    pass


PLAIN = {"int": int, "bool": bool, "str": str, "A": A, "B": B, "none": type(None)}
GENERIC = {"list": list, "dict": dict, "tuple": tuple,
           # abstract origins: list/tuple <: Sequence <: Iterable, dict <: Mapping <: Iterable
           "seq": collections.abc.Sequence, "iter": collections.abc.Iterable, "mapping": collections.abc.Mapping}
_PLAIN_BACK = {v: k for k, v in PLAIN.items()}
_GEN_BACK = {v: k for k, v in GENERIC.items()}


def T(k, *args):
    return {"k": k, "args": list(args)}


def opt(t):
    return T("union", t, T("none"))


_TVARS = {}


def _tvar(term, form):
    """ONE TypeVar object per term (TypeVars compare by identity)."""
    key = json.dumps(term, sort_keys=True)
    if key not in _TVARS:
        name = "T%d" % len(_TVARS)
        if term["k"] == "tvar":
            tv = typing.TypeVar(name)
        elif term["k"] == "tvarb":
            tv = typing.TypeVar(name, bound=to_py(term["args"][0], form))
        else:
            tv = typing.TypeVar(name, *[to_py(a, form) for a in term["args"]])
        _TVARS[key] = tv
    return _TVARS[key]


def to_py(term, form="U"):
    """Term -> real typing object.  form: "U" builds unions with typing.Union, "B" with the | operator."""
    k, args = term["k"], term["args"]
    if k in PLAIN:
        return PLAIN[k]
    if k == "ann":
        return typing.Annotated[to_py(args[0], form), "meta"]
    if k in ("tvar", "tvarb", "tvarc"):
        return _tvar(term, "U")
    if k == "any":
        return typing.Any
    if k in GENERIC:
        if not args:
            return GENERIC[k]
        return GENERIC[k][tuple(to_py(a, form) for a in args)]
    if k == "union":
        ms = [to_py(a, form) for a in args]
        if form == "U":
            return typing.Union[tuple(ms)]  # noqa: UP007
        return functools.reduce(operator.or_, ms)
    raise ValueError(term)


def to_term(obj):
    """Real typing object -> term as Python itself sees it (unions flattened / de-duplicated)."""
    if obj is typing.Any:
        return T("any")
    if isinstance(obj, typing.TypeVar):
        if obj.__constraints__:
            return T("tvarc", *[to_term(c) for c in obj.__constraints__])
        return T("tvarb", to_term(obj.__bound__)) if obj.__bound__ is not None else T("tvar")
    if typing.get_origin(obj) is typing.Annotated:
        return T("ann", to_term(typing.get_args(obj)[0]))
    if obj in _PLAIN_BACK:
        return T(_PLAIN_BACK[obj])
    if obj in _GEN_BACK:
        return T(_GEN_BACK[obj])
    origin = typing.get_origin(obj)
    if origin is typing.Union or origin is types.UnionType:
        return T("union", *[to_term(a) for a in typing.get_args(obj)])
    if origin in _GEN_BACK:
        return T(_GEN_BACK[origin], *[to_term(a) for a in typing.get_args(obj)])
    raise ValueError(obj)


def term_text(t):
    if t["k"] == "ann":
        return "Annotated[" + term_text(t["args"][0]) + ", 'meta']"
    if t["k"] == "union":
        return " | ".join(term_text(a) for a in t["args"])
    if t["args"]:
        return t["k"] + "[" + ", ".join(term_text(a) for a in t["args"]) + "]"
    return t["k"]


def depth(t):
    return 0 if not t["args"] else 1 + max(depth(a) for a in t["args"])


def _layer(args1, args2, unions=True):
    """All one-constructor applications: unary over args1, binary over args1 x args2."""
    out = []
    for a in args1:
        out.append(T("list", a))
        if a["k"] != "none":
            out.append(opt(a))
    for a in args1:
        out.append(T("seq", a))
        out.append(T("iter", a))
        out.append(T("ann", a))
    for a in args1:
        for b in args2:
            out.append(T("dict", a, b))
            out.append(T("mapping", a, b))
            out.append(T("tuple", a, b))
            if unions:
                out.append(T("union", a, b))
    return out


def type_universe(tier, seed):
    """Closed universe: ALL terms of depth <= 1 over the base {int, bool, str, A, B<:A, Any} (list[.],
    dict[.,.], tuple[.,.], Optional[.], .|., and the unparameterised list / dict / tuple), plus depth-2
    terms (unary constructors over every depth-1 term, binary constructors with one or two depth-1
    arguments) drawn as a seeded sample under a cap: 90 terms in the quick tier, 520 in the thorough
    tier.  Terms are read back from the real typing objects, so Union normalisation is Python's."""
    rng = random.Random(seed)
    base = [T(k) for k in ("int", "bool", "str", "A", "B", "any")]
    cap2 = 520 if tier == "thorough" else 90
    bare = [T("list"), T("dict"), T("tuple"), T("seq"), T("iter"), T("mapping"),
            # TypeVars: unconstrained, bounded, constrained
            T("tvar"), T("tvarb", T("int")), T("tvarb", T("A")), T("tvarb", T("list", T("int"))),
            T("tvarc", T("int"), T("str")), T("tvarc", T("B"), T("list"))]
    d0 = base + [T("none")]
    d1 = _layer(base, base) + bare
    d1 = _dedup(d0 + d1)
    deep_args = [t for t in d1 if depth(t) == 1 or t in bare]
    un = []
    for a in deep_args:
        un.append(T("list", a))
        un.append(opt(a))
        un.append(T("ann", a))
    bi = []
    for a in deep_args:
        for b in base:
            bi += [T("dict", b, a), T("tuple", a, b), T("tuple", b, a), T("union", a, b)]
    for a, b in itertools.product(deep_args, deep_args):
        if a["k"] != b["k"] or a["k"] in ("list", "union"):
            bi += [T("union", a, b), T("dict", a, b), T("tuple", a, b)]
    rng.shuffle(un)
    rng.shuffle(bi)
    n_un = min(len(un), cap2 // 2)
    d2 = un[:n_un] + bi[: cap2 - n_un]
    return _dedup(d1 + d2)


def _dedup(terms):
    seen, out = {}, []
    for t in terms:
        try:
            obj = to_py(t)
        except TypeError:
            continue
        if obj in seen:
            continue
        seen[obj] = True
        out.append(to_term(obj))
    return out


# =============================================================================================
# Part 2: programs
# =============================================================================================
INT, STR, BOOL = T("int"), T("str"), T("bool")
NONE = "~none"
ENDSTR = "~ENDSTR"      # the literal STRING "END" used as a gate target (the sentinel END is spelled "END" in the IR)


def fn(name, inputs=(), outputs=(), emit=(), wait_for=(), defaults=(), types=None):
    """Function node.  types: {value name: term} for annotated parameters / outputs."""
    types = types or {}
    return {"name": name, "kind": "func", "inputs": list(inputs), "outputs": list(outputs), "emit": list(emit),
            "wait_for": list(wait_for), "defaults": [[p, v] for p, v in defaults], "targets": [], "multi": False,
            "intypes": [[p, types[p]] for p in inputs if p in types],
            "outtypes": [[o, types[o]] for o in outputs if o in types], "sub": [], "ren": [], "oren": [],
            # fallback: a route gate's default target (NONE: no fallback); fnkind: plain | async | gen | agen
            "fallback": NONE, "fnkind": "plain"}


def route(name, inputs, targets, multi=False, emit=(), wait_for=(), defaults=(), types=None, fallback=None):
    n = fn(name, inputs, (), emit, wait_for, defaults, types)
    n.update(kind="route", targets=list(targets), multi=multi, fallback=fallback or NONE)
    return n


def ifelse(name, inputs, when_true, when_false, emit=(), wait_for=(), defaults=(), types=None):
    n = fn(name, inputs, (), emit, wait_for, defaults, types)
    n.update(kind="ifelse", targets=[when_true, when_false])
    return n


def gnode(name, sub, ren=(), oren=()):
    """Nested graph node; ren = [(inner input, exposed name)]: inner.as_node().with_inputs(inner=exposed);
    oren = [(inner output, exposed name)]: .with_outputs(inner=exposed)."""
    n = fn(name)
    n.update(kind="graph", sub=[sub], ren=[list(r) for r in ren], oren=[list(r) for r in oren])
    return n


def edge(src, dst, vals=None):
    return {"src": src, "dst": dst, "auto": vals is None, "vals": list(vals or [])}


def prog(nodes, name=NONE, strict=False, edges=None):
    return {"name": name, "strict": strict, "explicit": edges is not None, "edges": list(edges or []),
            "nodes": list(nodes), "lex": []}


def outs(n):
    return list(n["outputs"]) + list(n["emit"])


def finalize(p):
    """Derive the interface of graph nodes from their inner program and spell every name."""
    p = copy.deepcopy(p)
    for n in p["nodes"]:
        if n["kind"] == "graph":
            n["sub"] = [finalize(n["sub"][0])]
            q = n["sub"][0]
            produced = {o for m in q["nodes"] for o in outs(m)}
            ins, it = [], {}
            for m in q["nodes"]:
                for x in m["inputs"]:
                    if x not in produced and x not in ins:
                        ins.append(x)
                        it[x] = dict(map(tuple_pair, m["intypes"])).get(x)
            os_, ot = [], {}
            for m in q["nodes"]:
                for o in outs(m):
                    if o not in os_:
                        os_.append(o)
                    ot[o] = dict(map(tuple_pair, m["outtypes"])).get(o)
            rmap = dict(map(tuple_pair, n["ren"]))
            omap = dict(map(tuple_pair, n["oren"]))
            n["inputs"], n["outputs"], n["emit"] = [rmap.get(x, x) for x in ins], [omap.get(o, o) for o in os_], []
            n["intypes"] = [[rmap.get(x, x), it[x]] for x in ins if it.get(x)]
            n["outtypes"] = [[omap.get(o, o), ot[o]] for o in os_ if ot.get(o)]    # a rename keeps the producer's annotation
    names = set()
    if p["name"] != NONE:
        names.add(p["name"])
    for n in p["nodes"]:
        names.add(n["name"])
        names.update(outs(n))
    p["lex"] = [[s, list(s)] for s in sorted(names)]
    return p


def tuple_pair(pr):
    return (pr[0], pr[1])


def struct_hash(obj):
    import hashlib
    return hashlib.sha256(json.dumps(obj, sort_keys=True).encode()).hexdigest()[:24]


def level(p, path):
    """The (sub-)program at `path` (list of node indices of graph nodes)."""
    for i in path:
        p = p["nodes"][i]["sub"][0]
    return p


def levels(p, path=()):
    yield tuple(path)
    for i, n in enumerate(p["nodes"]):
        if n["kind"] == "graph":
            yield from levels(n["sub"][0], tuple(path) + (i,))


# ---------------------------------------------------------------------------------------------
# valid base programs
# ---------------------------------------------------------------------------------------------
def typed(names, t=INT, **over):
    d = {x: t for x in names}
    d.update(over)
    return d


def base_programs():
    """(tag, program) pairs; every program is valid by construction (and judged by Validate.tla)."""
    P = []
    P.append(("chain2", prog([fn("a", ["x"], ["y"]), fn("b", ["y"], ["z"])])))
    P.append(("chain3-fanin", prog([fn("a", ["x"], ["y"]), fn("b", ["y"], ["z"]), fn("c", ["y", "z"], ["w"])], name="g1")))
    P.append(("multi-out", prog([fn("a", ["x"], ["y", "z"]), fn("b", ["y"], ["w"]), fn("c", ["z"], [])])))
    P.append(("ifelse-mutex", prog([ifelse("g", ["x"], "a", "b"), fn("a", ["x"], ["r"]), fn("b", ["x"], ["r"]),
                                    fn("c", ["r"], ["w"])])))
    P.append(("route3-end", prog([route("g", ["x"], ["a", "b", "END"]), fn("a", ["x"], ["r"]), fn("b", ["x"], ["r"])])))
    P.append(("route1-end", prog([route("g", ["x"], ["a", "END"]), fn("a", ["x"], ["y"])])))
    P.append(("route1", prog([fn("a", ["x"], ["y"]), route("g", ["y"], ["b"]), fn("b", ["y"], ["z"])])))
    P.append(("route-multi", prog([route("g", ["x"], ["a", "b"], multi=True), fn("a", ["x"], ["r"]), fn("b", ["x"], ["s"])])))
    P.append(("branch-reach", prog([ifelse("g", ["x"], "a", "b"), fn("a", ["x"], ["u"]), fn("b", ["x"], ["v"]),
                                    fn("c", ["u"], ["r"]), fn("d", ["v"], ["r"])])))
    P.append(("branch-shared-feed", prog([ifelse("g", ["s"], "a", "b"), fn("a", ["s"], ["x"]), fn("b", ["s"], ["x", "t"]),
                                          fn("c", ["x"], ["y"]), fn("d", ["t"], ["q"])])))
    P.append(("emit-wait-cycle", prog([fn("gq", ["m"], ["q"]), fn("aq", ["m", "q"], ["m"], emit=["qd"]),
                                       fn("gr", ["m"], ["rs"]), fn("ar", ["m", "rs"], ["m"], wait_for=["qd"])])))
    P.append(("emit-wait-2", prog([fn("a", ["x"], ["m"], emit=["e"]), fn("b", ["x"], ["m"], wait_for=["e"])])))
    P.append(("ordered-by-data", prog([fn("a", ["x"], ["m", "t"]), fn("b", ["t"], ["m"])])))
    P.append(("gate-emit", prog([route("g", ["x"], ["a", "END"], emit=["ge"]), fn("a", ["x"], ["y"]),
                                 fn("b", ["x"], ["z"], wait_for=["ge"])])))
    P.append(("wait-on-data", prog([fn("a", ["x"], ["y"]), fn("b", ["x"], ["z"], wait_for=["y"])])))
    P.append(("defaults", prog([fn("a", ["x", "k"], ["y"], defaults=[("k", "d1")]),
                                fn("b", ["y", "k"], ["z"], defaults=[("k", "d1")]),
                                fn("c", ["z", "j"], ["w"])])))
    P.append(("defaults-gate", prog([ifelse("g", ["x", "k"], "a", "END", defaults=[("k", "d1")]),
                                     fn("a", ["x", "k"], ["y"], defaults=[("k", "d1")])])))
    inner = prog([fn("p", ["x"], ["y"]), fn("q", ["y", "k"], ["z"], defaults=[("k", "d1")])], name="inner")
    P.append(("nested", prog([fn("a", ["u"], ["x"]), gnode("inner", inner), fn("c", ["z", "k"], ["w"], defaults=[("k", "d1")])],
                             name="outer")))
    P.append(("nested-renamed", prog([fn("a", ["u"], ["x"]), gnode("inner", copy.deepcopy(inner), ren=[("k", "kk")]),
                                      fn("c", ["z", "kk"], ["w"], defaults=[("kk", "d1")])], name="outer")))
    inner2 = prog([ifelse("g", ["x"], "p", "q"), fn("p", ["x"], ["r"]), fn("q", ["x"], ["r"], emit=["e"]),
                   fn("s", ["r"], ["v"], wait_for=["e"])], name="sub")
    P.append(("nested-gate", prog([gnode("n", inner2), fn("c", ["v"], ["w"])])))
    inner3 = prog([gnode("deep", prog([fn("p", ["x"], ["y"])], name="deep")), fn("q", ["y"], ["z"])], name="mid")
    P.append(("nested2", prog([gnode("mid", inner3), fn("c", ["z"], ["w"])], name="top")))
    P.append(("explicit-cycle", prog([fn("aq", ["m", "q"], ["m"]), fn("gen", ["m"], ["rs"]), fn("ar", ["m", "rs"], ["m"])],
                                     edges=[edge("aq", "gen"), edge("gen", "ar"), edge("ar", "aq")])))
    P.append(("explicit-vals", prog([fn("a", ["x"], ["m", "t"]), fn("b", ["m", "t"], ["m"]), fn("c", ["m"], ["w"])],
                                    edges=[edge("a", "b", ["m", "t"]), edge("b", "c", ["m"])])))
    P.append(("explicit-fanout", prog([fn("a", ["x"], ["v", "u"]), fn("b", ["v"], ["p"]), fn("c", ["u"], ["q"]), fn("d", ["v", "u"], ["r"])],
                                      edges=[edge("a", "b", ["v"]), edge("a", "c", ["u"]), edge("a", "d", ["v", "u"])])))
    P.append(("explicit-ordering", prog([fn("a", ["x"], ["m"]), fn("b", ["x"], ["m"]), fn("c", ["m"], ["w"])],
                                        edges=[edge("a", "b"), edge("b", "c")])))
    # ONE declared edge is all that orders the two producers of m (it carries another value, t)
    P.append(("explicit-single-edge", prog([fn("a", ["x"], ["m", "t"]), fn("b", ["x", "t"], ["m"]), fn("c", ["m"], ["w"])],
                                           edges=[edge("a", "b", ["t"])])))
    P.append(("explicit-no-edges", prog([fn("a", ["x"], ["y"]), fn("b", ["y"], ["z"])], edges=[])))     # declared: no edges at all (y is an input of b)
    P.append(("explicit-gate", prog([ifelse("g", ["x"], "a", "b"), fn("a", ["x"], ["r"]), fn("b", ["x"], ["r"]),
                                     fn("c", ["r"], ["w"])], edges=[edge("a", "c"), edge("b", "c", ["r"])])))
    # strict mode
    P.append(("strict-chain", prog([fn("a", ["x"], ["y"], types=typed("xy")),
                                    fn("b", ["y"], ["z"], types=typed("y", z=STR)),
                                    fn("c", ["z", "y"], ["w"], types=typed("w", z=STR, y=T("union", INT, STR)))],
                                   strict=True)))
    P.append(("strict-mutex", prog([ifelse("g", ["x"], "a", "b", types=typed("x")),
                                    fn("a", ["x"], ["r"], types=typed("xr")),
                                    fn("b", ["x"], ["r"], types=typed("x", r=BOOL)),
                                    fn("c", ["r"], ["w"], types=typed("rw"))], strict=True)))
    P.append(("strict-multi-out", prog([fn("a", ["x"], ["y", "z"], types=typed("x", y=T("list", INT), z=T("B"))),
                                        fn("b", ["y", "z"], ["w"], types=typed("w", y=T("list"), z=T("A")))],
                                       strict=True)))
    P.append(("strict-unannotated-input", prog([fn("a", ["x"], ["y"], types=typed("y")),
                                                fn("b", ["y", "s"], ["z"], types=typed("y"))], strict=True)))
    sinner = prog([fn("p", ["x"], ["y"], types=typed("x", y=T("list", INT)))], name="si", strict=True)
    P.append(("strict-nested", prog([fn("a", ["u"], ["x"], types=typed("u", x=BOOL)), gnode("si", sinner),
                                     fn("c", ["y"], ["w"], types=typed("w", y=opt(T("list"))))], strict=True)))
    P.append(("strict-nested-renamed-out", prog([fn("a", ["u"], ["x"], types=typed("u", x=BOOL)),
                                                 gnode("si", copy.deepcopy(sinner), oren=[("y", "yy")]),
                                                 fn("c", ["yy"], ["w"], types=typed("w", yy=opt(T("list"))))], strict=True)))
    P.append(("strict-nested-renamed-both", prog([fn("a", ["u"], ["xx"], types=typed("u", xx=BOOL)),
                                                  gnode("si", copy.deepcopy(sinner), ren=[("x", "xx")], oren=[("y", "yy")]),
                                                  fn("c", ["yy"], ["w"], types=typed("w", yy=opt(T("list"))))], strict=True)))
    # the wrapper EXCHANGES the names of two inner outputs of different types (one with_outputs call): every exposed name
    # carries the annotation of the inner output it is wired to
    swin = prog([fn("p", ["x"], ["y"], types=typed("x", y=T("list", INT))), fn("q", ["x"], ["z"], types=typed("x", z=STR))], name="sw", strict=True)
    P.append(("strict-nested-swapped-out", prog([fn("a", ["u"], ["x"], types=typed("u", x=BOOL)),
                                                 gnode("sw", swin, oren=[("y", "z"), ("z", "y")]),
                                                 fn("c", ["y", "z"], ["w"], types=typed("w", y=STR, z=opt(T("list"))))], strict=True)))
    P.append(("strict-explicit", prog([fn("a", ["x"], ["m"], types=typed("xm")), fn("b", ["m"], ["m"], types=typed("m")),
                                       fn("c", ["m"], ["w"], types=typed("w", m=T("any")))],
                                      edges=[edge("a", "b"), edge("b", "c", ["m"])], strict=True)))
    P.append(("strict-emit-wait", prog([fn("a", ["x"], ["y"], emit=["e"], types=typed("xy")),
                                        fn("b", ["x"], ["z"], wait_for=["e"], types=typed("xz"))], strict=True)))
    P.append(("strict-wait-with-data", prog([fn("a", ["x"], ["y"], emit=["e"], types=typed("xy")),
                                             fn("b", ["y"], ["z"], wait_for=["e"], types=typed("yz"))], strict=True)))
    return P


def probe_programs():
    """Fixed programs judged as they are (no flaw is applied): patterns whose verdict must not depend on the
    node order, and the documented three-node patterns of an exclusive gate whose targets share an output."""
    P = []
    P.append(("accumulate-or-reset", prog([ifelse("g", ["flag"], "add", "reset"), fn("add", ["m", "v"], ["m"]),
                                           fn("reset", ["v"], ["m"])])))
    P.append(("reset-or-accumulate", prog([ifelse("g", ["flag"], "add", "reset"), fn("reset", ["v"], ["m"]),
                                           fn("add", ["m", "v"], ["m"])])))
    P.append(("loop-inc-or-dec", prog([ifelse("gate", ["state"], "inc", "dec"), fn("inc", ["state"], ["state"]),
                                       fn("dec", ["state"], ["state"])])))
    for order in ("gabcd", "gbacd"):
        nd = {"g": ifelse("g", ["s"], "a", "b"), "a": fn("a", ["s"], ["x"]), "b": fn("b", ["s"], ["x", "t"]),
              "c": fn("c", ["x"], ["y"]), "d": fn("d", ["t"], ["y"])}
        P.append(("shared-feed-" + order, prog([nd[k] for k in order])))
    for order in ("gabc", "gbac"):
        nd = {"g": ifelse("g", ["s"], "a", "b", types=typed("s")), "a": fn("a", ["s"], ["x"], types=typed("sx")),
              "b": fn("b", ["s"], ["x"], types=typed("s", x=STR)), "c": fn("c", ["x"], ["y"], types=typed("xy"))}
        P.append(("strict-second-producer-" + order, prog([nd[k] for k in order], strict=True)))
    return P


# ---------------------------------------------------------------------------------------------
# single injected flaws
# ---------------------------------------------------------------------------------------------
BAD_NAMES = ["1x", "a-b", "a b", "class", "END", "a.b", "a/b"]
BAD_NAMES_QUICK = ["1x", "class", "END", "a.b"]
BAD_TYPES = [STR, NOANN, T("list", INT), T("union", INT, STR), T("ann", STR), T("ann", T("union", INT, T("none"))), T("tvarb", STR), T("tvar")]
BAD_TYPES_QUICK = [STR, NOANN, T("ann", T("union", STR, T("none")))]


def _rename_node(p, i, new):
    old = p["nodes"][i]["name"]
    p["nodes"][i]["name"] = new
    for n in p["nodes"]:
        n["targets"] = [new if t == old else t for t in n["targets"]]
    for e in p["edges"]:
        if e["src"] == old:
            e["src"] = new
        if e["dst"] == old:
            e["dst"] = new


def _rename_out(p, i, field, k, new, follow_waits):
    n = p["nodes"][i]
    old = n[field][k]
    n[field][k] = new
    if field == "outputs":
        n["outtypes"] = [[new if o == old else o, t] for o, t in n["outtypes"]]
    if follow_waits:
        for m in p["nodes"]:
            m["wait_for"] = [new if w == old else w for w in m["wait_for"]]


def _set_type(n, field, x, t):
    prs = [pr for pr in n[field] if pr[0] != x]
    if t["k"] != "~none":
        prs.append([x, t])
    n[field] = prs


def flaws_at(p, path, quick):
    """Yield (flaw description, mutated whole program).  `p` is the whole (unfinalised) program,
    the mutation is applied to the level at `path`.  Whether a mutation really makes the program
    invalid is decided by Validate.tla, not here."""
    L = level(p, path)
    bad_names = BAD_NAMES_QUICK if quick else BAD_NAMES
    bad_types = BAD_TYPES_QUICK if quick else BAD_TYPES

    def mut(kind, **info):
        q = copy.deepcopy(p)
        return {"kind": kind, "path": list(path), **info}, q, level(q, path)

    def follow(q, old, new):
        """The wrapper's output rename (with_outputs(old=...)) keeps naming the inner output that was renamed."""
        if path:
            w = level(q, path[:-1])["nodes"][path[-1]]
            w["oren"] = [[new if a == old else a, b] for a, b in w["oren"]]

    all_outs = sorted({o for n in L["nodes"] for o in outs(n)})
    for i, n in enumerate(L["nodes"]):
        # -- gates
        if n["kind"] in ("route", "ifelse"):
            for k in range(len(n["targets"])):
                d, q, l = mut("gate-unknown-target", node=i, how="replace", pos=k)
                l["nodes"][i]["targets"][k] = "zz"
                yield d, q
                if n["targets"][k] != "END":
                    d, q, l = mut("gate-self-target", node=i, how="replace", pos=k)
                    l["nodes"][i]["targets"][k] = n["name"]
                    yield d, q
            # -- gate DEFINITION rules (checked by the node constructors)
            for fk in ("async", "gen", "agen"):
                d, q, l = mut("gate-function-kind", node=i, fnkind=fk)
                l["nodes"][i]["fnkind"] = fk
                yield d, q
            for k in range(len(n["targets"])):
                d, q, l = mut("gate-end-string-target", node=i, pos=k)
                l["nodes"][i]["targets"][k] = ENDSTR
                yield d, q
            if n["kind"] == "route":
                d, q, l = mut("route-no-targets", node=i)
                l["nodes"][i]["targets"] = []
                yield d, q
                others = [m["name"] for m in L["nodes"] if m["name"] != n["name"]]
                for fb in ([t for t in n["targets"] if t != "END"][:1] + others[:1] + ["END", "zz", ENDSTR]):
                    d, q, l = mut("route-fallback", node=i, fallback=fb)       # valid unless multi / unknown / the string "END"
                    l["nodes"][i]["fallback"] = fb
                    yield d, q
                d, q, l = mut("gate-unknown-target", node=i, how="add")
                l["nodes"][i]["targets"].append("zz")
                yield d, q
                d, q, l = mut("gate-self-target", node=i, how="add")
                l["nodes"][i]["targets"].append(n["name"])
                yield d, q
                d, q, l = mut("multi-target-flip", node=i)
                l["nodes"][i]["multi"] = not n["multi"]
                yield d, q
        # -- node names
        for j, m in enumerate(L["nodes"]):
            if j != i:
                d, q, l = mut("duplicate-node-name", node=i, other=j)
                l["nodes"][i]["name"] = m["name"]
                yield d, q
        for s in bad_names:
            d, q, l = mut("illegal-node-name", node=i, name=s)
            _rename_node(l, i, s)
            yield d, q
        # -- outputs: duplicate producers and illegal names
        if n["kind"] != "graph":
            for field in ("outputs", "emit"):
                for k, o in enumerate(n[field]):
                    own = set(outs(n)) | set(n["wait_for"])
                    for o2 in all_outs:
                        if o2 != o and o2 not in own:
                            d, q, l = mut("duplicate-producer", node=i, field=field, pos=k, name=o2)
                            _rename_out(l, i, field, k, o2, follow_waits=False)
                            if not any(o in outs(m) for m in l["nodes"]):
                                follow(q, o, o2)
                            yield d, q
                    for s in bad_names:
                        d, q, l = mut("illegal-output-name", node=i, field=field, pos=k, name=s)
                        _rename_out(l, i, field, k, s, follow_waits=True)
                        if not any(o in outs(m) for m in l["nodes"]):
                            follow(q, o, s)
                        yield d, q
            # -- defaults
            dfl = dict(map(tuple_pair, n["defaults"]))
            for x in n["inputs"]:
                if x in dfl:
                    d, q, l = mut("default-dropped", node=i, param=x)
                    l["nodes"][i]["defaults"] = [pr for pr in n["defaults"] if pr[0] != x]
                    yield d, q
                    d, q, l = mut("default-changed", node=i, param=x)
                    l["nodes"][i]["defaults"] = [[a, "d2" if a == x else v] for a, v in n["defaults"]]
                    yield d, q
                else:
                    d, q, l = mut("default-added", node=i, param=x)
                    l["nodes"][i]["defaults"] = n["defaults"] + [[x, "d1"]]
                    yield d, q
            # -- wait_for
            d, q, l = mut("wait-for-unproduced", node=i, how="add")
            l["nodes"][i]["wait_for"] = n["wait_for"] + ["nosuch"]
            yield d, q
            for k in range(len(n["wait_for"])):
                d, q, l = mut("wait-for-unproduced", node=i, how="replace", pos=k)
                l["nodes"][i]["wait_for"][k] = "nosuch"
                yield d, q
    # -- graph name
    for s in ("g.x", "g/x", "g-x", "1g"):
        d, q, l = mut("illegal-graph-name", name=s)
        l["name"] = s
        yield d, q
    # -- explicit edges
    if L["explicit"]:
        byname = {n["name"]: n for n in L["nodes"]}
        for k, e in enumerate(L["edges"]):
            d, q, l = mut("edge-dropped", edge=k)          # the user forgot to declare this edge (possibly the only one)
            del l["edges"][k]
            yield d, q
            for end in ("src", "dst"):
                d, q, l = mut("edge-unknown-node", edge=k, end=end)
                l["edges"][k][end] = "zz"
                yield d, q
            src, dst = byname[e["src"]], byname[e["dst"]]
            cands = ["nov"] + [o for o in outs(src) if o not in dst["inputs"]][:1] + [x for x in dst["inputs"] if x not in outs(src)][:1]
            for v in cands:
                d, q, l = mut("edge-unknown-value", edge=k, value=v)
                cur = [x for x in dst["inputs"] if x in outs(src)] if e["auto"] else list(e["vals"])
                l["edges"][k]["auto"] = False
                l["edges"][k]["vals"] = cur + [v]
                yield d, q
    # -- strict mode
    if L["strict"]:
        for i, n in enumerate(L["nodes"]):
            if n["kind"] == "graph":
                continue
            for x in n["inputs"]:
                for t in bad_types:
                    d, q, l = mut("consumer-type", node=i, value=x, type=term_text(t) if t["k"] != "~none" else "none")
                    _set_type(l["nodes"][i], "intypes", x, t)
                    yield d, q
            for o in n["outputs"]:
                for t in bad_types:
                    d, q, l = mut("producer-type", node=i, value=o, type=term_text(t) if t["k"] != "~none" else "none")
                    if t["k"] == "~none":
                        l["nodes"][i]["outtypes"] = []   # one return annotation per function
                    else:
                        _set_type(l["nodes"][i], "outtypes", o, t)
                    yield d, q
    else:
        d, q, l = mut("strict-on-unannotated")
        l["strict"] = True
        yield d, q


def permutations_of(p, limit, rng):
    """Node-list permutations of the top level (the verdict must not depend on the order)."""
    n = len(p["nodes"])
    perms = list(itertools.permutations(range(n)))
    if len(perms) > limit:
        keep = [perms[0], perms[-1]] + rng.sample(perms[1:-1], max(0, limit - 2))
        perms = keep[:limit]
    for pm in perms:
        q = copy.deepcopy(p)
        q["nodes"] = [q["nodes"][i] for i in pm]
        yield list(pm), q


# ---------------------------------------------------------------------------------------------
# seeded random flat programs (valid or not: the specification decides)
# ---------------------------------------------------------------------------------------------
SMALL_TYPES = [INT, BOOL, STR, T("list", INT), T("list"), T("union", INT, STR), T("any"), opt(INT), T("B"), T("A")]


def random_program(rng):
    k = rng.randint(2, 5)
    names = ["a", "b", "c", "d", "g", "h"][:k] if rng.random() < 0.5 else rng.sample(["a", "b", "c", "d", "g", "h"], k)
    vals = ["x", "y", "z", "s"]
    sigs = ["e1", "e2"]
    strict = rng.random() < 0.3
    nodes = []
    for nm in names:
        ins = rng.sample(vals, rng.randint(0, 2))
        r = rng.random()
        ty = {}
        if strict:
            ty = {x: rng.choice(SMALL_TYPES) for x in vals if rng.random() < 0.92}
            if rng.random() < 0.6:
                ty = {x: (INT if rng.random() < 0.8 else t) for x, t in ty.items()}
        dfl = [(x, rng.choice(["d1", "d1", "d2"])) for x in ins if rng.random() < 0.2]
        emit = [rng.choice(sigs)] if rng.random() < 0.25 else []
        wf = [w for w in ([rng.choice(sigs + vals)] if rng.random() < 0.25 else []) if w not in emit and w not in ins]
        if r < 0.3 and k >= 2:
            pool = [x for x in names if x != nm] + ["END"]
            if rng.random() < 0.08:
                pool.append("zz")
            if rng.random() < 0.05:
                pool.append(nm)
            if rng.random() < 0.5 and len(pool) >= 2:
                t1, t2 = rng.sample(pool, 2)
                nodes.append(ifelse(nm, ins, t1, t2, emit=emit, wait_for=wf, defaults=dfl, types=ty))
            else:
                tg = rng.sample(pool, rng.randint(1, min(3, len(pool))))
                nodes.append(route(nm, ins, tg, multi=rng.random() < 0.3, emit=emit, wait_for=wf, defaults=dfl, types=ty))
        else:
            os_ = [o for o in rng.sample(vals[:3], rng.choice([0, 1, 1, 1, 2]))]
            tyo = dict(ty)
            if strict and len(os_) > 1 and any(o not in tyo for o in os_):
                for o in os_:
                    tyo.pop(o, None)
            n = fn(nm, ins, os_, emit=emit, wait_for=wf, defaults=dfl, types=ty)
            n["outtypes"] = [[o, tyo[o]] for o in os_ if o in tyo]
            nodes.append(n)
    edges = None
    if rng.random() < 0.25:
        edges = []
        for _ in range(rng.randint(1, 4)):
            a, b = rng.sample(nodes, 2)
            if rng.random() < 0.7:
                edges.append(edge(a["name"], b["name"]))
            else:
                common = [x for x in b["inputs"] if x in outs(a)]
                edges.append(edge(a["name"], b["name"], common or None))
    if edges is not None:
        # explicit mode: which producer an auto-wired wait_for edge starts from when the awaited name has
        # several producers is not documented -> such waits are not generated
        cnt = {}
        for n in nodes:
            for o in outs(n):
                cnt[o] = cnt.get(o, 0) + 1
        for n in nodes:
            n["wait_for"] = [w for w in n["wait_for"] if cnt.get(w, 0) <= 1]
    return prog(nodes, strict=strict, edges=edges)


# ---------------------------------------------------------------------------------------------
# IR -> real hypergraph objects
# ---------------------------------------------------------------------------------------------
class Rejected(Exception):
    """Construction failed: stage = "node-ctor" | "graph-ctor", where = path of the graph level."""

    def __init__(self, stage, where, exc):
        super().__init__(f"{stage}@{where}: {type(exc).__name__}")
        self.stage, self.where, self.exc = stage, where, exc


def _callable_for(n, form):
    dfl = dict(map(tuple_pair, n["defaults"]))
    params = [x for x in n["inputs"] if x not in dfl] + [x for x in n["inputs"] if x in dfl]
    head = {"plain": "def", "async": "async def", "gen": "def", "agen": "async def"}[n["fnkind"]]
    tail = "yield None" if n["fnkind"] in ("gen", "agen") else "return None"
    src = head + " body(" + ", ".join(f"{x}={dfl[x]!r}" if x in dfl else x for x in params) + "):\n    " + tail + "\n"
    ns = {}
    exec(src, ns)  # noqa: S102 - harness-generated node body
    f = ns["body"]
    if form == "S":
        # every annotation is a STRING (forward reference / `from __future__ import annotations` style),
        # to be resolved through the function's globals
        ns.update(_SRC_GLOBALS)
        conv = lambda t: term_src(t, ns)  # noqa: E731
        mk_tuple = lambda parts: "tuple[" + ", ".join(parts) + "]"  # noqa: E731
    else:
        conv = lambda t: to_py(t, form)  # noqa: E731
        mk_tuple = lambda parts: tuple[tuple(parts)]  # noqa: E731
    ann = {x: conv(t) for x, t in n["intypes"] if t["k"] != "~none"}
    ot = dict(map(tuple_pair, n["outtypes"]))
    if n["outputs"] and all(o in ot and ot[o]["k"] != "~none" for o in n["outputs"]):
        if len(n["outputs"]) == 1:
            ann["return"] = conv(ot[n["outputs"][0]])
        else:
            ann["return"] = mk_tuple([conv(ot[o]) for o in n["outputs"]])
    f.__annotations__ = ann
    return f


_SRC_GLOBALS = {"typing": typing, "collections": collections, "A": A, "B": B}
_SRC_NAMES = {"int": "int", "bool": "bool", "str": "str", "A": "A", "B": "B", "none": "None", "any": "typing.Any",
              "list": "list", "dict": "dict", "tuple": "tuple", "seq": "collections.abc.Sequence",
              "iter": "collections.abc.Iterable", "mapping": "collections.abc.Mapping"}


def term_src(t, ns):
    """Python source text of a type term (TypeVars are put into the namespace `ns` under their own names)."""
    k, args = t["k"], t["args"]
    if k in ("tvar", "tvarb", "tvarc"):
        tv = _tvar(t, "U")
        ns[tv.__name__] = tv
        return tv.__name__
    if k == "ann":
        return "typing.Annotated[" + term_src(args[0], ns) + ", 'meta']"
    if k == "union":
        return "typing.Union[" + ", ".join(term_src(a, ns) for a in args) + "]"
    return _SRC_NAMES[k] + ("[" + ", ".join(term_src(a, ns) for a in args) + "]" if args else "")


def build(p, path="", form="U", check_interface=True, grow=False):
    """Build the program bottom-up with the public constructors; raises Rejected."""
    import warnings

    from hypergraph import END, Graph
    from hypergraph.nodes.function import FunctionNode
    from hypergraph.nodes.gate import IfElseNode, RouteNode

    nodes = []
    for n in p["nodes"]:
        if n["kind"] == "graph":
            inner = build(n["sub"][0], path + "/" + n["name"], form, check_interface)
            try:
                node = inner.as_node(name=n["name"])
                if n["ren"]:
                    node = node.with_inputs(**{a: b for a, b in n["ren"]})
                if n["oren"]:
                    node = node.with_outputs(**{a: b for a, b in n["oren"]})
            except Exception as e:  # noqa: BLE001 - classified by the caller
                raise Rejected("node-ctor", path, e) from e
            if check_interface and (set(node.inputs) != set(n["inputs"]) or set(node.outputs) != set(n["outputs"])):
                raise AssertionError(f"harness: derived interface of graph node {n['name']} differs: "
                                     f"{node.inputs}/{node.outputs} vs {n['inputs']}/{n['outputs']}")
            nodes.append(node)
            continue
        f = _callable_for(n, form)
        kw = {"name": n["name"], "emit": tuple(n["emit"]) or None, "wait_for": tuple(n["wait_for"]) or None}
        tg = [END if t == "END" else "END" if t == ENDSTR else t for t in n["targets"]]
        fb = None if n["fallback"] == NONE else END if n["fallback"] == "END" else "END" if n["fallback"] == ENDSTR else n["fallback"]
        try:
            with warnings.catch_warnings():
                warnings.simplefilter("ignore")
                if n["kind"] == "func":
                    node = FunctionNode(f, output_name=tuple(n["outputs"]) or None, **kw)
                elif n["kind"] == "route":
                    node = RouteNode(f, targets=tg, multi_target=n["multi"], fallback=fb, **kw)
                else:
                    node = IfElseNode(f, when_true=tg[0], when_false=tg[1], **kw)
        except Exception as e:  # noqa: BLE001
            raise Rejected("node-ctor", path, e) from e
        nodes.append(node)
    kw = {}
    if p["explicit"]:
        kw["edges"] = [(e["src"], e["dst"]) if e["auto"] else (e["src"], e["dst"], list(e["vals"])) for e in p["edges"]]
    if grow and path == "" and not p["explicit"] and len(nodes) >= 2:
        # construction HISTORY: the longest buildable prefix of the node list, then add_nodes() for the rest
        # (the outcome must be that of building the whole list at once)
        name = None if p["name"] == NONE else p["name"]
        for k in range(len(nodes) - 1, 0, -1):
            try:
                with warnings.catch_warnings():
                    warnings.simplefilter("ignore")
                    g = Graph(nodes[:k], name=name, strict_types=p["strict"])
            except Exception:  # noqa: BLE001 - this prefix is not a graph on its own
                continue
            try:
                with warnings.catch_warnings():
                    warnings.simplefilter("ignore")
                    return g.add_nodes(*nodes[k:])
            except Exception as e:  # noqa: BLE001
                raise Rejected("graph-ctor", path, e) from e
        raise NoPrefix()
    try:
        with warnings.catch_warnings():
            warnings.simplefilter("ignore")
            return Graph(nodes, name=None if p["name"] == NONE else p["name"], strict_types=p["strict"], **kw)
    except Exception as e:  # noqa: BLE001
        raise Rejected("graph-ctor", path, e) from e


class NoPrefix(Exception):
    """No proper prefix of the node list is a valid graph: the construction history cannot be exercised."""


def observe(p, form="U", grow=False):
    """Outcome of constructing p with the real package (message texts are ignored)."""
    from hypergraph.graph.validation import GraphConfigError
    try:
        build(p, form=form, grow=grow)
    except NoPrefix:
        return None
    except Rejected as r:
        e = r.exc
        if r.stage == "graph-ctor" and isinstance(e, GraphConfigError):
            how = "config-error"
        elif r.stage == "node-ctor" and isinstance(e, (ValueError, TypeError)):
            how = "node-constructor-error"
        else:
            how = "raw-error"
        return {"accepted": False, "how": how, "exc": type(e).__module__ + "." + type(e).__name__,
                "stage": r.stage, "where": r.where}
    return {"accepted": True, "how": "accepted", "exc": "", "stage": "", "where": ""}


def order_dependent(p, where):
    """Does the accept/reject outcome of the level named by `where` change under some permutation of
    its node list?  (Only the real constructors are consulted.)  Returns (bool, accepted perm, rejected perm)."""
    names = [s for s in where.split("/") if s]
    acc = rej = None
    top = copy.deepcopy(p)
    lv = top
    for nm in names:
        lv = next(n for n in lv["nodes"] if n["kind"] == "graph" and n["name"] == nm)["sub"][0]
    orig = list(lv["nodes"])
    for pm in itertools.permutations(range(len(orig))):
        lv["nodes"] = [orig[i] for i in pm]
        o = observe(top)
        if o["accepted"]:
            acc = acc or [orig[i]["name"] for i in pm]
        elif o["where"] == where:
            rej = rej or [orig[i]["name"] for i in pm]
        if acc and rej:
            return True, acc, rej
    return False, acc, rej
