"""Generators for C19 (construction-time validation).

Part 1: the closed universe of type TERMS over the documented constructors, and the mapping
        term <-> real typing object.
Part 2: the program IR of Validate.tla, valid base programs, every single injected flaw at every
        position, seeded random small programs, and the builder IR -> real hypergraph objects.

IR of a program (every record carries every field; TLC records are strict; JSON null is never used):

  prog  = {name: str | "~none", strict: bool, explicit: bool, edges: [edge], nodes: [node], lex: [[s, [chars]]]}
  edge  = {src, dst, auto: bool, vals: [str]}        auto = 2-tuple edge (values inferred)
  node  = {name, kind: func|route|ifelse|graph, inputs, outputs (data), emit, wait_for,
           defaults: [[param, value-tag]], targets ("END" = the END sentinel), multi,
           intypes: [[param, term]], outtypes: [[output, term]], sub: [] | [prog]}
  term  = {k, args}  (see spec/TypeCompat.tla); {"k": "~none", "args": []} = not annotated
  lex   = every name used at this level, spelled as a list of one-character strings (a change of
          representation only: the judgement "legal identifier" is made by Validate.tla)
"""
from __future__ import annotations

import copy
import functools
import itertools
import json
import operator
import random
import types
import typing

NOANN = {"k": "~none", "args": []}


# =============================================================================================
# Part 1: types
# =============================================================================================
class A:  # noqa: D101 - plain class of the universe
    pass


class B(A):  # noqa: D101 - B <: A
    pass


PLAIN = {"int": int, "bool": bool, "str": str, "A": A, "B": B, "none": type(None)}
GENERIC = {"list": list, "dict": dict, "tuple": tuple}
_PLAIN_BACK = {v: k for k, v in PLAIN.items()}
_GEN_BACK = {v: k for k, v in GENERIC.items()}


def T(k, *args):
    return {"k": k, "args": list(args)}


def opt(t):
    return T("union", t, T("none"))


def to_py(term, form="U"):
    """Term -> real typing object.  form: "U" builds unions with typing.Union, "B" with the | operator."""
    k, args = term["k"], term["args"]
    if k in PLAIN:
        return PLAIN[k]
    if k == "any":
        return typing.Any
    if k in GENERIC:
        if not args:
            return GENERIC[k]
        return GENERIC[k][tuple(to_py(a, form) for a in args)]
    if k == "union":
        ms = [to_py(a, form) for a in args]
        if form == "U":
            return typing.Union[tuple(ms)]  # noqa: UP007
        return functools.reduce(operator.or_, ms)
    raise ValueError(term)


def to_term(obj):
    """Real typing object -> term as Python itself sees it (unions flattened / de-duplicated)."""
    if obj is typing.Any:
        return T("any")
    if obj in _PLAIN_BACK:
        return T(_PLAIN_BACK[obj])
    if obj in _GEN_BACK:
        return T(_GEN_BACK[obj])
    origin = typing.get_origin(obj)
    if origin is typing.Union or origin is types.UnionType:
        return T("union", *[to_term(a) for a in typing.get_args(obj)])
    if origin in _GEN_BACK:
        return T(_GEN_BACK[origin], *[to_term(a) for a in typing.get_args(obj)])
    raise ValueError(obj)


def term_text(t):
    if t["k"] == "union":
        return " | ".join(term_text(a) for a in t["args"])
    if t["args"]:
        return t["k"] + "[" + ", ".join(term_text(a) for a in t["args"]) + "]"
    return t["k"]


def depth(t):
    return 0 if not t["args"] else 1 + max(depth(a) for a in t["args"])


def _layer(args1, args2, base, unions=True):
    """All one-constructor applications: unary over args1, binary over args1 x args2."""
    out = []
    for a in args1:
        out.append(T("list", a))
        if a["k"] != "none":
            out.append(opt(a))
    for a in args1:
        for b in args2:
            out.append(T("dict", a, b))
            out.append(T("tuple", a, b))
            if unions:
                out.append(T("union", a, b))
    return out


def type_universe(tier, seed):
    """Closed universe: all terms of depth <= 1 over the base, all unary constructors at depth 2,
    binary constructors at depth 2 with one depth-1 argument and one base argument (exhaustive for
    the reduced base in the quick tier, seeded sample under a cap in the thorough tier).
    Terms are read back from the real typing objects, so Union normalisation is Python's."""
    rng = random.Random(seed)
    if tier == "thorough":
        base = [T(k) for k in ("int", "bool", "str", "A", "B", "any")]
        cap2 = 330
    else:
        base = [T(k) for k in ("int", "bool", "str", "B", "any")]
        cap2 = 90
    bare = [T("list"), T("dict"), T("tuple")]
    d0 = base + [T("none")]
    d1 = _layer(base, base, base) + bare
    d1 = _dedup(d0 + d1)
    deep_args = [t for t in d1 if depth(t) == 1 or t in bare]
    un = []
    for a in deep_args:
        un.append(T("list", a))
        un.append(opt(a))
    bi = []
    for a in deep_args:
        for b in base:
            bi += [T("dict", b, a), T("tuple", a, b), T("tuple", b, a), T("union", a, b)]
    for a, b in itertools.product(deep_args, deep_args):
        if a["k"] != b["k"] or a["k"] in ("list", "union"):
            bi += [T("union", a, b), T("dict", a, b), T("tuple", a, b)]
    rng.shuffle(un)
    rng.shuffle(bi)
    n_un = min(len(un), cap2 // 2)
    d2 = un[:n_un] + bi[: cap2 - n_un]
    return _dedup(d1 + d2)


def _dedup(terms):
    seen, out = {}, []
    for t in terms:
        try:
            obj = to_py(t)
        except TypeError:
            continue
        if obj in seen:
            continue
        seen[obj] = True
        out.append(to_term(obj))
    return out
