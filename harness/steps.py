"""HGSteps.tla: TLC explores every behaviour (gate decisions, injected failures) of each job's
program; every terminal behaviour is replayed on the real runners - the decisions TLC took become
the gates' scripts."""
from __future__ import annotations

import concurrent.futures as cf
import copy
import json
import os
import shutil

from . import predict, tlc
from . import ir as IR


def explore(jobs, procs=4, workers=4, timeout=1200):
    """-> ({job id: [behaviours]}, stats).  A behaviour = TLC's terminal record (status, values, calls...)."""
    tmp = tlc.scratch_dir("steps-")
    jobs = [dict(j, badopt=bool(j.get("badopt", False))) for j in jobs]
    shards = [s for s in (jobs[i::procs] for i in range(procs)) if s]
    try:
        def one(k):
            p = os.path.join(tmp, f"s{k}.json")
            with open(p, "w") as f:
                json.dump(shards[k], f)
            return tlc.run_tlc("HGSteps", env={"HG_STEPJOBS": p}, workers=workers, timeout=timeout, check=False)
        with cf.ThreadPoolExecutor(len(shards)) as ex:
            rs = list(ex.map(one, range(len(shards))))
    finally:
        shutil.rmtree(tmp, ignore_errors=True)
    out = {}
    for r in rs:
        if r.violation:
            raise RuntimeError(f"HGSteps: invariant {r.violation} violated by the engine model:\n{r.counterexample()[:1500]}")
        if not r.ok:
            raise tlc.TLCError("HGSteps failed:\n" + r.out[-3000:])
        for b in r.results("BEHAV"):
            out.setdefault(b["id"], []).append(b)
    return out, {"states": sum(r.distinct for r in rs), "transitions": sum(r.generated for r in rs)}


def scripted_job(job, beh):
    """The job whose gates are scripted with the decisions of behaviour `beh` (and whose failing
    node fails at the invocation TLC chose)."""
    j = copy.deepcopy({k: v for k, v in job.items() if k not in ("dbudget", "fbudget")})
    decs = {}
    for c in beh["calls"]:
        if c["frame"] == "" and list(c["dec"]) != ["~nodec"]:
            decs.setdefault(c["node"], []).append(list(c["dec"]) or [IR.NONE])
    if beh["status"] == "failed" and beh["err"]["kind"] == "decision" and "/" not in beh["err"]["path"]:
        decs.setdefault(beh["err"]["path"], []).append(["~bad"])      # the gate's last invocation returned an invalid target
    for n in j["prog"]["nodes"]:
        if n["kind"] in ("route", "ifelse"):
            n["script"] = decs.get(n["name"], []) + n["script"][-1:]
            n["pure"] = False
        n["mayfail"] = False
    for name, idx in beh.get("inj", []):          # every failure TLC injected (several nodes of one async step may fail)
        for n in j["prog"]["nodes"]:
            if n["name"] == name:
                n["fail_at"] = sorted(set(n["fail_at"]) | {idx})
    return j


def replay_explored(ctx, jobs, behs, extra=None):
    """Replay every explored behaviour of every job on the real runners (the job's own mode) and compare
    outcome, per-node invocations (arguments included) and output keys.  extra(ctx, job, model, obs, wit)
    may add property-specific comparisons.  Returns the number of behaviours replayed."""
    from . import enginecheck
    n = 0
    for j in jobs:
        for b in behs.get(j["id"], []):
            n += 1
            ctx.count()
            ctx.traces()
            if b["err"]["kind"] == "decision":
                ctx.bump("explored_invalid_gate_decisions")
            elif b["status"] == "failed" and b["err"]["kind"] == "body":
                ctx.bump("explored_injected_failures")
            sj = scripted_job(j, b)
            sj = {k: v for k, v in sj.items() if not k.startswith("_")}
            o, _, _ = predict.try_real(sj)
            m = predict.norm_model(dict(b, done=[], raw_keys=[]))
            wit = {"job": sj, "tag": j.get("_tag", ""), "explored": {"status": b["status"], "values": b["values"], "calls": [(c["path"], c["dec"]) for c in b["calls"]]},
                   "observed": o if "rejected" in o else {x: o[x] for x in ("status", "values", "err")}}
            if "rejected" in o:
                continue
            mm = enginecheck.common_mismatch(m, o)
            if mm:
                ctx.violation("explored:outcome", wit, mm)
                continue
            if predict.per_node(m["calls"]) != predict.per_node(o["calls"]):
                ctx.violation("explored:invocations", wit, f"per-node invocations {predict.per_node(o['calls'])} differ from the explored behaviour {predict.per_node(m['calls'])}")
                continue
            if set(m["values"]) != set(o["values"]):
                ctx.violation("explored:output-keys", wit, f"outputs {sorted(o['values'])}, explored behaviour {sorted(m['values'])}")
                continue
            if extra is not None:
                extra(ctx, sj, m, o, wit)
    return n
