"""Schedule enumeration with TLC (HGSched.tla) and replay on the real AsyncRunner."""
from __future__ import annotations

import json
import os
import random
import shutil
import warnings

from hypergraph import AsyncRunner

from . import build, drive, plans, tlc
from . import ir as IR


def enumerate_schedules(plan_list, cfg="HGSched_enum.cfg", workers=4, procs=4, timeout=900):
    """Run HGSched on the plans (sharded over JVMs).  Returns ({plan id: [orders]}, stats)."""
    import concurrent.futures as cf
    tmp = tlc.scratch_dir("plans-")
    shards = [plan_list[i::procs] for i in range(procs)]
    shards = [s for s in shards if s]
    try:
        def one(k):
            p = os.path.join(tmp, f"plans{k}.json")
            with open(p, "w") as f:
                json.dump(shards[k], f)
            return tlc.run_tlc("HGSched", cfg=cfg, env={"HG_PLANS": p}, workers=workers, timeout=timeout, check=False)
        with cf.ThreadPoolExecutor(len(shards)) as ex:
            rs = list(ex.map(one, range(len(shards))))
    finally:
        shutil.rmtree(tmp, ignore_errors=True)
    out = {}
    viol = []
    for r in rs:
        if r.violation:
            viol.append((r.violation, r.counterexample()[:1500]))
        elif not r.ok:
            raise tlc.TLCError("HGSched failed:\n" + r.out[-3000:])
        for s in r.results("SCHED"):
            out.setdefault(s["id"], [])
            o = list(s["order"])
            if o not in out[s["id"]]:
                out[s["id"]].append(o)
    stats = {"states": sum(r.distinct for r in rs), "transitions": sum(r.generated for r in rs), "violations": viol}
    return out, stats


def run_schedule(job, schedule, k, cache=None, event_processors=None, error_handling="continue", pick=None):
    """Drive the real AsyncRunner along `schedule` (list of 'path#idx').  Returns (obs, controller)."""
    rt = build.Runtime(job["prog"])
    with warnings.catch_warnings():
        warnings.simplefilter("ignore")
        g = build.build_graph(rt, job["prog"])
    kwargs = dict(error_handling=error_handling, max_iterations=job["prog"]["max_iter"], on_internal_override="ignore")
    if job["select"] != IR.UNSET:
        kwargs["select"] = "**" if job["select"] == ["**"] else list(job["select"])
    if k:
        kwargs["max_concurrency"] = k
    if event_processors is not None:
        kwargs["event_processors"] = event_processors
    runner = AsyncRunner(cache=cache)
    with warnings.catch_warnings():
        warnings.simplefilter("ignore")
        res, ctl = drive.run_controlled(lambda: runner.run(g, build.provided_dict(job), **kwargs), rt, schedule=schedule, pick=pick)
    if ctl.deadlock:
        return {"status": "deadlock", "values": {}, "err": {"path": IR.NONE, "kind": "deadlock"}, "calls": build._calls(rt),
                "pause": {"path": IR.NONE, "key": IR.NONE, "value": IR.NONE}}, ctl
    if isinstance(res, BaseException):
        return {"status": "raised", "values": {}, "calls": build._calls(rt),
                "err": build.classify_error(rt, res),
                "pause": {"path": IR.NONE, "key": IR.NONE, "value": IR.NONE}}, ctl
    return build.observe(rt, res), ctl


def asyncify(prog, flag=True, coro_every=3):
    """All function nodes async (or sync).  Every `coro_every`-th async node is built as an ordinary `def`
    that RETURNS a coroutine (e.g. an async function behind a plain decorator): the async runner awaits it
    like an async node, although node.is_async is False."""
    import copy
    p = copy.deepcopy(prog)
    k = 0
    for _, n in IR.all_nodes(p):
        if n["kind"] == "func":
            n["is_async"] = flag
            k += 1
            n["coro"] = bool(flag and coro_every and n["fn"] != "gen" and k % coro_every == 0)
    return p
