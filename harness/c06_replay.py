"""C06 binding: replay of TLC-generated rename histories into the real package.

A *case* is a JSON-serialisable, re-executable description of one node under test:

  kind      func | route | ifelse | interrupt | graph
  P, prof   number of input positions; per position r (required) | d (signature default) |
            b (bound in the inner graph) | x (signature default and bound)   [b, x: graph only]
  Q         number of output positions (0 for gates, 1 for interrupts)
  steps     [["inputs"|"outputs", [[old, new], ...]] | ["name", new] | ["map", {...}], ...]  applied in order
            through with_inputs / with_outputs / with_name / map_over (one call per step, dict argument)
  ctor      optional first input batch passed as rename_inputs= to the constructor
  cur, ocur, ncur   EXPECTATION = the position-based state of Rename.tla after the history
                    (current name of every input position / output position / the node name)
  res, out  what the two defective code-shaped GraphNode algorithms of Rename.tla compute on this
            history (used only to CLASSIFY a mismatch, never to decide one)
  map       optional {"pos": k, "clone": c | None}: positions that are mapped over / cloned
  runs      list of run descriptions {"omit": [positions], "mode": sync|async|pause, "bind": pos|None}

Only public surface is used: constructors, with_*, map_over, Graph, bind, runners, RunResult,
node.name/inputs/outputs/has_default_for/get_default_for/get_input_type/has_signature_default_for/map_config.
"""
from __future__ import annotations

import asyncio
import warnings

from hypergraph import END, AsyncRunner, Graph, SyncRunner
from hypergraph.nodes.function import FunctionNode
from hypergraph.nodes.gate import IfElseNode, RouteNode
from hypergraph.nodes.interrupt import InterruptNode

ORIG = ["a", "b", "c", "d", "e", "f"]
TYPES = [int, str, float, bytes, bool, complex]
TYPE_SRC = ["int", "str", "float", "bytes", "bool", "complex"]

K_RESOLVE = "graphnode-resolve-original-ignores-batches"
K_OUTMAP = "graphnode-output-map-inverts-stale-entries"
K_LEAK = "graphnode-inner-bound-leaks-under-inner-name"

LOG = []                      # call log shared by every generated body: (tag, {orig param: raw value})
CTRL = {"pause": False}       # interrupt handlers return None (pause) when set


def oname(x):
    """Model name -> real output name (outputs live in a universe disjoint from the inputs so
    that a one-node graph never feeds itself)."""
    return "o" + x


def canon(v):
    return v if isinstance(v, str) else repr(v)


class RunawayTerm(Exception):
    """A value keeps feeding the node that produced it (only a broken library wires a renamed node back into itself):
    terms would double in size with every step."""


def herbrand(tag, j, args):
    text = f"{tag}.r{j}(" + ",".join(f"{p}={canon(v)}" for p, v in args) + ")"
    if len(text) > 20000:
        raise RunawayTerm(f"term of {len(text)} characters at {tag}")
    return text


def _ret(tag, nout, args):
    vals = tuple(herbrand(tag, j, args) for j in range(nout))
    if nout == 0:
        return None
    return vals[0] if nout == 1 else vals


_FUNCS = {}


def mk_func(tag, positions, dflt, nout, entry):
    """exec one function per (tag, signature).  Parameters are the ORIGINAL names of `positions`
    (0-based), annotated with TYPES[i]; positions in `dflt` carry the default 'dflt.<name>'.
    Keyword-only parameters are used only when a default precedes a required parameter."""
    key = (tag, tuple(positions), tuple(sorted(dflt)), nout, entry)
    if key in _FUNCS:
        return _FUNCS[key]
    parts = []
    for i in positions:
        s = f"{ORIG[i]}: {TYPE_SRC[i]}"
        if i in dflt:
            s += f" = 'dflt.{ORIG[i]}'"
        parts.append(s)
    seen_d, kwonly = False, False
    for i in positions:
        if i in dflt:
            seen_d = True
        elif seen_d:
            kwonly = True
    sig = ("*, " if kwonly else "") + ", ".join(parts)
    argt = "(" + "".join(f"({ORIG[i]!r}, {ORIG[i]}), " for i in positions) + ")"
    fname = "fn_" + tag.replace(".", "_")
    if entry == "func":
        body = f"    return RET({tag!r}, {nout}, {argt})\n"
    elif entry == "route":
        body = "    return END\n"
    elif entry == "ifelse":
        body = "    return True\n"
    else:  # interrupt handler
        body = f"    return None if CTRL['pause'] else RET({tag!r}, 1, {argt})\n"
    src = f"def {fname}({sig}):\n    LOG.append(({tag!r}, dict({argt})))\n" + body
    ns = {"LOG": LOG, "RET": _ret, "END": END, "CTRL": CTRL}
    # dont_inherit: this module's `from __future__ import annotations` must not turn the generated
    # annotations into strings
    exec(compile(src, f"<c06:{fname}>", "exec", dont_inherit=True), ns)  # noqa: S102 - harness-generated source
    _FUNCS[key] = ns[fname]
    return ns[fname]


def _sink():
    return "sink"


_BASE = {}


def base_node(kind, P, prof, Q, ctor=None):
    """The un-renamed node under test (cached: the with_* API never mutates)."""
    key = (kind, P, prof, Q, tuple(map(tuple, ctor)) if ctor else None)
    if key in _BASE:
        return _BASE[key]
    pos = list(range(P))
    kw = {"rename_inputs": {o: n for o, n in ctor}} if ctor else {}
    if kind == "graph":
        dflt = {i for i in pos if prof[i] in "dx"}
        outs = [oname(ORIG[j]) for j in range(Q)]
        if Q == 1:
            inner = [FunctionNode(mk_func("g.main", pos, dflt, 1, "func"), name="main", output_name=outs[0])]
        else:
            main_out = outs[0] if Q == 2 else tuple(outs[:-1])
            inner = [FunctionNode(mk_func("g.main", pos, dflt, Q - 1, "func"), name="main", output_name=main_out),
                     # the last parameter is shared by a second inner node producing the last output
                     FunctionNode(mk_func("g.aux", [P - 1], dflt & {P - 1}, 1, "func"), name="aux", output_name=outs[-1])]
        g = Graph(inner, name="inner")
        bound = {ORIG[i]: f"bound.{ORIG[i]}" for i in pos if prof[i] in "bx"}
        if bound:
            g = g.bind(**bound)
        node = g.as_node(name="a")
    else:
        dflt = {i for i in pos if prof[i] == "d"}
        f = mk_func(f"{kind}", pos, dflt, Q, kind)
        if kind == "func":
            outs = [oname(ORIG[j]) for j in range(Q)]
            node = FunctionNode(f, name="a", output_name=outs[0] if Q == 1 else tuple(outs), **kw)
        elif kind == "interrupt":
            node = InterruptNode(f, name="a", output_name=oname(ORIG[0]), **kw)
        elif kind == "route":
            node = RouteNode(f, targets=[END], name="a", **kw)
        elif kind == "ifelse":
            node = IfElseNode(f, when_true=END, when_false="sink", name="a", **kw)
        else:
            raise ValueError(kind)
    _BASE[key] = node
    return node


def apply_steps(node, steps):
    for st in steps:
        if st[0] == "inputs":
            node = node.with_inputs({o: n for o, n in st[1]})
        elif st[0] == "outputs":
            node = node.with_outputs({oname(o): oname(n) for o, n in st[1]})
        elif st[0] == "name":
            node = node.with_name(st[1])
        elif st[0] == "map":
            m = st[1]
            node = node.map_over(m["over"], clone=list(m["clone"]) if m["clone"] else False)
        else:
            raise ValueError(st[0])
    return node


# ---------------------------------------------------------------------------
# expectation (position-based semantics)
# ---------------------------------------------------------------------------

def fallback_value(prof, i):
    c = prof[i]
    if c in "bx":
        return f"bound.{ORIG[i]}"
    if c == "d":
        return f"dflt.{ORIG[i]}"
    return None


def expected_calls(case, args):
    """args: per position the value the underlying parameter must receive.  Returns the expected
    multiset of logged calls [(tag, {orig: value})]."""
    P, Q, kind = case["P"], case["Q"], case["kind"]
    full = {ORIG[i]: args[i] for i in range(P)}
    if kind == "graph":
        calls = [("g.main", full)]
        if Q >= 2:
            calls.append(("g.aux", {ORIG[P - 1]: args[P - 1]}))
        return calls
    return [(kind, full)]


def expected_outputs(case, args):
    """Per output position the value that must appear under ocur[j]."""
    P, Q, kind = case["P"], case["Q"], case["kind"]
    pairs = [(ORIG[i], args[i]) for i in range(P)]
    if kind == "graph":
        n_main = Q if Q == 1 else Q - 1
        vals = [herbrand("g.main", j, pairs) for j in range(n_main)]
        if Q >= 2:
            vals.append(herbrand("g.aux", 0, [(ORIG[P - 1], args[P - 1])]))
        return vals
    if kind == "func":
        return [herbrand("func", j, pairs) for j in range(Q)]
    if kind == "interrupt":
        return [herbrand("interrupt", 0, pairs)]
    return []


# ---------------------------------------------------------------------------
# observation
# ---------------------------------------------------------------------------

_SYNC = SyncRunner()
_ASYNC = AsyncRunner()
_LOOP = None


def _arun(coro):
    global _LOOP
    if _LOOP is None or _LOOP.is_closed():
        _LOOP = asyncio.new_event_loop()
    return _LOOP.run_until_complete(coro)


def _norm_log():
    return sorted(((t, sorted((k, canon(v)) for k, v in kw.items())) for t, kw in LOG), key=repr)


def _norm_calls(calls):
    return sorted(((t, sorted((k, canon(v)) for k, v in kw.items())) for t, kw in calls), key=repr)


def execute(node, case, run, cache=None):
    """Run the node in a one-node graph.  Returns an observation dict.  `cache` lets the runs of
    one case share the (immutable) Graph object."""
    P = case["P"]
    cur = case["cur"]
    omit = set(run.get("omit", ()))
    mp = case.get("map")
    supplied = {}
    raw = {}
    for i in range(P):
        if i in omit or run.get("bind") == i:
            continue
        if mp and i == mp["pos"]:
            v = [f"v{i}.0", f"v{i}.1"]
        elif mp:
            v = [f"v{i}"]            # mutable broadcast value: identity shows who was cloned
        else:
            v = f"v{i}"
        supplied[cur[i]] = v
        raw[i] = v
    del LOG[:]
    CTRL["pause"] = run["mode"] == "pause"
    obs = {"status": None, "values": None, "calls": None, "exc": None}
    try:
        g = cache.get("g") if cache is not None else None
        if g is None:
            nodes = [node]
            if case["kind"] == "ifelse":
                nodes.append(FunctionNode(_sink, name="sink", output_name="sink_out"))
            g = Graph(nodes)
            if cache is not None:
                cache["g"] = g
        if run.get("bind") is not None:
            g = g.bind(**{cur[run["bind"]]: f"obound.{run['bind']}"})
        if run["mode"] == "sync":
            r = _SYNC.run(g, supplied, max_iterations=30)
        elif run["mode"] == "async":
            r = _arun(_ASYNC.run(g, supplied, max_iterations=30))
        else:  # pause, then resume with the human answer
            r1 = _arun(_ASYNC.run(g, supplied, max_iterations=30))
            obs["pause_status"] = r1.status.value
            obs["pause_key"] = r1.pause.output_param if r1.pause is not None else None
            obs["pause_node"] = r1.pause.node_name if r1.pause is not None else None
            obs["pause_calls"] = _norm_log()
            if r1.pause is None:
                r = r1
            else:
                del LOG[:]
                r = _arun(_ASYNC.run(g, dict(supplied, **{r1.pause.response_key: "human"})))
        obs["status"] = r.status.value
        obs["values"] = {k: v for k, v in r.values.items() if k != "sink_out"}
        if r.error is not None:
            obs["exc"] = type(r.error).__name__ + ": " + str(r.error)[:160]
    except Exception as e:  # noqa: BLE001 - classified by the comparator
        obs["status"] = "rejected"
        obs["exc"] = type(e).__name__ + ": " + str(e)[:160]
    obs["calls"] = _norm_log()
    obs["rawlog"] = list(LOG)
    obs["raw"] = raw
    CTRL["pause"] = False
    return obs


# ---------------------------------------------------------------------------
# comparison
# ---------------------------------------------------------------------------

def _res_bad(case):
    """Positions whose current name the batch-unaware walk of the model resolves wrongly."""
    res = case.get("res")
    if not res:
        return set()
    return {i for i in range(case["P"]) if res[i] != ORIG[i]}


def _out_bad(case):
    out = case.get("out")
    return bool(out) and list(out) != list(case["ocur"])


def check_meta(node, node0, case, mism):
    """Public attributes against the position-based state."""
    P, Q, kind, prof = case["P"], case["Q"], case["kind"], case["prof"]
    cur, ocur = case["cur"], case["ocur"]
    bad = _res_bad(case) if kind == "graph" else set()
    pos_of = {ORIG[i]: i for i in range(P)}
    exp_inputs = tuple(cur[pos_of[o]] for o in node0["inputs"])
    if tuple(node.inputs) != exp_inputs:
        mism.append((f"{kind}-input-names", f"inputs {node.inputs} expected {exp_inputs}"))
    if kind not in ("route", "ifelse"):
        opos = {oname(ORIG[j]): j for j in range(Q)}
        exp_out = tuple(oname(ocur[opos[o]]) for o in node0["outputs"])
        if tuple(node.outputs) != exp_out:
            mism.append((f"{kind}-output-names", f"outputs {node.outputs} expected {exp_out}"))
    if node.name != case["ncur"]:
        mism.append((f"{kind}-name", f"name {node.name!r} expected {case['ncur']!r}"))
    for i in range(P):
        n = cur[i]
        fb = fallback_value(prof, i)
        klass = K_RESOLVE if i in bad else f"{kind}-default-type-follow"
        got = node.has_default_for(n)
        if got != (fb is not None):
            mism.append((klass, f"has_default_for({n!r}) = {got}, position {i} (original {ORIG[i]!r}, profile {prof[i]}) expects {fb is not None}"))
        try:
            gd = ("value", node.get_default_for(n))
        except KeyError:
            gd = ("KeyError", None)
        exp = ("value", fb) if fb is not None else ("KeyError", None)
        if gd != exp:
            mism.append((klass, f"get_default_for({n!r}) = {gd}, position {i} (original {ORIG[i]!r}) expects {exp}"))
        gt = node.get_input_type(n)
        if gt is not TYPES[i]:
            mism.append((klass, f"get_input_type({n!r}) = {gt}, position {i} (original {ORIG[i]!r}) expects {TYPES[i]}"))
        gs = node.has_signature_default_for(n)
        if gs != (prof[i] == "d"):
            mism.append((klass, f"has_signature_default_for({n!r}) = {gs}, position {i} (original {ORIG[i]!r}, profile {prof[i]}) expects {prof[i] == 'd'}"))
    mp = case.get("map")
    if mp:
        cfg = node.map_config
        exp_over = [cur[mp["pos"]]]
        if cfg is None or list(cfg[0]) != exp_over:
            mism.append(("map-over-follows-rename", f"map_config {cfg} expected params {exp_over}"))


def check_run(case, run, obs, mism):
    P, Q, kind, prof = case["P"], case["Q"], case["kind"], case["prof"]
    cur, ocur = case["cur"], case["ocur"]
    omit = sorted(run.get("omit", ()))
    mp = case.get("map")
    bad = _res_bad(case) if kind == "graph" else set()
    tag = f"run(mode={run['mode']}, omit={[cur[i] for i in omit]}" + (f", bind={cur[run['bind']]}" if run.get("bind") is not None else "") + ")"

    def arg(i, item=None):
        if run.get("bind") == i:
            return f"obound.{i}"
        if i in omit:
            return fallback_value(prof, i)
        if mp and i == mp["pos"]:
            return f"v{i}.{item}"
        return [f"v{i}"] if mp else f"v{i}"

    items = [0, 1] if mp else [None]
    exp_calls, exp_out_items = [], []
    for it in items:
        args = [arg(i, it) for i in range(P)]
        exp_calls += expected_calls(case, args)
        exp_out_items.append(expected_outputs(case, args))
    exp_calls = _norm_calls(exp_calls)
    if kind in ("route", "ifelse"):
        exp_values = {}
    elif mp:
        exp_values = {oname(ocur[j]): [exp_out_items[0][j], exp_out_items[1][j]] for j in range(Q)}
    else:
        exp_values = {oname(ocur[j]): exp_out_items[0][j] for j in range(Q)}

    def input_class(default):
        """Class of a mismatch on the input side of this run."""
        if kind != "graph":
            return default
        if omit:
            # an omitted position whose name the model's batch-unaware walk resolves wrongly
            # (or a rejected run while some name is resolved wrongly: validation asks every input)
            wrong = {i for t, kw in obs["rawlog"] for i in omit if ORIG[i] in kw and kw[ORIG[i]] != fallback_value(prof, i)}
            if (wrong & bad) or (bad and not obs["rawlog"]):
                return K_RESOLVE
            # an omitted position received the inner bound value of ANOTHER position whose original
            # name equals the omitted position's current name (inner binding surfacing under the
            # inner graph's private name)
            for t, kw in obs["rawlog"]:
                for i in wrong:
                    for q in range(P):
                        if q != i and prof[q] in "bx" and ORIG[q] == cur[i] and kw[ORIG[i]] == f"bound.{ORIG[q]}":
                            return K_LEAK
            return "graphnode-default-args"
        return default

    if run["mode"] == "pause":
        if obs.get("pause_status") != "paused" or obs.get("pause_key") != oname(ocur[0]) or obs.get("pause_node") != case["ncur"]:
            mism.append(("interrupt-pause-names", f"{tag}: pause status/key/node = {obs.get('pause_status')}/{obs.get('pause_key')}/{obs.get('pause_node')} expected paused/{oname(ocur[0])}/{case['ncur']} exc={obs['exc']}"))
            return
        if obs["pause_calls"] != exp_calls:
            mism.append(("interrupt-args", f"{tag}: handler received {obs['pause_calls']} expected {exp_calls}"))
        if obs["status"] != "completed" or obs["values"] != {oname(ocur[0]): "human"}:
            mism.append(("interrupt-result-names", f"{tag}: resumed status {obs['status']} values {obs['values']} expected {{{oname(ocur[0])!r}: 'human'}} exc={obs['exc']}"))
        return

    if obs["status"] != "completed":
        mism.append((input_class(f"{kind}-run-rejected"), f"{tag}: status {obs['status']} ({obs['exc']}); position semantics accepts the run, expected calls {exp_calls}"))
        return
    if obs["calls"] != exp_calls:
        mism.append((input_class({"func": "function-args", "route": "gate-args", "ifelse": "gate-args",
                                  "interrupt": "interrupt-args", "graph": "graphnode-args"}[kind]),
                     f"{tag}: underlying functions received {obs['calls']} expected {exp_calls}"))
        return  # result values are functions of the arguments
    if obs["values"] != exp_values:
        k = "result-names"
        if kind == "graph":
            k = K_OUTMAP if _out_bad(case) else "graphnode-result-names"
        mism.append((k, f"{tag}: values {obs['values']} expected {exp_values}"))
    if mp:
        # who was deep-copied per item: exactly the cloned, supplied broadcast positions
        mains = [kw for t, kw in obs["rawlog"] if t == "g.main"]
        for i, v in obs["raw"].items():
            if i == mp["pos"]:
                continue
            same = [kw[ORIG[i]] is v for kw in mains]
            if i == mp.get("clone"):
                ok = not any(same) and len({id(kw[ORIG[i]]) for kw in mains}) == len(mains)
            else:
                ok = all(same)
            if not ok:
                mism.append(("map-clone-follows-rename", f"{tag}: position {i} ({cur[i]!r}) identity-shared={same}, cloned position is {mp.get('clone')}"))


_NODE0 = {}


def node0_shape(case):
    key = (case["kind"], case["P"], case["prof"], case["Q"])
    if key not in _NODE0:
        n = base_node(*key)
        _NODE0[key] = {"inputs": tuple(n.inputs), "outputs": tuple(n.outputs)}
    return _NODE0[key]


def _run_case(case):
    """Apply the case to the real code and compare.  Returns (mismatches, n_executions)."""
    mism = []
    with warnings.catch_warnings():
        warnings.simplefilter("ignore")
        n0 = node0_shape(case)
        try:
            node = apply_steps(base_node(case["kind"], case["P"], case["prof"], case["Q"], case.get("ctor")), case["steps"])
        except Exception as e:  # noqa: BLE001
            return [(f"{case['kind']}-rename-rejected", f"history rejected: {type(e).__name__}: {str(e)[:200]}")], 0
        check_meta(node, n0, case, mism)
        nexec = 0
        cache = {}
        for run in case["runs"]:
            obs = execute(node, case, run, cache)
            nexec += 1
            check_run(case, run, obs, mism)
    return mism, nexec


# ---------------------------------------------------------------------------
# "a consistently alpha-renamed graph computes the same values"
# ---------------------------------------------------------------------------

def _alpha_nodes(shape, dparams, wrap):
    nodes = []
    for nm, ins, outs in shape:
        pos = list(range(len(ins)))
        # body parameters are the ORIGINAL value names of this node
        key = ("alpha", nm, tuple(ins), tuple(p in dparams for p in ins), len(outs))
        if key not in _FUNCS:
            order = [p for p in ins if p not in dparams] + [p for p in ins if p in dparams]
            sig = ", ".join(p + (f"='dflt.{p}'" if p in dparams else "") for p in order)
            argt = "(" + "".join(f"({p!r}, {p}), " for p in ins) + ")"
            src = f"def body_{nm}({sig}):\n    LOG.append(({nm!r}, dict({argt})))\n    return RET({nm!r}, {len(outs)}, {argt})\n"
            ns = {"LOG": LOG, "RET": _ret}
            exec(compile(src, f"<c06:body_{nm}>", "exec", dont_inherit=True), ns)  # noqa: S102
            _FUNCS[key] = ns[f"body_{nm}"]
        del pos
        out = None if not outs else (outs[0] if len(outs) == 1 else tuple(outs))
        n = FunctionNode(_FUNCS[key], name=nm, output_name=out)
        if wrap:
            n = Graph([n], name="w" + nm).as_node(name=nm)
        nodes.append(n)
    return nodes


def _walk_differs(batches, truth):
    """CLASSIFICATION ONLY: does a reverse walk over the entries that ignores batch boundaries
    (the shape of GraphNode._resolve_original_input_name, modelled as GNResolve in Rename.tla)
    resolve some current name to another original than the position-based truth {current: original}?"""
    entries = [e for b in batches for e in b]
    for name, orig in truth.items():
        c = name
        for old, new in reversed(entries):
            if new == c:
                c = old
        if c != orig:
            return True
    return False


def plan_renames(names, sigma, how):
    """The batches ({old: new} dicts, in call order) that rename the tuple `names` to sigma(names)."""
    mp = {p: sigma[p] for p in names if sigma[p] != p}
    if not mp:
        return []
    if how == "batch":
        return [mp]
    if how == "temps":     # chain through temporaries, two calls
        return [{p: "tmp_" + p for p in mp}, {"tmp_" + p: q for p, q in mp.items()}]
    # "single": one rename per call; a name is moved when its target is free, cycles are broken
    # through one temporary
    cur, todo, plan = list(names), dict(mp), []
    while todo:
        free = [p for p, q in todo.items() if q not in cur]
        if free:
            p = free[0]
            b = {p: todo.pop(p)}
        else:
            p = sorted(todo)[0]
            b = {p: "tmp_" + p}
            todo["tmp_" + p] = todo.pop(p)
        cur = [b.get(x, x) for x in cur]
        plan.append(b)
    return plan


def _rename_node(n, sigma, how):
    pin, pout = plan_renames(n.inputs, sigma, how), plan_renames(n.outputs, sigma, how)
    for b in pin:
        n = n.with_inputs(b)
    for b in pout:
        n = n.with_outputs(b)
    return n, pin


def run_alpha(case):
    """case: {shape, dparams, provided, sigma, how, wrap}.  Returns mismatches."""
    shape = [tuple(s) for s in case["shape"]]
    sigma = case["sigma"]
    mism = []
    k = "alpha-rename-graphnode" if case["wrap"] else "alpha-rename"
    with warnings.catch_warnings():
        warnings.simplefilter("ignore")
        try:
            base = _alpha_nodes(shape, set(case["dparams"]), case["wrap"])
            del LOG[:]
            r0 = _SYNC.run(Graph(base), {p: f"in.{p}" for p in case["provided"]}, max_iterations=30)
            log0 = _norm_log()
        except Exception:  # noqa: BLE001 - the original is not a program of the family
            return []
        try:
            rp = [_rename_node(n, sigma, case["how"]) for n in base]
            ren = [x[0] for x in rp]
            if case["wrap"] and case["dparams"] and any(
                    _walk_differs([list(b.items()) for b in pin], {sigma[p]: p for p in n.inputs}) for n, (_, pin) in zip(base, rp)):
                k = K_RESOLVE      # a wrapped node's default lookup goes through the batch-unaware walk
            del LOG[:]
            r1 = _SYNC.run(Graph(ren), {sigma[p]: f"in.{p}" for p in case["provided"]}, max_iterations=30)
            log1 = _norm_log()
        except Exception as e:  # noqa: BLE001
            return [(k, f"exception {type(e).__name__}: {str(e)[:200]}")]
    if r0.status.value != "completed":
        return []  # not a program of the family (original itself does not run)
    if r1.status.value != "completed":
        mism.append((k, f"renamed graph status {r1.status.value} {r1.error!r}"))
        return mism
    want = {sigma[o]: v for o, v in r0.values.items()}
    if dict(r1.values) != want:
        mism.append((k, f"values {dict(r1.values)} expected (original modulo renaming) {want}"))
    if log0 != log1:
        mism.append((k, f"arguments per original parameter differ: {log1} vs {log0}"))
    return mism


def run_case(case):
    """Total wrapper: a library that misbehaves badly enough to break the replay's own bookkeeping is reported as a
    finding of its own class, never as a crash of the check."""
    try:
        return _run_case(case)
    except Exception as e:  # noqa: BLE001
        import traceback
        where = traceback.extract_tb(e.__traceback__)[-1]
        return [("replay-crashed:" + type(e).__name__, f"{type(e).__name__}: {e} at {where.filename.rsplit('/', 1)[-1]}:{where.lineno}")], 0
