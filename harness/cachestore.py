"""Replay of CacheStore.tla / LRUCache.tla behaviours on the real cache backends.

DiskCache is driven through its public get/set; torn writes and corruptions are produced through a
SECOND diskcache.Cache handle on the same directory (what another process or a crash would leave
behind); pickle.loads (standard library) is spied to see what get() deserialises."""
from __future__ import annotations

import os
import pickle
import shutil
import tempfile
from unittest import mock

import diskcache

from hypergraph.cache import DiskCache, InMemoryCache

_MISSING = object()


def value_of(v):
    return {"out": v, "n": [1, 2, 3]}


class DiskReplayer:
    def __init__(self):
        self.dir = tempfile.mkdtemp(prefix="hgverif-disk-")
        self.cache = DiskCache(self.dir)
        self.raw = diskcache.Cache(self.dir)
        self.n = 0

    def close(self):
        try:
            self.raw.close()
        finally:
            shutil.rmtree(self.dir, ignore_errors=True)

    def replay(self, hist):
        """hist: list of ops from CacheStore.tla.  Returns list of mismatch descriptions."""
        self.n += 1
        pref = f"h{self.n}:"
        out = []
        for i, op in enumerate(hist):
            kind, k = op[0], pref + op[1]
            hk = k + ":hmac"
            if kind == "set":
                self.cache.set(k, value_of(op[2]))
            elif kind == "torn":
                old = self.raw.get(hk, default=_MISSING)
                self.cache.set(k, value_of(op[2]))
                if old is _MISSING:
                    self.raw.delete(hk)
                else:
                    self.raw.set(hk, old)
            elif kind == "corrupt":
                how = op[2]
                # the specification only corrupts what a set() has written: if the store does not hold it, the store
                # itself has already left the specified behaviour
                needs = {"flip": k, "truncate": k, "sigalter": hk}.get(how)
                have = self.raw.get(needs, default=_MISSING) if needs is not None else None
                if needs is not None and (have is _MISSING or not isinstance(have, bytes if needs == k else str)):
                    out.append((i, "state-missing", f"{'payload' if needs == k else 'signature'} entry is {'absent' if have is _MISSING else 'of type ' + type(have).__name__} although a completed set() must have (re)written it"))
                    break
                if how == "flip":
                    b = bytearray(self.raw.get(k))
                    b[(len(b) // 2 + i) % len(b)] ^= (1 << (i % 7))     # a different bit for every operation of the history
                    self.raw.set(k, bytes(b))
                elif how == "truncate":
                    b = self.raw.get(k)
                    self.raw.set(k, bytes(b[: max(1, len(b) - 4)]))
                elif how == "ptype":
                    self.raw.set(k, "not-bytes")
                elif how == "stype":
                    self.raw.set(hk, 12345)
                elif how == "sigalter":
                    old = self.raw.get(hk)
                    # alternately: another well-formed hex digest / arbitrary (non-ASCII) text
                    self.raw.set(hk, ("0" * len(old)) if (self.n + i) % 2 == 0 else ("\u00e9" * 16 + old[16:]))
                elif how == "delsig":
                    self.raw.delete(hk)
                elif how == "delpay":
                    self.raw.delete(k)
                else:
                    raise ValueError(how)
            elif kind == "get":
                want_hit, want_val, want_unpickle = op[2] == "hit", op[3], op[4] == "unpickled"
                calls = []
                real_loads = pickle.loads

                def spy(data, *a, **kw):
                    calls.append(bytes(data))
                    return real_loads(data, *a, **kw)
                try:
                    with mock.patch("pickle.loads", spy):
                        hit, val = self.cache.get(k)
                except Exception as e:  # noqa: BLE001
                    out.append((i, "exception", f"get raised {type(e).__name__}: {e}"))
                    continue
                if hit != want_hit:
                    out.append((i, "hit-mismatch", f"get -> hit={hit}, specification says {'hit' if want_hit else 'miss'}"))
                elif hit and val != value_of(want_val):
                    out.append((i, "wrong-value", f"get -> {val!r}, specification says value {want_val}"))
                if calls and not want_unpickle:
                    out.append((i, "unauthenticated-deserialisation", f"pickle.loads called on {len(calls)} payload(s) although the entry cannot be authenticated"))
                for data in calls:
                    if want_hit and data != pickle.dumps(value_of(want_val)):
                        out.append((i, "deserialised-other-bytes", "pickle.loads called on bytes other than the authenticated payload"))
            else:
                raise ValueError(kind)
        return out


def replay_lru(hist, cap):
    c = InMemoryCache(max_size=cap if cap else None)
    out = []
    for i, op in enumerate(hist):
        if op[0] == "set":
            c.set(op[1], op[2])
        else:
            hit, val = c.get(op[1])
            if hit != (op[2] == "hit"):
                out.append((i, "lru-hit-mismatch", f"get({op[1]}) -> hit={hit}, specification says {op[2]}"))
            elif hit and val != op[3]:
                out.append((i, "lru-wrong-value", f"get({op[1]}) -> {val}, specification says {op[3]}"))
    return out
