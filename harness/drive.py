"""Controlled asyncio driver: harness-owned async node bodies park on futures; the driver lets the
event loop run until nothing can make progress, then releases ONE parked body chosen by the
schedule under replay.  Measures the number of bodies executing at every instant and detects
deadlock (run not finished, nothing parked, no progress)."""
from __future__ import annotations

import asyncio


class Controller:
    def __init__(self, schedule=None, pick=None, key=None):
        self.key = key or (lambda path, idx, args: f"{path}#{idx}")
        self.schedule = list(schedule or [])     # preferred release order: "path#idx"
        self.pick = pick                         # fallback policy: callable(sorted keys) -> key
        self.parked = {}                         # key -> future
        self.progress = 0
        self.max_inflight = 0
        self.inflight_trace = []
        self.released = []
        self.deadlock = False
        self.sync_bodies = 0

    async def park(self, path, idx, args=()):
        key = self.key(path, idx, args)
        fut = asyncio.get_running_loop().create_future()
        self.parked[key] = fut
        self.progress += 1
        self.max_inflight = max(self.max_inflight, len(self.parked))
        self.inflight_trace.append(len(self.parked))
        try:
            await fut
        finally:
            self.parked.pop(key, None)
            self.progress += 1

    def sync_body(self, path, idx):
        """A synchronous node function is executing at this instant (it cannot be held open)."""
        self.progress += 1
        self.sync_bodies += 1
        self.max_inflight = max(self.max_inflight, len(self.parked) + 1)
        self.inflight_trace.append(len(self.parked) + 1)

    def _choose(self):
        for key in self.schedule:
            if key in self.parked:
                self.schedule.remove(key)
                return key
        keys = sorted(self.parked)
        return self.pick(keys) if self.pick else keys[0]

    async def drive(self, task, idle_rounds=60):
        while not task.done():
            before = self.progress
            quiet = 0
            while quiet < idle_rounds and not task.done():
                await asyncio.sleep(0)
                if self.progress != before:
                    before = self.progress
                    quiet = 0
                else:
                    quiet += 1
            if task.done():
                break
            if self.parked:
                key = self._choose()
                self.released.append(key)
                self.progress += 1
                fut = self.parked.get(key)
                if fut is not None and not fut.done():
                    fut.set_result(None)
            else:
                # nothing parked, nothing progressing, run not finished
                self.deadlock = True
                task.cancel()
                try:
                    await task
                except BaseException:  # noqa: BLE001
                    pass
                return


def run_controlled(coro_factory, rt, schedule=None, pick=None, key=None):
    """coro_factory() -> coroutine of the run.  Returns (result or exception, controller)."""
    ctl = Controller(schedule, pick, key)
    rt.controller = ctl

    async def main():
        task = asyncio.ensure_future(coro_factory())
        await ctl.drive(task)
        if ctl.deadlock:
            return None
        try:
            return task.result()
        except BaseException as e:  # noqa: BLE001
            return e

    try:
        res = asyncio.run(main())
    finally:
        rt.controller = None
    return res, ctl
