"""Program generators (DESIGN.md 2.4): seeded random families and small-scope enumerations.
All names come from deliberately small universes so that scopes collide."""
from __future__ import annotations

import itertools
import random

from . import ir as IR

EXT = ["x", "y", "z"]


def _fix_defaults(nodes, dparams):
    """A shared parameter must have a default in all consumers or in none."""
    for n in nodes:
        if n["kind"] in ("func", "interrupt"):
            ins = [p for p in n["inputs"] if p not in dparams] + [p for p in n["inputs"] if p in dparams]
            n["inputs"] = ins
            n["pmap"] = [[p, p] for p in ins]
            n["defaults"] = [p for p in ins if p in dparams]
        else:
            n["defaults"] = []


def random_flat(rng, *, n_nodes=(2, 5), cyclic=0.35, gate=0.6, multi_out=0.25, side_effect=0.1,
                defaults=0.3, bound=0.2, emit=0.0, max_iter=8, fn_mix=False, fail=0.0, gens=0.0):
    """One random flat program + provided values.  Returns (prog, provided pairs)."""
    nn = rng.randint(*n_nodes)
    outnames = ["a", "b", "c", "d", "e", "f", "g", "h"]
    nodes, produced = [], []
    oi = 0
    dparams = {p for p in EXT if rng.random() < defaults}
    for i in range(nn):
        nm = f"N{i}"
        pool = EXT + produced
        if rng.random() < cyclic:
            pool = pool + outnames[oi: oi + 3]
        k = rng.randint(1, min(3, len(pool)))
        ins = rng.sample(pool, k)
        r = rng.random()
        if r < side_effect:
            outs = []
        elif r < side_effect + multi_out:
            outs = [outnames[oi], outnames[oi + 1]]
            oi += 2
        else:
            outs = [outnames[oi]]
            oi += 1
        fn = "term"
        if fn_mix:
            fn = rng.choice(["term", "term", "id", "const"])
        if gens and len(outs) == 1 and rng.random() < gens:
            fn = "gen"             # a generator function: its output is the list of the yielded items
        nd = IR.func(nm, ins, outs, fn=fn)
        if fail and rng.random() < fail:
            nd["fail_at"] = [rng.randint(1, 2)]
        nodes.append(nd)
        produced += outs
        if oi >= len(outnames) - 2:
            break
    names = [n["name"] for n in nodes]
    # gates
    ng = 0
    while rng.random() < gate and ng < 2:
        ng += 1
        gname = f"G{ng}"
        tg = rng.sample(names, rng.randint(1, min(2, len(names))))
        gin = rng.sample(EXT + produced, 1)
        kind = rng.choice(["route", "route", "ifelse"])
        if kind == "ifelse":
            t2 = tg[:1] + (["END"] if len(tg) < 2 or rng.random() < 0.4 else tg[1:2])
            if t2[0] == t2[1]:
                continue
            script = [[rng.choice(t2)] for _ in range(3)]
            g = IR.ifelse(gname, gin, t2[0], t2[1], script, default_open=rng.random() < 0.5)
        else:
            multi = rng.random() < 0.25
            targets = tg + (["END"] if rng.random() < 0.5 else [])
            fb = IR.NONE
            if not multi and rng.random() < 0.3:
                fb = rng.choice(targets)
            if multi:
                script = [rng.sample(targets, rng.randint(0, len(targets))) or [IR.NONE] for _ in range(3)]
                script = [s if s != [] else [IR.NONE] for s in script]
            else:
                script = [[rng.choice(targets + [IR.NONE])] for _ in range(3)]
            g = IR.route(gname, gin, targets, script, multi=multi, fallback=fb, default_open=rng.random() < 0.5)
        nodes.insert(rng.randint(0, len(nodes)), g)
    # ordering signals: emit on a producer, wait_for on another node (a signal or a data name)
    ns = 0
    while rng.random() < emit and ns < 2 and len(nodes) >= 2:
        ns += 1
        pi, wi = rng.sample(range(len(nodes)), 2)
        P, W = nodes[pi], nodes[wi]
        if rng.random() < 0.75 or not P["outputs"][: P["ndata"]]:
            sig = f"sig{ns}"
            P["outputs"] = P["outputs"] + [sig]
        else:
            sig = rng.choice(P["outputs"][: P["ndata"]])
        if sig in W["inputs"] or sig in W["wait_for"] or sig in W["outputs"]:
            continue
        W["wait_for"] = W["wait_for"] + [sig]
    _fix_defaults(nodes, dparams)
    used = {p for n in nodes for p in n["inputs"]}
    outs = {o for n in nodes for o in n["outputs"]}
    ext = sorted(used - outs)
    bnd = [p for p in ext if rng.random() < bound]
    provided = [p for p in ext if (p not in dparams and p not in bnd) or rng.random() < 0.5]
    cyc = sorted(p for p in used & outs if rng.random() < 0.7)
    provided += [p for p in cyc if p not in provided]
    p = IR.prog("top", nodes, bound=[[b, f"bound.top.{b}"] for b in bnd], max_iter=max_iter)
    return p, [[x, f"in.{x}"] for x in provided]


def job(jid, prog, provided, mode="sync", select=None, lists=None):
    return {"id": jid, "prog": prog, "provided": provided, "mode": mode, "select": list(select) if select else list(IR.UNSET),
            "lists": [list(x) for x in (lists or [])], "map": {"over": [], "mode": "zip", "eh": "raise"}, "seq": [], "cap": 0, "alt": IR.prog("_", [])}


def _subsets(pool, lo, hi):
    for k in range(lo, hi + 1):
        yield from itertools.combinations(pool, k)


def enum_dags(k, ext=("x", "y"), max_in=2, variants=True):
    """Every acyclic gate-free program with k single-output nodes N0..N(k-1) (node i may read the
    external names and outputs of earlier nodes), optionally with multi-output / side-effect-only /
    early-start (default on an upstream-fed parameter) variants.  Yields (nodes spec, tag)."""
    outs = ["a", "b", "c", "d"]

    def rec(i, acc):
        if i == k:
            yield list(acc)
            return
        pool = list(ext) + outs[:i]
        for ins in _subsets(pool, 1, max_in):
            acc.append((f"N{i}", list(ins), [outs[i]]))
            yield from rec(i + 1, acc)
            acc.pop()

    for shape in rec(0, []):
        yield shape, "plain"
        if variants:
            # N0 with two data outputs (second is consumed by the last node)
            if k >= 2:
                s2 = [list(map(lambda t: t, n)) for n in shape]
                s2[0] = (s2[0][0], s2[0][1], [outs[0], "q"])
                last = s2[-1]
                if "q" not in last[1] and len(last[1]) < 3:
                    s2[-1] = (last[0], last[1] + ["q"], last[2])
                    yield [tuple(n) for n in s2], "multi"
            # last node is side-effect only
            s3 = list(shape)
            s3[-1] = (s3[-1][0], s3[-1][1], [])
            yield s3, "sideeffect"


def dag_jobs(shape, ext=("x", "y"), early=False):
    """All assignments of {provided, bound, default, absent} to the external names used by `shape`."""
    used = [p for p in ext if any(p in n[1] for n in shape)]
    produced = {o for n in shape for o in n[2]}
    for assign in itertools.product("pbda", repeat=len(used)):
        src = dict(zip(used, assign))
        dparams = {p for p, s in src.items() if s == "d"}
        if early:
            consumed = [o for o in produced if any(o in n[1] for n in shape)]
            if not consumed:
                return
            dparams = dparams | {consumed[0]}
        nodes = [IR.func(nm, ins, os, defaults=[p for p in ins if p in dparams]) for nm, ins, os in shape]
        bound = [[p, f"bound.top.{p}"] for p, s in src.items() if s == "b"]
        provided = [[p, f"in.{p}"] for p, s in src.items() if s == "p"]
        yield IR.prog("top", nodes, bound=bound), provided, "".join(assign) + ("+early" if early else "")


def dag_jobs_precedence(shape, ext=("x", "y")):
    """Assignments in which an external name has SEVERAL sources, so that the resolution order
    PROVIDED > BOUND > DEFAULT decides: B = bound + default, P = provided + default, Q = provided + bound
    (plus plain b / p for the other name).  Every second job uses python values that are None or falsy
    (None, 0, "", False) as the winning bound / provided value."""
    used = [p for p in ext if any(p in n[1] for n in shape)]
    specials = ["~none", "0", "", "False"]
    k = 0
    for assign in itertools.product("BPQbp", repeat=len(used)):
        if not any(c in "BPQ" for c in assign):
            continue
        k += 1
        src = dict(zip(used, assign))
        dparams = {p for p, s in src.items() if s in "BP"}
        nodes = [IR.func(nm, ins, os, defaults=[p for p in ins if p in dparams]) for nm, ins, os in shape]
        bval = specials[k % 4] if k % 2 == 0 else None
        pval = specials[(k // 2) % 4] if k % 3 == 0 else None
        bound = [[p, bval if bval is not None else f"bound.top.{p}"] for p, s in src.items() if s in "BQb"]
        provided = [[p, pval if pval is not None else f"in.{p}"] for p, s in src.items() if s in "PQp"]
        yield IR.prog("top", nodes, bound=bound), provided, "".join(assign) + f"/b={bval}/p={pval}"


def enum_gated(cyclic=False, stride=1, offset=0):
    """Small-scope gated family: chain A(x)->a, B(a)->b, C(b)->c (optionally A also reads c: a cycle),
    one gate G over every input choice, target set, kind, default_open, list position and decision
    script of length 2.  Yields (prog, provided, tag)."""
    count = 0
    for gin in ("x", "a", "b"):
        for tset in (["A"], ["B"], ["C"], ["A", "B"], ["B", "C"], ["A", "C"]):
            for with_end in (False, True):
                targets = tset + (["END"] if with_end else [])
                kinds = ["route", "multi"]
                if len(targets) == 2:
                    kinds.append("ifelse")
                for kind in kinds:
                    if kind == "multi":
                        opts = [[IR.NONE]] + [[t] for t in targets] + ([list(tset)] if len(tset) == 2 else [])
                    elif kind == "ifelse":
                        opts = [[t] for t in targets]
                    else:
                        opts = [[IR.NONE]] + [[t] for t in targets]
                    for script in itertools.product(opts, repeat=2):
                        for dopen in (True, False):
                            for pos in (0, 3):
                                count += 1
                                if (count + offset) % stride:
                                    continue
                                a_in = ["x", "c"] if cyclic else ["x"]
                                nodes = [IR.func("A", a_in, ["a"]), IR.func("B", ["a"], ["b"]), IR.func("C", ["b"], ["c"])]
                                if kind == "ifelse":
                                    g = IR.ifelse("G", [gin], targets[0], targets[1], script, default_open=dopen)
                                else:
                                    g = IR.route("G", [gin], targets, script, multi=(kind == "multi"), default_open=dopen)
                                nodes.insert(pos, g)
                                prov = [["x", "in.x"]] + ([["c", "in.c"]] if cyclic else [])
                                yield IR.prog("top", nodes, max_iter=10), prov, f"{kind}/{gin}/{'+'.join(targets)}/{'open' if dopen else 'closed'}/pos{pos}"


def loop_template(m, shape, gatekind, exit_node, n_cont, entry=1, nested=False, max_iter=None, dopen=True):
    """Gate-driven loop over state `s`.
    while  : b1(s)->t1, b2(t1)->t2, ..., bm(t_{m-1})->s ; G(s) decides first.
    dowhile: b1(s)->t1 (gate target), ..., bm(s, t_{m-1})->s emit done (self-accumulating);
             G(s) wait_for done: the body runs once before the gate can decide (documented chat-loop shape).
    Returns (prog, provided, meta)."""
    body = []
    for i in range(1, m + 1):
        src = "s" if i == 1 else f"t{i-1}"
        out = "s" if i == m else f"t{i}"
        ins = [src]
        kw = {}
        if shape == "dowhile" and i == m:
            if m > 1:
                ins = ["s", src]
            kw["outputs"] = ["s", "done"]
            kw["ndata"] = 1
            body.append(IR.normalize_node(dict(name=f"b{i}", kind="func", inputs=ins, **kw)))
        else:
            body.append(IR.func(f"b{i}", ins, [out]))
    stop = "E" if exit_node else "END"
    script = [["b1"]] * n_cont + [[stop]]
    gkw = dict(default_open=dopen)
    if shape == "dowhile":
        gkw["wait_for"] = ["done"]
    if gatekind == "ifelse":
        g = IR.ifelse("G", ["s"], "b1", stop, script, **gkw)
    else:
        g = IR.route("G", ["s"], ["b1", stop], script, **gkw)
    nodes = body + [g]
    if exit_node:
        nodes.append(IR.func("E", ["s"], ["out"]))
    names = [n["name"] for n in body]
    seed_name = "s" if entry == 1 else f"t{entry-1}"
    if not nested:
        seed = [[seed_name, f"in.{seed_name}"]]
        prog = IR.prog("top", nodes, max_iter=max_iter or 60)
        provided = seed
        frame = ""
    else:
        res = "out" if exit_node else "s"
        inner = IR.prog("loop", nodes, max_iter=1000, selected=[res], entry=["b1"] if m > 1 else [])
        pre = IR.func("P", ["x"], ["s0"])
        post = IR.func("Q", ["res"], ["final"])
        gn = IR.graph_node(inner, inputs=["s0"], inmap=[["s0", "s"]], outputs=["res"], outmap=[[res, "res"]])
        prog = IR.prog("top", [pre, gn, post], max_iter=max_iter or 60)
        provided = [["x", "in.x"]]
        seed = [["s", "P.s0(x=in.x)"]]
        frame = "loop"
    meta = {"shape": shape, "body": names, "gate": "G", "exit": "E" if exit_node else IR.NONE,
            "entry": entry, "frame": frame, "seed": seed, "n_cont": n_cont, "expect": []}
    return prog, provided, meta


def oneshot_template(dopen, gatekind="route"):
    """A gate synchronised on a signal that is emitted only once.  After its first decision the
    gate's input changes (so the decision is stale) but the signal never becomes fresh again: the
    single decision must allow a single execution of the target - the stale decision may not keep
    the cycle A -> B -> A spinning."""
    P = IR.normalize_node(dict(name="P", kind="func", inputs=["x"], outputs=["p", "sig1"], ndata=1))
    A = IR.func("A", ["e"], ["d"])
    B = IR.func("B", ["d"], ["e"])
    if gatekind == "ifelse":
        G = IR.ifelse("G", ["d"], "B", "END", [["B"]], default_open=dopen, wait_for=["sig1"])
    else:
        G = IR.route("G", ["d"], ["B", "END"], [["B"]], default_open=dopen, wait_for=["sig1"])
    prog = IR.prog("top", [P, A, G, B], max_iter=30)
    # sequential reading: A; gate says B; B; A; (gate cannot decide again)  =>  A twice, B once, G once
    meta = {"shape": "oneshot", "body": ["B"], "gate": "G", "exit": IR.NONE, "entry": 1, "frame": "",
            "seed": [["x", "in.x"], ["e", "in.e"]], "n_cont": 1,
            "expect": [["B", 1 if not dopen else 1], ["G", 1], ["A", 2], ["P", 1]]}
    return prog, [["x", "in.x"], ["e", "in.e"]], meta


# ---------------------------------------------------------------------------
# nesting: wrap a node subset of a flat program into a nested graph used as one node
# ---------------------------------------------------------------------------

def convex_subsets(prog, max_size=None):
    """All non-empty proper node-name subsets S that are dependency-closed (convex): no path between
    two members leaves S.  Data dependencies by name (acyclic gate-free programs)."""
    nodes = prog["nodes"]
    names = [n["name"] for n in nodes]
    prod = {o: n["name"] for n in nodes for o in n["outputs"]}
    succ = {n: set() for n in names}
    for n in nodes:
        for p in n["inputs"] + n["wait_for"]:
            if p in prod and prod[p] != n["name"]:
                succ[prod[p]].add(n["name"])

    def reach(a):
        seen, st = set(), [a]
        while st:
            x = st.pop()
            for y in succ[x]:
                if y not in seen:
                    seen.add(y)
                    st.append(y)
        return seen
    R = {n: reach(n) for n in names}
    for k in range(1, (max_size or len(names) - 1) + 1):
        for S in itertools.combinations(names, k):
            Sset = set(S)
            ok = True
            for a in S:
                for x in R[a] - Sset:          # x outside S reachable from a
                    if R[x] & Sset:            # ... and leads back into S
                        ok = False
                        break
                if not ok:
                    break
            if ok and len(Sset) < len(names):
                yield list(S)


def nest(prog, S, name="inner", rename_in=None, rename_out=None, inner_bound=None, pos=None, selected=None, double_bound=None):
    """Wrap the nodes named in S into a nested graph `name`.  rename_in / rename_out are LOCAL
    alpha-renamings of the inner graph {outer name: inner name} that the wrapper undoes with
    with_inputs / with_outputs, so the outer interface is unchanged.  inner_bound: outer names to
    bind INSIDE the nested graph instead of at the outer level; double_bound: outer names bound at BOTH levels,
    inside to another value that the outer binding overrides (like a second .bind() on a flat graph)."""
    rename_in = rename_in or {}
    rename_out = rename_out or {}
    ren = dict(rename_in)
    ren.update(rename_out)
    inner_nodes, rest = [], []
    for n in prog["nodes"]:
        (inner_nodes if n["name"] in S else rest).append(copy_node(n))
    produced_in = {o for n in inner_nodes for o in n["outputs"]}
    ext_in = []
    for n in inner_nodes:
        for p in n["inputs"]:
            if p not in produced_in and p not in ext_in:
                ext_in.append(p)
    # apply the local renaming inside
    for n in inner_nodes:
        n["inputs"] = [ren.get(p, p) for p in n["inputs"]]
        n["pmap"] = [[ren.get(c, c), o] for c, o in n["pmap"]]
        n["defaults"] = [ren.get(p, p) for p in n["defaults"]]
        n["outputs"] = [ren.get(o, o) for o in n["outputs"]]
        n["wait_for"] = [ren.get(w, w) for w in n["wait_for"]]
    outs = []
    for n in inner_nodes:
        for o in n["outputs"]:
            if o not in outs:
                outs.append(o)
    inv = {v: k for k, v in ren.items()}
    ib = []
    ob = []
    for b, v in prog["bound"]:
        if inner_bound and b in inner_bound and b in ext_in:
            ib.append([ren.get(b, b), v])
        else:
            ob.append([b, v])
            if double_bound and b in double_bound and b in ext_in:
                ib.append([ren.get(b, b), "shadowed." + b])
    sub = IR.prog(name, inner_nodes, bound=ib, max_iter=1000, selected=[ren.get(o, o) for o in selected] if selected else None)
    exposed = sub["selected"] if sub["selected"] != IR.UNSET else outs
    gn = IR.graph_node(sub, name=name,
                       inputs=list(ext_in), inmap=[[p, ren.get(p, p)] for p in ext_in],
                       outputs=[inv.get(o, o) for o in exposed], outmap=[[o, inv.get(o, o)] for o in exposed])
    k = len(rest) if pos is None else pos
    p2 = IR.prog(prog["name"], rest[:k] + [gn] + rest[k:], bound=ob, selected=None if prog["selected"] == IR.UNSET else prog["selected"],
                 entry=prog["entry"], max_iter=prog["max_iter"])
    return p2


def copy_node(n):
    import copy as _c
    return _c.deepcopy(n)


def conc_template(depth, fan, width=2, map_at=None, async_leaves=True, sync_last=False, pool=False, gen_last=False, bad_arity=False, wrap=False, cached=False):
    """Nested / mapped shape for the concurrency checks: `depth` nested graph levels, each with
    `width` parallel leaves and a join; at level `map_at` the nested node maps over a list of `fan`
    items.  Returns (prog, provided, lists)."""
    def A(name, ins, outs, sync=False):
        # gen_last: the last leaf of every level is an ASYNC GENERATOR (its body runs while the runner drains it)
        if gen_last and (name == f"T{width - 1}" or (name[0] == "L" and name.endswith(f"_{width - 1}"))):
            return IR.func(name, ins, outs, is_async=True, fn="gen")
        return IR.func(name, ins, outs, is_async=async_leaves and not sync, cache=cached)      # cached: every function is cache=True

    def level(d):
        """program of nesting level d (1 = outermost nested graph); its input is `v` (and the list
        `vs` when a deeper level maps over it), output `r{d}`; with sync_last the last leaf of every
        level is a SYNCHRONOUS function (listed after the async ones, so that they hold their slots first)"""
        leaves = [A(f"L{d}_{i}", ["v"], [f"l{d}_{i}"], sync=sync_last and i == width - 1) for i in range(width)]
        if bad_arity and d == 1:
            # the first leaf of every ITEM declares two outputs and returns one value: the item fails (continue mode) while
            # the framework holds the leaf's slot
            leaves[0] = IR.func(f"L{d}_0", ["v"], [f"l{d}_0", f"l{d}_0b"], is_async=async_leaves, fn="short")
        nodes = list(leaves)
        join_in = [f"l{d}_{i}" for i in range(width)]
        if d < depth:
            sub = level(d + 1)
            if map_at == d + 1:
                gn = IR.graph_node(sub, name=f"G{d+1}", inputs=["vs"], inmap=[["vs", "v"]], outputs=[f"r{d+1}"], outmap=[[f"r{d+1}", f"r{d+1}"]],
                                   map_over=["vs"], map_mode="zip", map_eh="raise")
            else:
                ins = ["v"] + (["vs"] if map_at is not None and map_at > d + 1 else [])
                gn = IR.graph_node(sub, name=f"G{d+1}", inputs=ins, inmap=[[p, p] for p in ins], outputs=[f"r{d+1}"], outmap=[[f"r{d+1}", f"r{d+1}"]])
            nodes.append(gn)
            join_in.append(f"r{d+1}")
        nodes.append(A(f"J{d}", join_in, [f"r{d}"]))
        return IR.prog(f"G{d}", nodes, max_iter=1000, selected=[f"r{d}"])

    lists, provided = [], [["v", "in.v"]]
    top_nodes = [A(f"T{i}", ["v"], [f"t{i}"], sync=sync_last and i == width - 1) for i in range(width)]
    if depth >= 1:
        sub = level(1)
        if map_at == 1:
            top_nodes.append(IR.graph_node(sub, name="G1", inputs=["vs"], inmap=[["vs", "v"]], outputs=["r1"], outmap=[["r1", "r1"]],
                                           map_over=["vs"], map_mode="zip", map_eh="continue" if bad_arity else "raise"))
        else:
            ins = ["v"] + (["vs"] if map_at is not None and map_at > 1 else [])
            top_nodes.append(IR.graph_node(sub, name="G1", inputs=ins, inmap=[[p, p] for p in ins], outputs=["r1"], outmap=[["r1", "r1"]]))
    if map_at is not None:
        items = [f"in.vs.{i}" for i in range(fan)]
        text = "[" + ";".join(items) + "]"
        lists.append([text, items])
        provided.append(["vs", text])
    if pool:
        # the program of runner.map(G1's graph, {v: items}, map_over="v"): only the mapped node at top level
        assert map_at == 1
        return IR.prog("top", [top_nodes[-1]], max_iter=50), [provided[-1]], lists
    top_nodes.append(A("Z", [f"t{i}" for i in range(width)] + (["r1"] if depth >= 1 else []), ["z"]))
    if wrap:
        # the top-level graph consists of exactly ONE node: a nested graph holding everything
        inner = IR.prog("W", top_nodes, max_iter=50, selected=["z"])
        ins = ["v"] + (["vs"] if map_at is not None else [])
        gn = IR.graph_node(inner, name="W", inputs=ins, inmap=[[p, p] for p in ins], outputs=["z"], outmap=[["z", "z"]])
        return IR.prog("top", [gn], max_iter=50), provided, lists
    return IR.prog("top", top_nodes, max_iter=50), provided, lists


def shared_output_loop(n_cont, explicit_gate_kind="route"):
    """Documented 'shared outputs in a cycle' shape (docs/03-patterns/03-agentic-loops.md): two
    accumulators write `messages`, ordered by an emit/wait_for pair; the gate targets the query
    generator."""
    gq = IR.func("generate_query", ["messages"], ["query"])
    aq = IR.normalize_node(dict(name="accumulate_query", kind="func", inputs=["messages", "query"], outputs=["messages", "query_done"], ndata=1))
    gr = IR.func("generate_response", ["messages"], ["response"])
    ar = IR.normalize_node(dict(name="accumulate_response", kind="func", inputs=["messages", "response"], outputs=["messages"], wait_for=["query_done"]))
    script = [["generate_query"]] * n_cont + [["END"]]
    if explicit_gate_kind == "ifelse":
        g = IR.ifelse("should_continue", ["messages"], "generate_query", "END", script)
    else:
        g = IR.route("should_continue", ["messages"], ["generate_query", "END"], script)
    prog = IR.prog("top", [gq, aq, gr, ar, g], max_iter=80)
    meta = {"shape": "shared", "body": ["generate_query"], "gate": "should_continue", "exit": IR.NONE, "entry": 1, "frame": "",
            "seed": [["messages", "in.messages"]], "n_cont": n_cont, "expect": []}
    return prog, [["messages", "in.messages"]], meta


def explicit_edges_loop(n_cont, gate_kind="route"):
    """Documented chat loop with EXPLICIT EDGES (docs/03-patterns/03-agentic-loops.md "With Explicit
    Edges", docs/06-api-reference/graph.md): add_query and add_response both produce `messages`; the
    declared topology is add_query -> generate -> add_response -> {should_continue, add_query}.
    Sequential meaning of that topology: (add_query; generate; add_response; gate) repeated while the
    gate says add_query."""
    aq = IR.func("add_query", ["messages", "query"], ["messages"])
    ge = IR.func("generate", ["messages"], ["response"])
    ar = IR.func("add_response", ["messages", "response"], ["messages"])
    script = [["add_query"]] * n_cont + [["END"]]
    if gate_kind == "ifelse":
        g = IR.ifelse("should_continue", ["messages"], "add_query", "END", script)
    else:
        g = IR.route("should_continue", ["messages"], ["add_query", "END"], script)
    prog = IR.prog("top", [aq, ge, ar, g], max_iter=14)
    prog["edges"] = [["add_query", "generate"], ["generate", "add_response"], ["add_response", "should_continue"], ["add_response", "add_query"]]
    meta = {"shape": "explicit", "body": ["add_query", "generate", "add_response"], "gate": "should_continue", "exit": IR.NONE, "entry": 1,
            "frame": "", "seed": [["messages", "in.messages"], ["query", "in.query"]], "n_cont": n_cont,
            "expect": [], "sequential": [[n, n_cont + 1] for n in ("add_query", "generate", "add_response", "should_continue")]}
    return prog, [["messages", "in.messages"], ["query", "in.query"]], meta


def inferred_edges(prog):
    """The data edges name inference creates for a flat program with unique producers (None otherwise):
    declaring exactly these with Graph(nodes, edges=...) must not change anything."""
    prod = {}
    for n in prog["nodes"]:
        for o in n["outputs"]:
            if o in prod:
                return None
            prod[o] = n["name"]
    edges = []
    for n in prog["nodes"]:
        for p in n["inputs"]:
            if p in prod and [prod[p], n["name"]] not in edges:
                edges.append([prod[p], n["name"]])
    return edges


def rename_nodes(prog, mapping):
    """Consistently rename nodes (names, gate targets, scripts, entry points)."""
    import copy as _c
    p = _c.deepcopy(prog)
    for n in p["nodes"]:
        old = n["name"]
        n["name"] = mapping.get(old, old)
        if n.get("fid") == old:
            n["fid"] = n["name"]
        if n.get("tname") == old:
            n["tname"] = n["name"]
        n["targets"] = [mapping.get(t, t) for t in n["targets"]]
        n["script"] = [[mapping.get(t, t) for t in s] for s in n["script"]]
        n["dec_args"] = [[v, [mapping.get(t, t) for t in s]] for v, s in n["dec_args"]]
        if n["fallback"] in mapping:
            n["fallback"] = mapping[n["fallback"]]
    p["entry"] = [mapping.get(e, e) for e in p["entry"]]
    return p


def swap_params(node):
    """Variant of a function node whose first two parameters were swapped in ONE with_inputs() call
    (current names stay the same; the underlying parameters are exchanged)."""
    import copy as _c
    n = _c.deepcopy(node)
    if len(n["inputs"]) < 2:
        return None
    a, b = n["inputs"][0], n["inputs"][1]
    pm = dict(map(tuple, n["pmap"]))
    pm[a], pm[b] = pm[b], pm[a]
    n["pmap"] = [[p, pm[p]] for p in n["inputs"]]
    n["materialize"] = True
    return n
