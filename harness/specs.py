"""Input-contract evaluation (InputSpec.tla via SpecEval.tla) and the real graph's input spec."""
from __future__ import annotations

import warnings

from . import build, tlc
from . import ir as IR


def spec_eval(jobs, workers=4, procs=None, timeout=1800, allow_l1fail=False):
    """jobs: [{id, prog, select, given}] -> {id: {required, optional, entry, active, accepts}}"""
    res, stats = tlc.run_batch("SpecEval", jobs, "HG_SPECJOBS", cfg="SpecEval.cfg", workers=workers, procs=procs, timeout=timeout)
    if stats["l1fail"] and not allow_l1fail:
        raise RuntimeError(f"InputSpec.tla violates its own laws: {stats['l1fail'][:10]}")
    out = {}
    for k, v in res.items():
        out[k] = {"required": sorted(v["required"]), "optional": sorted(v["optional"]),
                  "entry": {n: list(ps) for n, ps in (v["entry"].items() if isinstance(v["entry"], dict) else [])},
                  "active": sorted(v["active"]), "accepts": v["accepts"], "groups": [sorted(g) for g in v.get("groups", [])]}
    return out, stats


def real_spec(prog):
    rt = build.Runtime(prog)
    with warnings.catch_warnings():
        warnings.simplefilter("ignore")
        g = build.build_graph(rt, prog)
    s = g.inputs
    return {"required": sorted(s.required), "optional": sorted(s.optional),
            "entry": {k: list(v) for k, v in s.entrypoints.items()}, "bound": sorted(s.bound)}, g
