"""Spec -> code differential: the engine model (Predict.tla) predicts the observables of a job,
the same job runs on the real runners, property-specific comparators look at L1 observables."""
from __future__ import annotations

import collections
import os
import json
import re
import warnings

from . import build, tlc
from . import ir as IR


class ModelInconsistent(RuntimeError):
    """TLC found that the engine model (L2) violates the property-level definition (L1):
    a defect of the specification, reported as machinery failure, never as a property violation."""


def model_predict(jobs, prop="none", workers=4, procs=None, timeout=1800, allow_l1fail=False):
    import copy
    jobs2 = []
    for j in jobs:
        if any(n["cache"] for _, n in IR.all_nodes(j["prog"])):
            j = dict(j, prog=IR.assign_fids(copy.deepcopy(j["prog"])), alt=IR.assign_fids(copy.deepcopy(j.get("alt", IR.prog("_", [])))))
        jobs2.append(j)
    jobs = jobs2
    res, stats = tlc.run_batch("Predict", jobs, "HG_JOBS", cfg=f"Predict_{prop}.cfg", workers=workers, procs=procs, timeout=timeout)
    if stats["l1fail"] and not allow_l1fail:
        if os.environ.get("HGVERIF_DEBUG"):
            with open(os.environ["HGVERIF_DEBUG"] + ".jobs", "w") as f:
                json.dump({"jobs": jobs, "res": res}, f)
        raise ModelInconsistent(f"L2 model violates L1 definition of {prop}: {stats['l1fail'][:10]}")
    return {k: norm_model(v) for k, v in res.items()}, stats


def _strip(path):
    return re.sub(r"\[\d+\]", "", path)


def norm_model(m):
    if m.get("ismap"):
        return m
    if m.get("isseq"):
        m["runs"] = [norm_model(dict(r, steps=0, pause={"path": IR.NONE, "key": IR.NONE, "value": IR.NONE})) | {"hits": [h["path"] for h in r["hits"]]} for r in m["runs"]]
        return m
    """JSON produced by ToJson -> same shape as build.observe() (map item markers "[i]" are kept in
    `ipath`/`iframe` and stripped from path/frame, as the real bodies cannot see the item index)."""
    vals = m["values"] if isinstance(m["values"], dict) else {}
    calls, allcalls = [], []
    for c in m["calls"]:
        allcalls.append({"path": c["path"], "idx": c["idx"], "step": c["step"], "frame": c["frame"], "node": c["node"], "kind": c.get("kind", "func"),
                         "args": [list(a) for a in c["args"]]})
        if c.get("kind") == "graph":
            continue            # the real call log has leaf bodies only
        calls.append({"path": _strip(c["path"]), "idx": c["idx"], "args": [list(a) for a in c["args"]],
                      "step": c["step"], "frame": _strip(c["frame"]), "node": c["node"], "dec": list(c["dec"]),
                      "ipath": c["path"], "iframe": c["frame"]})
    err = dict(m["err"])
    err["ipath"] = err["path"]
    err["path"] = _strip(err["path"])
    return {"status": m["status"], "values": vals, "err": err, "pause": m["pause"], "calls": calls,
            "allcalls": allcalls, "steps": m["steps"], "raw_keys": list(m.get("raw_keys", [])), "aux": m.get("aux", {}), "done": [d["path"] for d in m.get("done", [])]}


def try_real(job, **kw):
    """Run on the real code; a rejected job returns {'rejected': ExcType} (construction or validation)."""
    try:
        obs, rt, r = build.run_job(job, **kw)
    except Exception as e:  # noqa: BLE001 - classification only
        return {"rejected": type(e).__name__, "msg": str(e)[:300]}, None, None
    return obs, rt, r


def per_node(calls):
    d = {}
    for c in calls:
        d.setdefault(c["path"], []).append([list(a) for a in c["args"]])
    return d


def projection(calls, a, b):
    return [c["path"] for c in calls if c["path"] in (a, b)]


def trace_l1(items, prop, workers=4, procs=None, timeout=1800):
    """Evaluate the L1 monitors of `prop` with TLC on recorded real call logs.
    items: [{id, prog, provided, calls, done}] -> {id: [failed clause names]}"""
    res, stats = tlc.run_batch("TraceL1", items, "HG_TRACES", cfg=f"TraceL1_{prop}.cfg", workers=workers, procs=procs, timeout=timeout)
    return {k: list(v["failed"]) for k, v in res.items()}, stats


def trace_item(job, obs):
    return {"id": job["id"], "prog": job["prog"], "provided": job["provided"],
            "calls": [{"path": c["path"], "frame": c["frame"], "node": c["node"], "step": 0, "idx": c["idx"],
                       "args": c["args"], "dec": c["dec"]} for c in obs["calls"]],
            "done": []}
