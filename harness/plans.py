"""Plan trees for HGSched.tla: which node bodies run in which superstep of which frame, derived
from the value-level engine model's call log (spec -> spec), so that TLC can explore every
interleaving of permits and completions over it."""
from __future__ import annotations

from . import ir as IR


def build_plan(pid, job, model, k, root_pool=False):
    """model: normalized Predict result (calls with frame/step/path/idx).  Returns the JSON plan."""
    nodes = dict(IR.all_nodes(job["prog"]))
    frames = [{"ptask": 0, "nsteps": 0, "item": 0, "path": ""}]
    tasks = []
    open_frame = {"": 1}            # frame path -> current frame id (latest instance)
    for c in model["allcalls"]:
        f = open_frame.get(c["frame"])
        if f is None:
            raise ValueError(f"call in unknown frame {c['frame']}")
        nd = nodes[strip_items(c["path"])]
        kind = "leaf"
        if nd["kind"] == "graph":
            kind = "map" if nd["map_over"] else "graph"
        t = {"frame": f, "step": c["step"], "kind": kind, "kids": [], "pos": 0,
             "path": f"{c['path']}#{c['idx']}", "permit": nd["kind"] == "func",
             "instant": nd["kind"] in ("route", "ifelse") or (nd["kind"] == "func" and not nd["is_async"])}
        tasks.append(t)
        tid = len(tasks)
        frames[f - 1]["nsteps"] = max(frames[f - 1]["nsteps"], c["step"])
        if kind == "graph":
            frames.append({"ptask": tid, "nsteps": 0, "item": 0, "path": c["path"]})
            t["kids"] = [len(frames)]
            open_frame[c["path"]] = len(frames)
        elif kind == "map":
            prefix = c["path"] + "["
            idxs = {a["frame"][len(prefix):].split("]")[0] for a in model["allcalls"] if a["frame"].startswith(prefix)}
            n_items = len(idxs)
            for it in range(n_items):
                frames.append({"ptask": tid, "nsteps": 0, "item": it + 1, "path": f"{c['path']}[{it}]"})
                t["kids"].append(len(frames))
                open_frame[f"{c['path']}[{it}]"] = len(frames)
    # positions inside a step follow the order of the (sync-ordered) call log
    seen = {}
    for t in tasks:
        key = (t["frame"], t["step"])
        seen[key] = seen.get(key, 0) + 1
        t["pos"] = seen[key]
    if root_pool:
        # runner.map(graph, ..., max_concurrency=k): the top-level mapped node stands for the map call,
        # whose items are taken from a queue by min(k, n) workers (HGSched StartItem)
        tops = [t for t in tasks if t["frame"] == 1]
        assert len(tops) == 1 and tops[0]["kind"] == "map"
        tops[0]["kind"] = "pool"
    return {"id": pid, "k": k or 0, "tasks": tasks, "frames": frames}


def strip_items(path):
    import re
    return re.sub(r"\[\d+\]", "", path)
