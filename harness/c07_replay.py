"""C07: replay of TLC-generated derivation histories (spec/GraphAlgebra.tla) on real hypergraph objects.

The model prints, per reachable state, the history `ops` and the abstract state of the object the last
operation created.  Here every history is executed through the PUBLIC API only
(`Graph.bind/unbind/select/with_entrypoint/add_nodes/as_node`, `with_name/with_inputs/with_outputs`,
`GraphNode.map_over`, `Graph([graph_node], name=...)` for the model's `wrap` (nesting), `SyncRunner().run`)
and after every step every live real object is observed -- the receiver, its siblings, and the objects it
wraps (the graph node inside an outer graph, the graph inside a graph node):

 (a) each object's observation equals its own previous observation (receiver unchanged, siblings
     uninfluenced), and the object created by a step equals the object built from its own derivation
     chain alone on fresh base objects (independence);
 (b) the new object's observation, projected to the observables of the model, equals the model's
     abstract state (ties the code to the specification);
 (c) the operation returned a NEW object.

Histories share prefixes, so they are replayed as a depth-first walk of the trie of histories: the
objects of the common prefix are reused for every continuation (which is itself a strong test of
immutability); a violation is re-executed on fresh objects along the single history before it is reported.
"""
from __future__ import annotations

import json
import warnings

from hypergraph import END, Graph, SyncRunner, route
from hypergraph.nodes.function import FunctionNode

warnings.simplefilter("ignore")

PROBE = "~probe"
OBSERVATIONS = ("observe", "run")

# ---------------------------------------------------------------------------------------------
# Catalogue (the same as Cat / G0 / G1 / N0 in spec/GraphAlgebra.tla)
# ---------------------------------------------------------------------------------------------
CAT = {  # name -> (inputs, output, params with a signature default)
    "A": (["x", "k"], "a", {"k"}),
    "B": (["a", "y"], "b", set()),
    "C": (["b"], "c", set()),
    "P": (["n", "s"], "m", set()),
    "Q": (["m"], "n", set()),
    "S": (["c", "acc"], "acc", set()),
    "T": (["n"], "t", set()),
    "W": (["z", "v"], "w", {"v"}),
    "Z": (["c"], "z", set()),
    "F": (["p", "q"], "r", {"q"}),
}


def _mk_fn(name):
    ins, out, dflt = CAT[name]
    params = ", ".join(f"{p}='d.{p}'" if p in dflt else p for p in ins)
    body = "','.join(str(v) for v in (" + "".join(p + ", " for p in ins) + "))"
    ns = {}
    exec(f"def {name}({params}):\n    return '{name}(' + {body} + ')'\n", ns)  # noqa: S102 - harness-owned body
    return FunctionNode(ns[name], output_name=out)


def _mk_gate():
    def R(n):
        return "P" if len(str(n)) < 16 else END
    return route(targets=["P", END])(R)


class Catalogue:
    """Fresh node objects and base objects of one replay pool."""

    def __init__(self):
        self.nodes = {k: _mk_fn(k) for k in CAT}
        self.nodes["R"] = _mk_gate()

    def base(self, scenario):
        n = self.nodes
        g0 = lambda: Graph([n["A"], n["B"], n["C"]], name="G0")  # noqa: E731
        g1 = lambda: Graph([n["P"], n["Q"], n["R"], n["T"]], name="G1")  # noqa: E731
        if scenario == "g0":
            return [g0()]
        if scenario == "g1":
            return [g1()]
        if scenario == "nodes":
            g = g0()
            return [g, n["F"], g.as_node()]
        if scenario == "all":
            g = g0()
            return [g, g1(), n["F"], g.as_node()]
        if scenario == "anon":      # GA of the model: the same nodes in a graph WITHOUT a name
            return [Graph([n["A"], n["B"], n["C"]])]
        if scenario == "nest":      # GB of the model: G0 with a binding (tag 0) made before the history starts
            g = g0().bind(x="bv0")
            return [g, g.as_node()]
        raise ValueError(scenario)


# ---------------------------------------------------------------------------------------------
# Observation of a real object
# ---------------------------------------------------------------------------------------------
RUNNER = SyncRunner()


def _exc(e):
    return ("exc", type(e).__name__)


def is_graph(o):
    return isinstance(o, Graph)


def run_graph(g, runner=None):
    """Run with a fixed complete input dict: every required input, plus the parameters of the first
    (sorted) cycle entry point.  A failing run is a stable observation too (recorded type-wise)."""
    ep_name = None
    try:
        spec = g.inputs
        vals = {k: "in." + k for k in spec.required}
        if spec.entrypoints:
            ep_name = sorted(spec.entrypoints)[0]
            for p in spec.entrypoints[ep_name]:
                vals.setdefault(p, "in." + p)
        runner = runner or RUNNER
        r = runner.run(g, vals, error_handling="continue", on_internal_override="ignore")
        first = (r.status.value, tuple(sorted((k, str(v)) for k, v in r.values.items())),
                 type(r.error).__name__ if r.error is not None else None)
    except Exception as e:  # noqa: BLE001
        return _exc(e)
    if ep_name is not None:
        # ... a cyclic graph also with the run-time option entrypoint=<that entry point>: the same run, said explicitly
        try:
            r1 = runner.run(g, vals, entrypoint=ep_name, error_handling="continue", on_internal_override="ignore")
            first = (first, (r1.status.value, tuple(sorted((k, str(v)) for k, v in r1.values.items())),
                             type(r1.error).__name__ if r1.error is not None else None))
        except Exception as e:  # noqa: BLE001
            first = (first, _exc(e))
    # ... and once more with a RUN-TIME selection of the graph's last output (the same values): whatever the runner
    # memoises per selection belongs to this object alone
    try:
        outs = list(g.outputs)
        if not outs:
            return first
        r2 = runner.run(g, vals, select=[outs[-1]], error_handling="continue", on_internal_override="ignore")
        second = (r2.status.value, tuple(sorted((k, str(v)) for k, v in r2.values.items())),
                  type(r2.error).__name__ if r2.error is not None else None)
    except Exception as e:  # noqa: BLE001
        second = _exc(e)
    return (first, second)


def run_node(n, runner=None):
    """Run the one-node graph around the node (lists for mapped parameters)."""
    try:
        g = Graph([n])
        mapped = set((n.map_config or ([],))[0]) if hasattr(n, "map_config") else set()
        vals = {k: (["in." + k + "#1", "in." + k + "#2"] if k in mapped else "in." + k) for k in g.inputs.required}
        spec = g.inputs
        if spec.entrypoints:
            first = sorted(spec.entrypoints)[0]
            for p in spec.entrypoints[first]:
                vals.setdefault(p, ["in." + p + "#1", "in." + p + "#2"] if p in mapped else "in." + p)
        r = (runner or RUNNER).run(g, vals, error_handling="continue", on_internal_override="ignore")
        return (r.status.value, tuple(sorted((k, str(v)) for k, v in r.values.items())),
                type(r.error).__name__ if r.error is not None else None)
    except Exception as e:  # noqa: BLE001
        return _exc(e)


def observe(o, run=True, runner=None):
    """Everything the property calls observable, as a flat dict of hashable values.  Keys starting with
    '@' are identities (compared with the object's own earlier observation only)."""
    if is_graph(o):
        i = o.inputs
        s = {
            "required": tuple(i.required), "optional": tuple(i.optional), "all": tuple(i.all),
            "entrypoints": tuple(sorted((k, tuple(v)) for k, v in i.entrypoints.items())),
            "bound": tuple(sorted((k, repr(v)) for k, v in i.bound.items())),
            "outputs": tuple(o.outputs), "leaf_outputs": tuple(o.leaf_outputs),
            "selected": o.selected, "entrypoints_config": o.entrypoints_config,
            "definition_hash": o.definition_hash, "nodes": tuple(o.nodes), "name": o.name,
            "has_cycles": o.has_cycles, "has_async_nodes": o.has_async_nodes, "strict_types": o.strict_types,
            # the edge structure as the public nx_graph shows it (which values every edge carries)
            "edges": tuple(sorted((str(u), str(v), str(d.get("edge_type")), tuple(sorted(map(str, d.get("value_names") or ()))))
                                  for u, v, d in o.nx_graph.edges(data=True))),
            "@nodes": tuple(id(n) for n in o.nodes.values()),
            "@nested": tuple(id(n.graph) for n in o.nodes.values() if hasattr(n, "map_config")),
        }
        if run:
            s["run"] = run_graph(o, runner)
        return s
    dfl = []
    for p in o.inputs:
        try:
            has = o.has_default_for(p)
            dfl.append((p, has, repr(o.get_default_for(p)) if has else None))
        except Exception as e:  # noqa: BLE001
            dfl.append((p, _exc(e)))
    s = {"name": o.name, "inputs": tuple(o.inputs), "outputs": tuple(o.outputs),
         "definition_hash": o.definition_hash, "defaults": tuple(dfl), "is_async": o.is_async,
         "class": type(o).__name__}
    if hasattr(o, "map_config"):
        mc = o.map_config
        s["map_config"] = None if mc is None else (tuple(mc[0]),) + tuple(mc[1:])
        s["@graph"] = id(o.graph)
    try:
        s["params"] = tuple(sorted(o.map_inputs_to_params({p: p for p in o.inputs}).items()))
    except Exception as e:  # noqa: BLE001
        s["params"] = _exc(e)
    if run:
        s["run"] = run_node(o, runner)
    return s


def diff(a, b, ident=True):
    """Names of the observables that differ."""
    return sorted(k for k in set(a) | set(b) if (ident or not k.startswith("@")) and a.get(k) != b.get(k)
                  and not (k == "run" and (k not in a or k not in b)))


# ---------------------------------------------------------------------------------------------
# (b) projection of the model's abstract object onto the same observables
# ---------------------------------------------------------------------------------------------
def _fn(x):
    """A TLA+ function with string domain arrives as a JSON object; the empty one as []."""
    return x if isinstance(x, dict) else {}


def model_mismatch(abs_obj, snap, real, objs):
    """List of (observable, expected, observed) where the real object differs from the model; and a
    list of order-only differences (never a verdict: the property speaks of sets)."""
    bad, order = [], []

    def seteq(name, exp, got):
        if set(exp) != set(got) or len(exp) != len(got):
            bad.append((name, list(exp), list(got)))
        elif list(exp) != list(got):
            order.append((name, list(exp), list(got)))

    def eq(name, exp, got):
        if exp != got:
            bad.append((name, exp, got))

    if abs_obj["kind"] in ("graph", "outer"):
        if not is_graph(real):
            return [("kind", abs_obj["kind"], type(real).__name__)], order
        seteq("inputs.required", abs_obj["req"], snap["required"])
        seteq("inputs.optional", abs_obj["opt"], snap["optional"])
        seteq("inputs.all", abs_obj["ins"], snap["all"])
        eq("inputs.entrypoints", {k: list(v) for k, v in _fn(abs_obj["eps"]).items()},
           {k: list(v) for k, v in snap["entrypoints"]})
        # what the graph shows as bound: the bindings inherited from a nested graph (under the names its
        # wrapper exposes), overridden by the graph's own ones
        shown = dict(_fn(abs_obj["ibound"]), **_fn(abs_obj["bound"]))
        eq("bound", {k: repr("bv%d" % t) for k, t in shown.items()}, dict(snap["bound"]))
        eq("outputs", list(abs_obj["outs"]), list(snap["outputs"]))
        eq("selected", list(abs_obj["sel"]["v"]) if abs_obj["sel"]["set"] else None,
           None if snap["selected"] is None else list(snap["selected"]))
        eq("entrypoints_config", list(abs_obj["entry"]["v"]) if abs_obj["entry"]["set"] else None,
           None if snap["entrypoints_config"] is None else list(snap["entrypoints_config"]))
        eq("nodes", list(abs_obj["nodes"]), list(snap["nodes"]))
        eq("name", abs_obj["name"] or None, snap["name"])          # "" = anonymous
        if abs_obj["kind"] == "outer":
            eq("wraps", True, len(real.nodes) == 1 and next(iter(real.nodes.values())) is objs[abs_obj["wraps"] - 1])
        return bad, order
    if is_graph(real):
        return [("kind", abs_obj["kind"], "Graph")], order
    eq("name", abs_obj["name"], snap["name"])
    seteq("inputs", abs_obj["ins"], snap["inputs"])
    eq("outputs", list(abs_obj["outs"]), list(snap["outputs"]))
    if abs_obj["kind"] == "gnode":
        mc = snap.get("map_config", "missing")
        eq("map_over", list(abs_obj["mapo"]), [] if mc is None else (list(mc[0]) if mc != "missing" else mc))
        eq("wraps", True, real.graph is objs[abs_obj["wraps"] - 1])
        # the inputs with a fallback inside the wrapped graph (bound or defaulted there)
        eq("defaults", sorted(abs_obj["dflt"]), sorted(d[0] for d in snap["defaults"] if d[1] is True))
    else:
        eq("defaults", sorted(abs_obj["dflt"]), sorted(d[0] for d in snap["defaults"] if d[1] is True))
    return bad, order


# ---------------------------------------------------------------------------------------------
# Operations (public API only)
# ---------------------------------------------------------------------------------------------
def _pairs(arg):
    return {arg[i]: arg[i + 1] for i in range(0, len(arg), 2)}


# Caller-owned rename mappings.  A rename with several pairs is called as op(mapping, **kwargs) where `mapping`
# is ONE dict object per leading pair, owned by the caller and reused by every such call of the whole replay:
# an operation that writes into its argument changes what later calls (on other objects) receive.
SHARED_MAPPINGS = {}
ARG_MUTATIONS = []


def _rename_call(recv, name, pairs):
    if len(pairs) < 2:
        return getattr(recv, name)(pairs)
    first = next(iter(pairs))
    m = SHARED_MAPPINGS.setdefault((name, first, pairs[first]), {first: pairs[first]})
    before = dict(m)
    try:
        return getattr(recv, name)(m, **{a: b for a, b in pairs.items() if a != first})
    finally:
        if m != before:
            ARG_MUTATIONS.append((name, before, dict(m)))
            m.clear()
            m.update(before)


def api_apply(cat, op, recv, k):
    name, arg = op["op"], op["arg"]
    if name == "bind":
        return recv.bind(**{arg[0]: "bv%d" % k})
    if name == "unbind":
        return recv.unbind(arg[0])
    if name == "select":
        return recv.select(*arg)
    if name == "with_entrypoint":
        return recv.with_entrypoint(arg[0])
    if name == "add_nodes":
        return recv.add_nodes(cat.nodes[arg[0]])
    if name == "as_node":
        return recv.as_node(name=arg[0]) if arg else recv.as_node()
    if name == "with_name":
        return recv.with_name(arg[0])
    if name in ("with_inputs", "with_outputs"):
        return _rename_call(recv, name, _pairs(arg))
    if name == "map_over":
        return recv.map_over(arg[0])
    if name == "wrap":              # nesting: the outer graph around one graph node
        return Graph([recv], name=arg[0])
    raise ValueError(name)


def opkey(op):
    return f"{op['op']}:{op['tgt']}:{','.join(op['arg'])}"


# ---------------------------------------------------------------------------------------------
# Handed-out containers: mutate what the API returns, nothing may write through to ANOTHER object
# ---------------------------------------------------------------------------------------------
def handout_probe(o):
    """Mutate every container the public API hands out for object o.  Returns a list of
    (container name, undo callable)."""
    undo = []
    if is_graph(o):
        d = o.nodes                       # documented: a copy
        d[PROBE] = None
        d.pop(next(iter(d)))
        b = o.inputs.bound
        b[PROBE] = "~"
        undo.append(("inputs.bound", lambda b=b: b.pop(PROBE, None)))
        e = o.inputs.entrypoints
        e[PROBE] = ("~",)
        undo.append(("inputs.entrypoints", lambda e=e: e.pop(PROBE, None)))
    else:
        mc = getattr(o, "map_config", None)
        if mc is not None:
            mc[0].append(PROBE)
            undo.append(("map_config", lambda lst=mc[0]: lst.remove(PROBE) if PROBE in lst else None))
        dd = getattr(o, "defaults", None)
        if isinstance(dd, dict):
            dd[PROBE] = "~"
            undo.append(("defaults", lambda dd=dd: dd.pop(PROBE, None)))
    return undo


# ---------------------------------------------------------------------------------------------
# The replayer
# ---------------------------------------------------------------------------------------------
class Finding:
    def __init__(self, klass, summary, detail):
        self.klass, self.summary, self.detail = klass, summary, detail

    def as_dict(self):
        return {"class": self.klass, "summary": self.summary, "detail": self.detail}


class Pool:
    """Live real objects of one history prefix with their last observations."""

    def __init__(self, scenario, apply=api_apply):
        self.cat = Catalogue()
        self.objs = self.cat.base(scenario)
        self.snaps = [None] * len(self.objs)
        self.apply = apply


class Replayer:
    def __init__(self, scenario, base_abs, apply=api_apply, project=None, handout=True, refs=True, runs=True):
        self.scenario = scenario
        self.base_abs = base_abs            # abstract base heap printed by TLC
        self.apply = apply
        self.project = project or (lambda o: o)   # self-test hook: perturb the model projection
        self.handout, self.refs, self.runs = handout, refs, runs
        self.findings = []                  # Finding objects (first per (class, history))
        self.divergences = {}               # what -> count
        self.stats = {"steps": 0, "snapshots": 0, "model_compares": 0, "ref_compares": 0, "handout_probes": 0,
                      "new_objects": 0}
        self._ref_cache = {}
        self._ref_cat = None
        self._abs_all = None
        self.pool = None
        self.rejected = False

    # -- bookkeeping
    def _find(self, klass, hist, summary, abs_all=None, **detail):
        """abs_all: abstract objects of the heap (base included) after the step; stored per operation
        (None for observations) so that the history can be re-executed on its own."""
        abs_all = self._abs_all if abs_all is None else abs_all
        born = {a["born"]: a for a in (abs_all or [])[len(self.base_abs):]}
        objects = [born.get(k + 1) for k in range(len(hist))]
        self.findings.append(Finding(klass, summary, dict(detail, history=list(hist), objects=objects)))

    def _rejected(self, hist, op, e):
        """The API refused an operation whose documented preconditions hold in the model.  On the
        unchanged tree this never happens (the guards of GraphAlgebra mirror the API); it does when an
        earlier operation corrupted the receiver."""
        self.rejected = True
        self._find(f"model-mismatch:{op['op']}:rejected", hist,
                   f"{opkey(op)} is admitted by the model (documented preconditions hold) but the API raised "
                   f"{type(e).__name__}: {str(e)[:200]}", error=type(e).__name__)

    def _div(self, what):
        self.divergences[what] = self.divergences.get(what, 0) + 1

    def _observe(self, o):
        self.stats["snapshots"] += 1
        return observe(o, run=self.runs)

    # -- independence reference: the object built from its own derivation chain alone
    def chain_of(self, hist, abs_objs, idx):
        """Operations (with their history positions) on the derivation chain of object idx (1-based)."""
        nb = len(self.base_abs)
        chain = []
        while idx > nb:
            a = abs_objs[idx - 1]
            chain.append((a["born"], hist[a["born"] - 1]))
            idx = a["parent"]
        chain.reverse()
        return idx, chain

    def reference(self, hist, abs_objs, idx, fresh=False):
        """Observation of the object built from its derivation chain alone.  Normally the references of
        one replayer share one catalogue of nodes (fresh base graphs per reference); fresh=True rebuilds
        on a brand-new catalogue (used to double-check before a finding is reported)."""
        root, chain = self.chain_of(hist, abs_objs, idx)
        key = (root, tuple((k, op["op"], tuple(op["arg"])) for k, op in chain))
        if fresh or key not in self._ref_cache:
            if fresh or self._ref_cat is None:
                cat = Catalogue()
                if not fresh:
                    self._ref_cat = cat
            else:
                cat = self._ref_cat
            o = cat.base(self.scenario)[root - 1]      # fresh base objects
            for k, op in chain:
                o = api_apply(cat, op, o, k)
            # ... and run by a runner that has run nothing else (the pool's objects share one runner)
            snap = observe(o, run=self.runs, runner=SyncRunner())
            if fresh:
                return snap
            self._ref_cache[key] = snap
            if len(self._ref_cache) > 200000:
                self._ref_cache.clear()
        return self._ref_cache[key]

    def ref_diff(self, hist, abs_objs, idx, s):
        """Observables on which object idx differs from its chain-only reference (double-checked)."""
        try:
            ref = self.reference(hist, abs_objs, idx)
            d = diff(ref, s, ident=False)
            if d:
                ref = self.reference(hist, abs_objs, idx, fresh=True)
                d = diff(ref, s, ident=False)
                if not d:
                    self.stats["contaminated_reference"] = self.stats.get("contaminated_reference", 0) + 1
            return d, ref
        except Exception as e:  # noqa: BLE001 - the chain cannot be rebuilt (only on a broken tree)
            return ["chain-rebuild:" + type(e).__name__], {}

    def _arg_mutations(self, hist, op):
        while ARG_MUTATIONS:
            name, before, after = ARG_MUTATIONS.pop()
            self._find(f"caller-argument-modified:{name}", hist,
                       f"{name}(mapping, **kwargs) changed the caller's mapping object from {before} to {after}")

    # -- one step on a pool; returns False when the pool may be contaminated
    def step(self, pool, hist, abs_objs, op, abs_new, check=True):
        """Execute op (the last element of hist) on the pool.  abs_objs: abstract objects of the live
        heap BEFORE the step (base included); abs_new: the abstract object created (None for observations)."""
        self.stats["steps"] += 1
        k = len(hist)
        recv = pool.objs[op["tgt"] - 1]
        clean = True
        self._abs_all = abs_objs + ([abs_new] if abs_new is not None else [])
        if op["op"] in OBSERVATIONS:
            new = None
            if op["op"] == "run" and is_graph(recv):
                run_graph(recv)
            else:
                observe(recv, run=False)
        else:
            try:
                new = pool.apply(pool.cat, op, recv, k)
            except Exception as e:  # noqa: BLE001
                self._rejected(hist, op, e)
                return False
            finally:
                self._arg_mutations(hist, op)
            self.stats["new_objects"] += 1
            if new is recv or any(new is o for o in pool.objs):
                self._find(f"not-a-new-object:{op['op']}", hist, f"{op['op']} returned an existing object")
                clean = False
            pool.objs.append(new)
            pool.snaps.append(None)
        if not check:
            return clean
        # (a) every live object against its own previous observation
        for idx, o in enumerate(pool.objs):
            s = self._observe(o)
            prev = pool.snaps[idx]
            pool.snaps[idx] = s
            if prev is None:
                continue
            d = diff(prev, s)
            if d:
                clean = False
                if idx == op["tgt"] - 1:
                    for ob in d:
                        self._find(f"receiver-changed:{op['op']}:{ob.lstrip('@')}", hist,
                                   f"receiver #{idx + 1} of {opkey(op)}: {ob} was {prev.get(ob)!r} now {s.get(ob)!r}",
                                   object=idx + 1, observable=ob, before=prev.get(ob), after=s.get(ob))
                else:
                    self._find(f"sibling-influenced:{op['op']}", hist,
                               f"object #{idx + 1} (not the receiver) changed after {opkey(op)}: " +
                               "; ".join(f"{ob}: {prev.get(ob)!r} -> {s.get(ob)!r}" for ob in d)[:600],
                               object=idx + 1, observables=d)
        if new is not None:
            idx = len(pool.objs) - 1
            s = pool.snaps[idx]
            # (b) against the model
            self.stats["model_compares"] += 1
            bad, order = model_mismatch(self.project(abs_new), s, new, pool.objs)
            for ob, exp, got in bad:
                self._find(f"model-mismatch:{op['op']}:{ob}", hist,
                           f"object #{idx + 1} created by {opkey(op)}: {ob} is {got!r}, the model says {exp!r}",
                           object=idx + 1, observable=ob, expected=exp, observed=got)
            for ob, exp, got in order:
                self._div(f"order of {ob} differs from the model (sets equal)")
            # independence: equal to the object built from its chain alone
            if self.refs:
                self.stats["ref_compares"] += 1
                d, ref = self.ref_diff(hist, abs_objs + [abs_new], idx + 1, s)
                if d:
                    clean = False
                    self._find(f"sibling-influenced:{op['op']}", hist,
                               f"object #{idx + 1} created by {opkey(op)} differs from the object built from its own "
                               f"derivation chain alone: " + "; ".join(f"{ob}: {ref.get(ob)!r} vs {s.get(ob)!r}" for ob in d)[:600],
                               object=idx + 1, observables=d, reference="chain-only")
            # handed-out containers of the new object (every object is probed once, when it is created)
            if self.handout:
                clean = self._handout(pool, hist, op, [idx]) and clean
        return clean

    def _handout(self, pool, hist, op, idxs):
        clean = True
        for idx in idxs:
            self.stats["handout_probes"] += 1
            undo = handout_probe(pool.objs[idx])
            for j, o in enumerate(pool.objs):
                s = observe(o, run=False)
                d = [x for x in diff(pool.snaps[j], s) if x != "run"]
                if not d:
                    continue
                if j == idx:
                    # the object's own returned container is live: outside the text of C07 (no derivation
                    # operation is involved); recorded, never a verdict
                    for ob in d:
                        self._div(f"handed-out container writes through to its own object: {ob}")
                else:
                    clean = False
                    self._find(f"sibling-influenced:{op['op']}", hist,
                               f"mutating a container handed out by object #{idx + 1} changed object #{j + 1}: {d}",
                               object=j + 1, via=idx + 1, observables=d, reference="handed-out container")
            for _, u in undo:
                u()
            s = observe(pool.objs[idx], run=False)
            if [x for x in diff(pool.snaps[idx], s) if x != "run"]:
                clean = False   # could not restore: rebuild the pool
        return clean

    # -- linear replay of one history on fresh objects (also the re-execution of a witness)
    def linear(self, hist, objs_abs, lazy=False):
        """hist: list of ops; objs_abs: abstract object created by each op (None for observations)."""
        pool = self.pool = Pool(self.scenario, self.apply)
        abs_objs = list(self.base_abs)
        if not lazy:
            pool.snaps = [self._observe(o) for o in pool.objs]
            self._check_base(pool)
        self.rejected = False
        for k in range(1, len(hist) + 1):
            if lazy:
                self._lazy_step(pool, hist[:k], abs_objs, hist[k - 1], objs_abs[k - 1])
            else:
                self.step(pool, hist[:k], abs_objs, hist[k - 1], objs_abs[k - 1])
            if self.rejected:
                return pool       # the object does not exist: the rest of the history cannot be executed
            if objs_abs[k - 1] is not None:
                abs_objs.append(objs_abs[k - 1])
        if lazy:
            self._lazy_final(pool, hist, abs_objs)
        return pool

    def _check_base(self, pool):
        self._abs_all = list(self.base_abs)
        for idx, a in enumerate(self.base_abs):
            bad, _ = model_mismatch(self.project(a), pool.snaps[idx], pool.objs[idx], pool.objs)
            for ob, exp, got in bad:
                self._find(f"model-mismatch:base:{ob}", [], f"base object #{idx + 1}: {ob} is {got!r}, the model says {exp!r}",
                           object=idx + 1, observable=ob, expected=exp, observed=got)

    # -- lazy mode: nothing is read except where the history says observe / run; everything at the end
    def _lazy_step(self, pool, hist, abs_objs, op, abs_new):
        self.stats["steps"] += 1
        self._abs_all = abs_objs + ([abs_new] if abs_new is not None else [])
        recv = pool.objs[op["tgt"] - 1]
        i = op["tgt"] - 1
        if op["op"] == "observe":
            s = observe(recv, run=False)
            self.stats["snapshots"] += 1
            self._lazy_cmp(pool, hist, i, s)
        elif op["op"] == "run":
            s = {"run": run_graph(recv)}
            self.stats["snapshots"] += 1
            self._lazy_cmp(pool, hist, i, s)
        else:
            try:
                new = pool.apply(pool.cat, op, recv, len(hist))
            except Exception as e:  # noqa: BLE001
                self._rejected(hist, op, e)
                return
            finally:
                self._arg_mutations(hist, op)
            self.stats["new_objects"] += 1
            if any(new is o for o in pool.objs):
                self._find(f"not-a-new-object:{op['op']}", hist, f"{op['op']} returned an existing object")
            pool.objs.append(new)
            pool.snaps.append(None)

    def _lazy_culprit(self, hist, i):
        """Lazy replay sees an object late.  Find the shortest prefix of the history after which the
        object (observed cold, on fresh objects) differs from its chain-only reference: its last operation
        is the culprit.  Only executed when something was found."""
        abs_all = self._abs_all
        nb = len(self.base_abs)
        start = abs_all[i]["born"] if i >= nb else 1
        for k in range(max(1, start), len(hist) + 1):
            try:
                pool = Pool(self.scenario, self.apply)
                for j, op in enumerate(hist[:k]):
                    recv = pool.objs[op["tgt"] - 1]
                    if op["op"] == "observe":
                        observe(recv, run=False)
                    elif op["op"] == "run":
                        run_graph(recv)
                    else:
                        pool.objs.append(pool.apply(pool.cat, op, recv, j + 1))
                s = observe(pool.objs[i], run=self.runs)
                if diff(self.reference(hist, abs_all, i + 1, fresh=True), s, ident=False):
                    return k
            except Exception:  # noqa: BLE001
                return k
        return len(hist)

    def _lazy_changed(self, hist, i, d, text, **detail):
        k = self._lazy_culprit(hist, i)
        op = hist[k - 1]
        if op["tgt"] == i + 1 and op["op"] not in OBSERVATIONS:
            for ob in d:
                self._find(f"receiver-changed:{op['op']}:{ob.lstrip('@')}", hist[:k], text, object=i + 1, observable=ob,
                           mode="lazy", **detail)
        else:
            self._find(f"sibling-influenced:{op['op']}", hist[:k], text, object=i + 1, observables=d, mode="lazy", **detail)

    @staticmethod
    def _blame(hist, i):
        mine = [op for op in hist if op["tgt"] == i + 1 and op["op"] not in OBSERVATIONS]
        return mine[0] if mine else {"op": "base", "tgt": 0, "arg": []}

    def _lazy_cmp(self, pool, hist, i, s):
        prev = pool.snaps[i]
        if prev is None:
            pool.snaps[i] = dict(s)
            return
        d = [k for k in s if k in prev and prev[k] != s[k]]
        if d:
            self._lazy_changed(hist, i, d, f"object #{i + 1} observed differently than before (lazy replay): " +
                               "; ".join(f"{ob}: {prev.get(ob)!r} -> {s.get(ob)!r}" for ob in d)[:600])
        prev.update({k: v for k, v in s.items() if k not in prev})

    def _lazy_final(self, pool, hist, abs_objs):
        self._abs_all = abs_objs
        order = list(range(len(pool.objs)))
        if len(hist) % 2:
            order.reverse()
        for i in order:
            s = self._observe(pool.objs[i])
            self._lazy_cmp(pool, hist, i, s)
            created_by = hist[abs_objs[i]["born"] - 1] if abs_objs[i]["born"] else self._blame(hist, i)
            self.stats["model_compares"] += 1
            bad, order_only = model_mismatch(self.project(abs_objs[i]), s, pool.objs[i], pool.objs)
            for ob, exp, got in bad:
                self._find(f"model-mismatch:{created_by['op']}:{ob}", hist,
                           f"object #{i + 1}" + (f" created by {opkey(created_by)}" if abs_objs[i]["born"] else " (base)") +
                           f": {ob} is {got!r}, the model says {exp!r} (lazy replay)",
                           object=i + 1, observable=ob, expected=exp, observed=got, mode="lazy")
            if self.refs:
                self.stats["ref_compares"] += 1
                d, ref = self.ref_diff(hist, abs_objs, i + 1, s)
                if d:
                    self._lazy_changed(hist, i, d, f"object #{i + 1} differs from the object built from its own derivation "
                                       "chain alone (lazy replay): " +
                                       "; ".join(f"{ob}: {ref.get(ob)!r} vs {s.get(ob)!r}" for ob in d)[:600],
                                       reference="chain-only")

    # -- depth-first walk of a trie of histories with shared prefix objects
    def walk(self, trie_root, prefix_nodes, limit_findings=40):
        """prefix_nodes: trie nodes from below the root to the subtree root (executed first, on fresh
        objects, then the subtree is walked).  Returns the number of histories (trie nodes) visited."""
        visited = 0
        hist, abs_objs = [], list(self.base_abs)

        def rebuild():
            pool = Pool(self.scenario, self.apply)
            pool.snaps = [self._observe(o) for o in pool.objs]
            ab = list(self.base_abs)
            h = []
            for nd in path:
                h.append(nd["op"])
                n0 = len(self.findings)
                self.rejected = False
                self.step(pool, list(h), ab, nd["op"], nd["obj"])
                del self.findings[n0:]       # already reported when first seen
                if self.rejected:
                    raise RuntimeError(f"cannot rebuild the prefix {h}: the API now rejects an operation it accepted before")
                if nd["obj"] is not None:
                    ab.append(nd["obj"])
            return pool

        path = []
        pool = Pool(self.scenario, self.apply)
        pool.snaps = [self._observe(o) for o in pool.objs]
        self._check_base(pool)
        for nd in prefix_nodes:
            hist.append(nd["op"])
            self.rejected = False
            self.step(pool, list(hist), abs_objs, nd["op"], nd["obj"])
            if self.rejected:
                return _size(prefix_nodes[-1])
            if nd["obj"] is not None:
                abs_objs.append(nd["obj"])
            path.append(nd)
        if prefix_nodes:
            visited += 1
        stack_root = prefix_nodes[-1] if prefix_nodes else trie_root

        def rec(node, pool):
            nonlocal visited
            for child in node["ch"]:
                if len(self.findings) >= limit_findings:
                    return pool
                hist.append(child["op"])
                path.append(child)
                n_objs, n_abs = len(pool.objs), len(abs_objs)
                self.rejected = False
                clean = self.step(pool, list(hist), abs_objs, child["op"], child["obj"])
                visited += 1
                if self.rejected:          # the object does not exist: its subtree cannot be executed
                    visited += _size(child) - 1
                    self.stats["skipped_after_rejection"] = self.stats.get("skipped_after_rejection", 0) + _size(child) - 1
                    hist.pop()
                    path.pop()
                    pool = rebuild()
                    continue
                if child["obj"] is not None:
                    abs_objs.append(child["obj"])
                if not clean:
                    pool = rebuild()
                pool = rec(child, pool)
                hist.pop()
                path.pop()
                del abs_objs[n_abs:]
                if clean:
                    del pool.objs[n_objs:]
                    del pool.snaps[n_objs:]
                else:
                    pool = rebuild()
            return pool

        rec(stack_root, pool)
        return visited


# ---------------------------------------------------------------------------------------------
# Trie of histories from TLC's HIST lines
# ---------------------------------------------------------------------------------------------
def build_trie(hist_lines):
    """hist_lines: dicts {ops, n, obj}.  Returns (root, number of nodes).  Every prefix of a history
    must itself be present (TLC prints every reachable state); duplicates (simulation) are merged."""
    root = {"op": None, "obj": None, "ch": [], "_k": {}}
    count = 0
    for line in sorted(hist_lines, key=lambda x: len(x["ops"])):
        node = root
        ops = line["ops"]
        for d, op in enumerate(ops):
            key = opkey(op)
            nxt = node["_k"].get(key)
            if nxt is None:
                if d != len(ops) - 1:
                    raise RuntimeError(f"history without its prefix: {ops}")
                nxt = {"op": op, "obj": None if op["op"] in OBSERVATIONS else line["obj"], "ch": [], "_k": {}}
                node["_k"][key] = nxt
                node["ch"].append(nxt)
                count += 1
            node = nxt
    return root, count


def _size(node):
    return 1 + sum(_size(c) for c in node["ch"])


def history_of(path_nodes):
    return [nd["op"] for nd in path_nodes], [nd["obj"] for nd in path_nodes]


def dumps(x):
    return json.dumps(x, sort_keys=True, default=str)
