"""Driver for TLC: one place that knows how TLC is started, where scratch lives, and how its
output is parsed (RESULT lines, state counts, invariant violations, coverage)."""
from __future__ import annotations

import concurrent.futures as cf
import json
import os
import re
import shutil
import subprocess
import tempfile
import time

SPEC_DIR = os.path.join(os.path.dirname(os.path.dirname(os.path.abspath(__file__))), "spec")
CP = "/opt/veriftools/tla/tla2tools.jar:/opt/veriftools/tla/CommunityModules-deps.jar"
NCPU = os.cpu_count() or 4


class TLCError(RuntimeError):
    pass


class TLCResult:
    def __init__(self, out, wall):
        self.out = out
        self.wall = wall
        m = re.search(r"(\d+) states generated, (\d+) distinct states found", out)
        self.generated = int(m.group(1)) if m else 0
        self.distinct = int(m.group(2)) if m else 0
        if not m:
            ms = re.search(r"The number of states generated: (\d+)", out)      # simulation mode
            if ms:
                self.generated = int(ms.group(1))
        m = re.search(r"The depth of the complete state graph search is (\d+)", out)
        self.depth = int(m.group(1)) if m else 0
        self.violation = None
        m = re.search(r"Error: Invariant (\S+) is violated", out)
        if m:
            self.violation = ("invariant", m.group(1))
        m2 = re.search(r"Error: Action property (\S+) is violated", out)
        if m2:
            self.violation = ("action_property", m2.group(1))
        if "Error: Temporal properties were violated" in out:
            self.violation = ("temporal", "")
        if "Error: Deadlock reached" in out:
            self.violation = ("deadlock", "")
        m3 = re.search(r"Error: The postcondition (\S+)? ?.*(violated|false)", out)
        if m3 or "postcondition" in out.lower() and "violated" in out.lower():
            self.violation = self.violation or ("postcondition", "")
        self.ok = "Model checking completed. No error has been found." in out or "Finished computing" in out and self.violation is None and "Error:" not in out
        self.errors = [l for l in out.splitlines() if l.startswith("Error:")]

    def results(self, tag="RESULT"):
        """Parse `<<"TAG", "json-string">>` lines printed with PrintT (robust to interleaving:
        each PrintT is one line)."""
        res = []
        pat = re.compile(r'<<"' + re.escape(tag) + r'", (".*")>>\s*$')
        for line in self.out.splitlines():
            m = pat.match(line.strip())
            if m:
                res.append(json.loads(json.loads(m.group(1))))
        return res

    def counterexample(self):
        """Text of the error trace, if any."""
        i = self.out.find("Error:")
        return self.out[i:i + 6000] if i >= 0 else ""


def scratch_dir(prefix="hgverif-"):
    base = os.environ.get("HGVERIF_TMP") or tempfile.gettempdir()
    return tempfile.mkdtemp(prefix=prefix, dir=base)


def run_tlc(module, cfg=None, env=None, workers=4, heap="3g", timeout=1800, extra=(), simulate=None, check=True):
    """Run TLC on spec/<module>.tla with spec/<cfg> (default <module>.cfg)."""
    meta = scratch_dir("tlcmeta-")
    cfg = cfg or module + ".cfg"
    gc = "-XX:+UseSerialGC" if workers <= 4 else "-XX:+UseParallelGC"
    cmd = ["java", gc, f"-Xmx{heap}", "-Xss64m", "-cp", CP]
    if env and env.get("_DFS"):
        cmd.insert(1, "-Dtlc2.tool.queue.IStateQueue=StateDeque")
    cmd += ["tlc2.TLC", "-workers", str(workers), "-noGenerateSpecTE", "-metadir", meta, "-config", cfg]
    if simulate:
        cmd += ["-simulate", simulate]
    cmd += list(extra) + [module + ".tla"]
    e = dict(os.environ)
    for k, v in (env or {}).items():
        if not k.startswith("_"):
            e[k] = str(v)
    t0 = time.time()
    try:
        p = subprocess.run(cmd, cwd=SPEC_DIR, env=e, capture_output=True, text=True, timeout=timeout)
    except subprocess.TimeoutExpired as ex:
        raise TLCError(f"TLC timeout after {timeout}s: {' '.join(cmd)}") from ex
    finally:
        shutil.rmtree(meta, ignore_errors=True)
    res = TLCResult(p.stdout + p.stderr, time.time() - t0)
    res.cmd = " ".join(cmd)
    if check and not res.ok and res.violation is None:
        raise TLCError("TLC failed:\n" + res.out[-4000:])
    return res


def run_batch(module, items, env_key, cfg=None, procs=None, workers=4, tag="RESULT", timeout=1800, env=None, key="id"):
    """Evaluate a batch of independent JSON items: shard over several TLC processes (TLC's
    string interning serialises workers, separate JVMs scale), return {id: result} and stats."""
    if not items:
        return {}, {"states": 0, "transitions": 0, "wall": 0.0}
    procs = procs or max(1, min(NCPU // workers, (len(items) + 39) // 40))
    shards = [items[i::procs] for i in range(procs)]
    tmp = scratch_dir("tlcjobs-")
    try:
        def one(k):
            path = os.path.join(tmp, f"jobs{k}.json")
            with open(path, "w") as f:
                json.dump(shards[k], f)
            e = dict(env or {})
            e[env_key] = path
            return run_tlc(module, cfg=cfg, env=e, workers=workers, timeout=timeout, extra=("-continue",), check=False)

        t0 = time.time()
        with cf.ThreadPoolExecutor(procs) as ex:
            rs = list(ex.map(one, range(procs)))
        out = {}
        for r in rs:
            for x in r.results(tag):
                out[x[key]] = x
        fails = []
        for r in rs:
            for line in r.out.splitlines():
                m = re.match(r'<<"L1FAIL", (.*)>>\s*$', line.strip())
                if m:
                    fails.append(m.group(1))
            hard = [e for e in r.errors if "Invariant" not in e and "is violated" not in e and "behavior up to this point" not in e]
            if hard or ("Finished in" not in r.out):
                if os.environ.get("HGVERIF_DEBUG"):
                    with open(os.environ["HGVERIF_DEBUG"], "w") as f:
                        f.write(r.out)
                raise TLCError("TLC failed: " + " | ".join(e[:300] for e in r.errors[:5]) + "\n" + r.out[-1500:])
        stats = {"states": sum(r.distinct for r in rs), "transitions": sum(r.generated for r in rs),
                 "wall": time.time() - t0, "procs": procs, "l1fail": sorted(set(fails))}
        missing = [it[key] for it in items if it[key] not in out]
        if missing:
            raise TLCError(f"TLC produced no result for items {missing[:5]} ...\n" + rs[0].out[-3000:])
        return out, stats
    finally:
        shutil.rmtree(tmp, ignore_errors=True)
