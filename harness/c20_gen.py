"""C20: program generator, DECLARED structure, and recorder of the renderer's output.

A program is described by plain data (never by hypergraph objects):

    level  = [node, ...]
    node   = {"k": "fn",    "name", "ins": [..], "outs": [..], "emit": [..], "wait": [..]}
           | {"k": "gate",  "name", "ins": [..], "gk": "ifelse"|"route", "targets": [name|"END", ..]}
           | {"k": "graph", "name", "nodes": level, "rin": {inner: outer}, "rout": {inner: outer}}

From one description this module derives, independently of each other,
  * the real hypergraph objects (`build`), through the public constructors only;
  * the DECLARED structure (`declared`): hierarchy and the leaf-level dependencies of the
    fully flattened program, computed from the names in the description alone;
  * the RECORDED renderings (`record`): what render_graph / to_mermaid / to_flat_graph emit,
    translated 1:1 into the vocabulary of spec/Viz.tla (no judgement is made here).
"""
from __future__ import annotations

import itertools
import zlib
import re

NONE = "~none"

# ---------------------------------------------------------------------------------------------
# description helpers
# ---------------------------------------------------------------------------------------------


def fn(name, ins, outs=(), emit=(), wait=(), after=()):
    """after: names of sibling nodes this node is ORDERED after by a declared edge that carries no value
    (Graph(nodes, edges=[(a, b)]) -- the whole level is then built with a declared topology)."""
    return {"k": "fn", "name": name, "ins": list(ins), "outs": list(outs), "emit": list(emit), "wait": list(wait), "after": list(after)}


def gate(name, ins, targets, gk="ifelse", emit=()):
    return {"k": "gate", "name": name, "ins": list(ins), "gk": gk, "targets": list(targets), "emit": list(emit)}


def sub(name, nodes, rin=None, rout=None):
    return {"k": "graph", "name": name, "nodes": list(nodes), "rin": dict(rin or {}), "rout": dict(rout or {})}


def _uniq(seq):
    return list(dict.fromkeys(seq))


def all_outs(nodes):
    """Every name a level produces (data outputs and emitted signals), as seen from outside."""
    return _uniq(o for n in nodes for o in outs_of(n))


def free_ins(nodes):
    """Names a level consumes and does not produce itself: the inputs of the level."""
    produced = set(all_outs(nodes))
    return _uniq(x for n in nodes for x in ins_of(n) if x not in produced)


def ins_of(n):
    if n["k"] == "graph":
        return _uniq(n["rin"].get(x, x) for x in free_ins(n["nodes"]))
    return list(n["ins"])


def outs_of(n):
    if n["k"] == "fn":
        return list(n["outs"]) + list(n["emit"])
    if n["k"] == "gate":
        return list(n.get("emit", []))       # a gate's only outputs are the signals it emits
    return _uniq(n["rout"].get(o, o) for o in all_outs(n["nodes"]))


def leaf_producers(n, v, nid):
    """Leaf nodes inside (or equal to) n that produce the value n exposes as v:
    [(leaf id, crossed a renamed output?)]."""
    if n["k"] == "fn":
        return [(nid, 0)] if v in outs_of(n) else []
    if n["k"] == "gate":
        return [(nid, 0)] if v in outs_of(n) else []
    res = []
    for iv in all_outs(n["nodes"]):
        if n["rout"].get(iv, iv) == v:
            for m in n["nodes"]:
                res += [(leaf, max(ren, int(iv != v))) for leaf, ren in leaf_producers(m, iv, nid + "/" + m["name"])]
    return res


def leaf_consumers(n, v, nid):
    """Leaf nodes inside (or equal to) n that consume the value n receives as v:
    [(leaf id, crossed a renamed input?)]."""
    if n["k"] != "graph":
        return [(nid, 0)] if v in n["ins"] else []
    res = []
    for ix in free_ins(n["nodes"]):
        if n["rin"].get(ix, ix) == v:
            for m in n["nodes"]:
                res += [(leaf, max(ren, int(ix != v))) for leaf, ren in leaf_consumers(m, ix, nid + "/" + m["name"])]
    return res


def walk(nodes, parent=None):
    """(id, parent id, node) for every node of the program, parents first."""
    for n in nodes:
        nid = n["name"] if parent is None else parent + "/" + n["name"]
        yield nid, parent, n
        if n["k"] == "graph":
            yield from walk(n["nodes"], nid)


KIND = {"fn": "function", "gate": "gate", "graph": "graph"}


def declared(desc):
    """The DECLARED structure of a program: hierarchy + dependencies of the flattened program."""
    nodes = [{"id": nid, "parent": par or NONE, "kind": KIND[n["k"]], "ins": ins_of(n), "outs": outs_of(n)} for nid, par, n in walk(desc)]
    deps = []

    def level(ns, prefix):
        def nid(n):
            return prefix + n["name"]
        for pn in ns:
            for cn in ns:
                if pn is cn:
                    continue
                for v in outs_of(pn):
                    if v in ins_of(cn):
                        for p, rout in leaf_producers(pn, v, nid(pn)):
                            for c, rin in leaf_consumers(cn, v, nid(cn)):
                                deps.append({"p": p, "c": c, "kind": "data", "val": v, "grp": f"{prefix}|{v}",
                                             "src": nid(pn), "via": nid(cn), "rin": rin, "rout": rout})
                    if cn["k"] == "fn" and v in cn["wait"]:
                        for p, rout in leaf_producers(pn, v, nid(pn)):
                            deps.append({"p": p, "c": nid(cn), "kind": "ordering", "val": v, "grp": f"{prefix}|{v}",
                                         "src": nid(pn), "via": nid(cn), "rin": 0, "rout": rout})
        for cn in ns:
            for a in cn.get("after", []):
                deps.append({"p": prefix + a, "c": nid(cn), "kind": "ordering", "val": "", "grp": f"{prefix}|after:{a}>{cn['name']}",
                             "src": prefix + a, "via": nid(cn), "rin": 0, "rout": 0})
        for gn in ns:
            if gn["k"] == "gate":
                for t in _uniq(gn["targets"]):
                    if t != "END":
                        deps.append({"p": nid(gn), "c": prefix + t, "kind": "control", "val": "",
                                     "grp": f"{prefix}|ctl:{gn['name']}", "src": nid(gn), "via": prefix + t,
                                     "rin": 0, "rout": 0})
        for n in ns:
            if n["k"] == "graph":
                level(n["nodes"], nid(n) + "/")

    level(desc, "")
    ends = sorted(nid for nid, par, n in walk(desc) if n["k"] == "gate" and "END" in n["targets"])
    return {"nodes": nodes, "deps": deps, "ends": ends}


def containers(decl):
    return sorted(n["id"] for n in decl["nodes"] if n["kind"] == "graph")


def nesting_level(decl, nid):
    par = {n["id"]: n["parent"] for n in decl["nodes"]}
    k = 0
    while par[nid] != NONE:
        nid = par[nid]
        k += 1
    return k


def valid_states(decl):
    """All sets of expanded containers in which a container is expanded only if its parent is."""
    cs = containers(decl)
    par = {n["id"]: n["parent"] for n in decl["nodes"]}
    res = []
    for bits in itertools.product([False, True], repeat=len(cs)):
        s = {c for c, b in zip(cs, bits) if b}
        if all(par[c] == NONE or par[c] in s for c in s):
            res.append(sorted(s))
    return res


def state_key(decl, expanded, sep):
    """The documented key of a state (viz/AGENTS.md: "nodeId:0|sep:0", "sep:1" without containers)."""
    cs = containers(decl)
    k = ",".join(f"{c}:{int(c in expanded)}" for c in cs)
    return f"{k}|sep:{sep}" if k else f"sep:{sep}"


def depth_state(decl, depth):
    """Containers expanded by depth=d: those nested less than d levels deep."""
    return sorted(c for c in containers(decl) if depth > nesting_level(decl, c))


def max_nesting(desc):
    return max([0] + [1 + max_nesting(n["nodes"]) for n in desc if n["k"] == "graph"])


# ---------------------------------------------------------------------------------------------
# description -> real hypergraph objects (public constructors only)
# ---------------------------------------------------------------------------------------------


def _pyfunc(name, params, ret="None"):
    ns = {}
    exec(f"def {name}({', '.join(params)}):\n    return {ret}\n", ns)  # noqa: S102 - harness-owned body
    return ns[name]


def build(desc, name=None, bind=True):
    """bind: pre-fill (graph.bind) the first free input of about half of the graphs, at every level: a bound input is
    still an input of the diagram."""
    from hypergraph import END, Graph
    from hypergraph.nodes.function import FunctionNode
    from hypergraph.nodes.gate import IfElseNode, RouteNode

    objs = []
    for d in desc:
        if d["k"] == "fn":
            kw = {"name": d["name"]}
            if d["outs"]:
                kw["output_name"] = d["outs"][0] if len(d["outs"]) == 1 else tuple(d["outs"])
            if d["emit"]:
                kw["emit"] = tuple(d["emit"])
            if d["wait"]:
                kw["wait_for"] = tuple(d["wait"])
            objs.append(FunctionNode(_pyfunc("f_" + d["name"], d["ins"]), **kw))
        elif d["k"] == "gate":
            tg = [END if t == "END" else t for t in d["targets"]]
            em = {"emit": tuple(d["emit"])} if d.get("emit") else {}
            if d["gk"] == "ifelse":
                objs.append(IfElseNode(_pyfunc("g_" + d["name"], d["ins"], "True"), when_true=tg[0], when_false=tg[1], name=d["name"], **em))
            else:
                if zlib.crc32(("|".join(d["targets"]) + d["name"]).encode()) % 2 or (name is None and "END" in d["targets"]):
                    tg = {t: f"go to {t}" for t in tg}          # the documented dict form: {target: description}
                objs.append(RouteNode(_pyfunc("g_" + d["name"], d["ins"], "None"), targets=tg, name=d["name"], **em))
        else:
            gn = build(d["nodes"], name=d["name"], bind=bind).as_node()
            if d["rin"] or d["rout"]:
                # history: the wrapper is USED (put in a graph, flattened) before it is renamed
                Graph([gn]).to_flat_graph()
            if d["rin"]:
                gn = gn.with_inputs(**d["rin"])
            if d["rout"]:
                gn = gn.with_outputs(**d["rout"])
            objs.append(gn)
    if any(d.get("after") for d in desc):
        # declared topology: every name-matched data edge plus the value-less ordering edges
        edges = []
        for pn in desc:
            for cn in desc:
                if pn is not cn and set(outs_of(pn)) & set(ins_of(cn)) and (pn["name"], cn["name"]) not in edges:
                    edges.append((pn["name"], cn["name"]))
        for cn in desc:
            for a in cn.get("after", []):
                edges.append((a, cn["name"]))
        g = Graph(objs, edges=edges, name=name)
    else:
        g = Graph(objs, name=name)
    free = [p for p in g.inputs.all if p not in g.inputs.bound]
    if bind and free and zlib.crc32(("|".join(free) + str(name)).encode()) % 2:
        g = g.bind(**{free[0]: "bound-value"})
    return g


# ---------------------------------------------------------------------------------------------
# recording
# ---------------------------------------------------------------------------------------------

RF_TYPE = {"FUNCTION": "function", "PIPELINE": "container", "BRANCH": "branch", "DATA": "data",
           "INPUT": "input", "INPUT_GROUP": "input", "END": "end"}
FLAT_KIND = {"FUNCTION": "function", "GRAPH": "graph", "BRANCH": "gate"}


def _rf_nodes(nodes):
    out = []
    for n in nodes:
        data = n.get("data", {})
        out.append({"id": n["id"], "ty": RF_TYPE.get(data.get("nodeType"), "other:" + str(data.get("nodeType"))),
                    "parent": n.get("parentNode") or NONE, "hidden": 1 if n.get("hidden") else 0,
                    "exp": 1 if data.get("isExpanded") else 0})
    return out


def _rf_edges(edges):
    return [[e["source"], e["target"]] for e in edges]


def parse_key(key):
    """State key -> (expanded container ids, sep)."""
    state, _, sep = key.rpartition("sep:")
    state = state.rstrip("|")
    expanded = []
    for part in state.split(",") if state else []:
        nid, _, bit = part.rpartition(":")
        if bit == "1":
            expanded.append(nid)
    return sorted(expanded), int(sep)


class MermaidFormatError(RuntimeError):
    pass


_M_NODE = re.compile(r'^(\w+)(\(\[|\[\[|\[/|\{\{|\[)"(.*)"(\]\)|\]\]|/\]|\}\}|\])$')
_M_EDGE = re.compile(r"^(\w+) (-->|-\.->)(\|[^|]*\|)? (\w+)$")
_M_SUB = re.compile(r'^subgraph (\w+) \["(.*)"\]$')
_M_TYPE = {"([": "input", "[[": "container", "[/": "data", "{{": "branch", "[": "function"}


def sanitized(nid):
    """How the Mermaid exporter writes a node id (documented: '/' becomes '__')."""
    return nid.replace("/", "__")


def parse_mermaid(source, decl):
    """Mermaid source -> (nodes, edges) in Viz.tla's vocabulary.  Ids are mapped back to the
    declared ids; a function/container id that maps to nothing is kept with type 'unknown'."""
    back = {sanitized(n["id"]): n["id"] for n in decl["nodes"]}
    nodes, edges, stack = [], [], []
    for raw in source.split("\n"):
        line = raw.strip()
        if line.startswith("%% Styling"):
            break
        if not line or line.startswith("%%") or line.startswith("flowchart "):
            continue
        m = _M_SUB.match(line)
        if m:
            sid = m.group(1)
            nodes.append({"id": back.get(sid, sid), "ty": "container" if sid in back else "unknown",
                          "parent": stack[-1] if stack else NONE, "hidden": 0, "exp": 1})
            stack.append(back.get(sid, sid))
            continue
        if line == "end":
            if not stack:
                raise MermaidFormatError("unbalanced 'end'")
            stack.pop()
            continue
        m = _M_EDGE.match(line)
        if m:
            edges.append([back.get(m.group(1), m.group(1)), back.get(m.group(4), m.group(4))])
            continue
        m = _M_NODE.match(line)
        if m:
            sid, ty = m.group(1), _M_TYPE[m.group(2)]
            if ty == "input" and sid == "__end__":
                ty = "end"
            if ty in ("function", "container", "branch") and sid not in back:
                ty = "unknown"
            nodes.append({"id": back.get(sid, sid) if ty in ("function", "container", "branch") else sid, "ty": ty,
                          "parent": stack[-1] if stack else NONE, "hidden": 0, "exp": 0})
            continue
        raise MermaidFormatError(f"unrecognised Mermaid line: {raw!r}")
    if stack:
        raise MermaidFormatError("unterminated subgraph")
    # edge endpoints that are data/input ids stay sanitized on both sides; declared ids were mapped back
    return nodes, edges


def record(desc, gid, depths=(0, 1, 2, 3)):
    """Build the program with hypergraph, record everything the C20 oracle looks at.
    Raises whatever Graph(...) raises for a description it rejects."""
    from hypergraph.viz.renderer import render_graph

    decl = declared(desc)
    graph = build(desc)
    fg = graph.to_flat_graph()
    flat = [{"id": n, "parent": a.get("parent") or NONE, "kind": FLAT_KIND.get(a.get("node_type"), str(a.get("node_type")))}
            for n, a in fg.nodes(data=True)]

    rends = []
    meta = render_graph(graph.to_flat_graph(), depth=0)["meta"]
    nbs, ebs = meta["nodesByState"], meta["edgesByState"]
    for key in sorted(set(nbs) & set(ebs)):
        expanded, sep = parse_key(key)
        rends.append({"src": "rf", "key": key, "depth": -1, "sep": sep, "expanded": expanded,
                      "nodes": _rf_nodes(nbs[key]), "edges": _rf_edges(ebs[key])})
    for d in depths:
        for sep in (0, 1):
            r = render_graph(graph.to_flat_graph(), depth=d, separate_outputs=bool(sep))
            rends.append({"src": "rf0", "key": f"depth={d},sep={sep}", "depth": d, "sep": sep,
                          "expanded": depth_state(decl, d), "nodes": _rf_nodes(r["nodes"]), "edges": _rf_edges(r["edges"])})
            src = graph.to_mermaid(depth=d, separate_outputs=bool(sep)).source
            mn, me = parse_mermaid(src, decl)
            rends.append({"src": "mm", "key": f"depth={d},sep={sep}", "depth": d, "sep": sep,
                          "expanded": depth_state(decl, d), "nodes": mn, "edges": me})
    expected = [state_key(decl, set(s), sep) for s in valid_states(decl) for sep in (0, 1)]
    return {"id": gid, "desc": desc, "decl": decl, "flat": flat,
            "keys": {"nodes": sorted(nbs), "edges": sorted(ebs), "expected": sorted(expected)},
            "rends": rends}


def tlc_item(rec):
    """What TLC reads (the description itself is not needed there)."""
    return {k: rec[k] for k in ("id", "decl", "flat", "keys", "rends")}


# ---------------------------------------------------------------------------------------------
# program families
# ---------------------------------------------------------------------------------------------

VALUES = list("abcdefghijklmnopqrtuvw")     # single letters: no name is a substring of another
SIGNALS = list("STUV")
EXTERNALS = ["x", "y", "z"]


def family_consumers():
    """An outer value consumed by k = 1..3 nodes placed at every combination of depths 1..d of a
    chain of d = 1..3 nested containers (the shape of finding 7), an inner result consumed outside."""
    names = ["A", "B", "C"]
    for d in (1, 2, 3):
        for k in (1, 2, 3):
            for places in itertools.combinations_with_replacement(range(1, d + 1), k):
                per = {lvl: [] for lvl in range(1, d + 1)}
                outs = []
                for i, lvl in enumerate(places):
                    o = VALUES[1 + i]
                    per[lvl].append(fn(f"c{i + 1}", ["a"] + (["x"] if i == 1 else []), [o]))
                    outs.append(o)
                if any(not per[lvl] for lvl in range(1, d + 1)):
                    # an empty level would make an empty graph: give it a private node
                    for lvl in range(1, d + 1):
                        if not per[lvl]:
                            per[lvl].append(fn(f"k{lvl}", ["y"], [VALUES[10 + lvl]]))
                nodes = per[d]
                for lvl in range(d - 1, 0, -1):
                    nodes = per[lvl] + [sub(names[lvl], nodes)]
                top = sub(names[0], nodes)
                yield [fn("p", ["x"], ["a"]), top, fn("q", [outs[-1]], ["r"])], f"consumers/d{d}/k{k}/{places}"


def family_producers():
    """Mutually exclusive producers of one exposed output, flat and inside 1..2 containers."""
    core = [gate("g", ["x"], ["b1", "b2"]), fn("b1", ["x"], ["r"]), fn("b2", ["y"], ["r"])]
    yield core + [fn("q", ["r"], ["t"])], "producers/flat"
    yield [sub("A", core), fn("q", ["r"], ["t"])], "producers/d1"
    yield [sub("A", [sub("B", core), fn("m", ["r"], ["u"])]), fn("q", ["r", "u"], ["t"])], "producers/d2"
    core3 = [gate("g", ["x"], ["b1", "b2", "END"], gk="route"), fn("b1", ["x"], ["r"]), fn("b2", ["y"], ["r"])]
    yield [sub("A", core3), fn("q", ["r"], ["t"])], "producers/route-end"


def family_control():
    """Gates whose targets are functions, containers, nested containers, END."""
    inner = [fn("h1", ["x"], ["a"]), fn("h2", ["a"], ["b"])]
    yield [gate("g", ["x"], ["A", "k"]), sub("A", inner), fn("k", ["y"], ["c"])], "control/container-target"
    yield [gate("g", ["x"], ["A", "END"]), sub("A", [sub("B", inner), fn("h3", ["b"], ["d"])])], "control/nested-target"
    yield [sub("A", [gate("g", ["x"], ["B", "k"]), sub("B", inner), fn("k", ["y"], ["c"])]), fn("q", ["b"], ["t"])], "control/inside"
    yield [fn("p", ["x"], ["v"]), gate("g", ["v"], ["k1", "k2", "k3"], gk="route"),
           fn("k1", ["v"], ["a"]), fn("k2", ["y"], ["b"]), sub("k3", [fn("h", ["v", "y"], ["c"])])], "control/route3"


def family_ordering():
    """emit / wait_for pairs: same level, emitter inside 1..3 containers with the waiter outside."""
    yield [fn("e", ["x"], ["a"], emit=["S"]), fn("w", ["y"], ["b"], wait=["S"])], "ordering/flat"
    yield [fn("e", ["x"], ["a"], emit=["S"]), fn("w", ["a"], ["b"], wait=["S"])], "ordering/with-data"
    for d in (1, 2, 3):
        nodes = [fn("e", ["x"], ["a"], emit=["S"])]
        for name in ["C", "B", "A"][3 - d:]:
            nodes = [sub(name, nodes)]
        yield nodes + [fn("w", ["y"], ["b"], wait=["S"]), fn("w2", ["a"], ["c"], wait=["S"])], f"ordering/emitter-d{d}"
    yield [sub("A", [fn("e", ["x"], ["a"], emit=["S"]), fn("w", ["y"], ["b"], wait=["S"])]), fn("q", ["b"], ["c"])], "ordering/inside"


def family_inputs():
    """One external input consumed at several depths, grouped inputs, inputs owned by a container."""
    yield [fn("p", ["x"], ["a"]), sub("A", [fn("h", ["x", "a"], ["b"]), sub("B", [fn("i", ["x", "y"], ["c"]),
           sub("C", [fn("j", ["x", "z", "c"], ["d"])])])])], "inputs/shared-d3"
    yield [sub("A", [fn("h", ["x", "y"], ["a"])]), fn("q", ["a"], ["b"])], "inputs/owned-group"
    yield [sub("A", [fn("h", ["x"], ["a"])]), sub("B", [fn("i", ["x", "a"], ["b"])])], "inputs/two-containers"
    yield [fn("p", ["x", "y"], ["a"])], "inputs/flat-single"
    yield [fn("p", ["x"], ["a"]), fn("q", ["a", "x"], ["b"]), fn("r", ["a", "b"], [])], "inputs/flat-chain"


def family_renames():
    """Wrapper inputs / outputs renamed at the boundary."""
    inner = [fn("h1", ["a"], ["b"]), fn("h2", ["a", "b"], ["c"])]
    yield [fn("p", ["x"], ["v"]), sub("A", inner, rin={"a": "v"}), fn("q", ["c"], ["t"])], "renames/input"
    yield [fn("p", ["x"], ["a"]), sub("A", inner, rout={"c": "u"}), fn("q", ["u"], ["t"])], "renames/output"
    yield [fn("p", ["x"], ["v"]), sub("A", [fn("h0", ["y"], ["d"]), fn("h1", ["a", "d"], ["b"])], rin={"a": "v"}),
           fn("q", ["b"], ["t"])], "renames/input-not-entrypoint"
    yield [fn("p", ["x"], ["v"]), sub("A", [sub("B", inner, rin={"a": "w"}, rout={"c": "u"})], rin={"w": "v"}, rout={"u": "o"}),
           fn("q", ["o"], ["t"])], "renames/nested-both"
    yield [fn("p", ["x"], ["q"]), sub("B", [sub("D", [fn("f", ["q"], ["m"])], rin={"q": "x"}), fn("h", ["q"], ["n"])])], "renames/same-name-in-renamed-scope"


def family_names():
    """Names that contain one another: a container and a sibling whose name merely STARTS with the
    container's name (hierarchical ids are "A/h": "Ab" is not inside "A"), both consuming one value."""
    yield [fn("p", ["x"], ["a"]), sub("A", [fn("h", ["a"], ["b"])]), fn("Ab", ["a"], ["c"])], "names/prefix-sibling-fn"
    yield [fn("p", ["x"], ["a"]), fn("A_s", ["a"], ["c"]), sub("A", [fn("h", ["a", "y"], ["b"])]), fn("q", ["b", "c"], ["t"])], "names/prefix-sibling-first"
    yield [fn("p", ["x"], ["a"]), sub("g1", [fn("h", ["a"], ["b"])]), sub("g10", [fn("i", ["a"], ["c"])])], "names/prefix-sibling-container"
    yield [fn("p", ["x"], ["a"]), sub("A", [sub("B", [fn("h", ["a"], ["b"])]), fn("Bx", ["a", "b"], ["c"])]), fn("q", ["c"], ["t"])], "names/prefix-nested"
    yield [sub("A", [fn("h", ["x"], ["a"])]), fn("A2", ["x", "a"], ["c"])], "names/prefix-input"


def family_siblings():
    """A nested graph feeding a SIBLING nested graph (no leaf function at the outer level reads the
    value), with and without a renamed wrapper input / output."""
    yield [sub("A", [fn("h", ["x"], ["a"])]), sub("B", [fn("i", ["w"], ["b"])], rin={"w": "a"})], "siblings/renamed-input"
    yield [sub("A", [fn("h", ["x"], ["a"])], rout={"a": "v"}), sub("B", [fn("i", ["v"], ["b"])])], "siblings/renamed-output"
    yield [sub("A", [fn("h", ["x"], ["a"])]), sub("B", [fn("i", ["w", "y"], ["b"]), fn("j", ["b", "w"], ["c"])], rin={"w": "a"}),
           fn("q", ["c"], ["t"])], "siblings/renamed-input-two-consumers"
    yield [sub("A", [fn("h", ["x"], ["a", "a2"])]), sub("B", [fn("i", ["a"], ["b"])]), sub("C", [fn("j", ["w"], ["c"])], rin={"w": "a2"})], "siblings/fan-out"
    # the SAME sub-graph used twice (the first copy's outputs renamed, feeding the second); one output name is a substring
    # of the other and the longer one is produced by the node listed first
    step = lambda: [fn("score", ["text"], ["doc_score"]), fn("clean", ["text"], ["doc"])]  # noqa: E731
    yield [sub("first", step(), rout={"doc": "doc1", "doc_score": "score1"}), sub("second", step(), rin={"text": "doc1"}),
           fn("report", ["doc", "doc_score"], ["rep"])], "siblings/reused-subgraph-substring-outputs"


def family_gate_signals():
    """Gates that EMIT an ordering signal (their only kind of output), at root and inside a container; and sibling
    containers declared in non-alphabetical order."""
    yield [gate("g", ["x"], ["a", "b"], emit=["S"]), fn("a", ["x"], ["p"]), fn("b", ["x"], ["q"]), fn("w", ["y"], ["r"], wait=["S"])], "gate-signal/flat"
    yield [sub("A", [gate("g", ["x"], ["a", "END"], gk="route", emit=["S"]), fn("a", ["x"], ["p"]), fn("w", ["y"], ["r"], wait=["S"])]),
           fn("q", ["p", "r"], ["t"])], "gate-signal/nested"
    yield [sub("Z", [fn("h", ["x"], ["a"])]), sub("A", [fn("i", ["a", "y"], ["b"])]), fn("q", ["b"], ["t"])], "order/containers-not-alphabetical"
    yield [sub("M", [sub("Z", [fn("h", ["x"], ["a"])]), sub("B", [fn("i", ["a"], ["b"])])]), fn("q", ["b"], ["t"])], "order/nested-containers-not-alphabetical"


def family_declared():
    """Declared topologies with value-less ordering edges (explicit edges=[(a, b)]), flat and inside a container."""
    yield [fn("a", ["x"], ["p"]), fn("b", ["y"], ["q"], after=["a"]), fn("c", ["p", "q"], ["r"])], "declared/ordering-flat"
    yield [fn("a", ["x"], ["p"]), fn("b", ["y"], ["q"], after=["a"])], "declared/ordering-only"
    yield [sub("A", [fn("a", ["x"], ["p"]), fn("b", ["y"], ["q"], after=["a"])]), fn("c", ["p", "q"], ["r"])], "declared/ordering-nested"
    yield [fn("s", ["x"], ["v"]), sub("A", [fn("a", ["v"], ["p"]), fn("b", ["v"], ["q"], after=["a"]), fn("d", ["p", "q"], ["t"])])], "declared/ordering-nested-with-data"


FAMILIES = [family_consumers, family_producers, family_control, family_ordering, family_inputs, family_renames, family_names, family_siblings, family_declared, family_gate_signals]


class RandomPrograms:
    """Seeded random programs: nesting 0..3, gates (function / container / END targets, mutually
    exclusive producers), emit/wait_for pairs across container boundaries, shared inputs, optional
    boundary renames.  Acyclic by construction: a node only consumes names produced before it."""

    def __init__(self, rng, renames=0.0, max_nodes=11):
        self.rng = rng
        self.renames = renames
        self.max_nodes = max_nodes

    def program(self, depth):
        self.sigs = iter(SIGNALS[:])
        self.count = 0
        pool = VALUES[:]
        self.rng.shuffle(pool)
        self.vals = iter(pool)
        return self.level(depth, list(EXTERNALS[: self.rng.randint(1, 3)]), [], top=True)

    def fresh(self):
        return next(self.vals)

    def pick_ins(self, data, ext, lo=1, hi=2):
        k = self.rng.randint(lo, hi)
        ins = []
        for _ in range(k):
            src = data if (data and self.rng.random() < 0.7) else ext
            if src:
                ins.append(self.rng.choice(src))
        return _uniq(ins) or [self.rng.choice(ext)]

    def fn_node(self, name, data, ext, sigs, outs=None):
        r = self.rng
        self.count += 1
        if outs is None:
            u = r.random()
            outs = [] if u < 0.08 else [self.fresh()] if u < 0.9 else [self.fresh(), self.fresh()]
        emit, wait = [], []
        if r.random() < 0.15:
            s = next(self.sigs, None)
            if s:
                emit = [s]
        if sigs and r.random() < 0.45:
            wait = [r.choice(sigs)]
        return fn(name, self.pick_ins(data, ext), outs, emit, wait)

    def graph_node(self, name, depth, data, ext, force_out=None):
        """A nested graph that may consume every name visible so far."""
        inner = self.level(depth - 1, _uniq(ext + data), [], top=False, force_out=force_out)
        node = sub(name, inner)
        if self.rng.random() < self.renames:
            fi = [x for x in free_ins(inner)]
            cands = [v for v in _uniq(ext + data) if v not in fi]
            if fi and cands:
                node["rin"] = {self.rng.choice(fi): self.rng.choice(cands)}
        if self.rng.random() < self.renames:
            outs = [o for o in all_outs(inner) if o not in SIGNALS and o != force_out]
            if outs:
                node["rout"] = {self.rng.choice(outs): self.fresh()}
        return node

    def level(self, depth, ext, data, top, force_out=None):
        r = self.rng
        nodes, data, sigs = [], list(data), []
        names = iter(["f", "h", "k", "m", "n", "u", "v", "w"])
        cnames = iter(["A", "B", "C"] if top else ["D", "E", "F"])
        gnames = iter(["g", "gg"])
        want = r.randint(1, 3) + (1 if top else 0)

        def expose(n):
            for o in outs_of(n):
                (sigs if o in SIGNALS else data).append(o)

        while len(nodes) < want and self.count < self.max_nodes:
            u = r.random()
            if depth > 0 and u < 0.35:
                n = self.graph_node(next(cnames, None) or next(names), depth, data, ext)
                nodes.append(n)
                self.count += 1
                expose(n)
            elif u < 0.55 and (gn := next(gnames, None)):
                # a gate and its branches; the branches may produce the same output
                k = 3 if r.random() < 0.25 else 2
                mutex = self.fresh() if r.random() < 0.5 else None
                branches = []
                for _ in range(k):
                    if r.random() < 0.2:
                        branches.append(None)            # END
                    elif depth > 0 and r.random() < 0.3:
                        branches.append(self.graph_node(next(cnames, None) or next(names), depth, data, ext, force_out=mutex))
                        self.count += 1
                    else:
                        branches.append(self.fn_node(next(names), data, ext, sigs, outs=[mutex] if mutex else None))
                real = [b for b in branches if b is not None]
                if not real:
                    continue
                targets = _uniq(b["name"] if b else "END" for b in branches)
                if len(targets) < 2:
                    targets.append("END")
                self.count += 1
                nodes.append(gate(gn, self.pick_ins(data, ext), targets, gk="ifelse" if len(targets) == 2 else "route"))
                nodes += real
                for b in real:
                    expose(b)
                data[:] = _uniq(data)
            else:
                n = self.fn_node(next(names), data, ext, sigs)
                nodes.append(n)
                expose(n)
        if not nodes:
            nodes.append(self.fn_node("f", data, ext, sigs))
        if force_out is not None:
            # the level must produce force_out exactly once: its last function node does
            last = [n for n in nodes if n["k"] == "fn" and n["outs"]]
            if last and force_out not in all_outs(nodes):
                last[-1]["outs"][0] = force_out
            elif force_out not in all_outs(nodes):
                nodes.append(fn("z", self.pick_ins(data, ext), [force_out]))
        return nodes
