"""Event recording through the public EventProcessor API and validation of recorded streams
against SpanTree.tla (trace validation, batched: one TLC start per batch of streams)."""
from __future__ import annotations

import asyncio
import re

from hypergraph.events.processor import AsyncEventProcessor, EventProcessor

from . import tlc
from . import ir as IR


def _rec(e):
    t = type(e).__name__.replace("Event", "")
    st = getattr(e, "status", None)
    return {"t": t, "span": e.span_id, "parent": e.parent_span_id or IR.NONE,
            "node": getattr(e, "node_name", "") or "", "graph": getattr(e, "graph_name", "") or "",
            "status": getattr(st, "value", st) if st is not None else IR.NONE,
            "ismap": bool(getattr(e, "is_map", False))}


SHUTDOWN = {"t": "Shutdown", "span": IR.NONE, "parent": IR.NONE, "node": "", "graph": "", "status": IR.NONE, "ismap": False}


class Recorder(EventProcessor):
    def __init__(self):
        self.events = []

    def on_event(self, e):
        self.events.append(_rec(e))

    def shutdown(self):
        self.events.append(dict(SHUTDOWN))


class AsyncRecorder(AsyncEventProcessor):
    """Suspends on every event, so that other tasks interleave at every emission point."""

    def __init__(self, yields=1):
        self.events = []
        self.yields = yields

    def on_event(self, e):
        self.events.append(_rec(e))

    async def on_event_async(self, e):
        for _ in range(self.yields):
            await asyncio.sleep(0)
        self.events.append(_rec(e))

    def shutdown(self):
        self.events.append(dict(SHUTDOWN))

    async def shutdown_async(self):
        await asyncio.sleep(0)
        self.events.append(dict(SHUTDOWN))


def graph_node_names(prog):
    """<<node name, name of the graph it wraps, "1" if the node maps over its inputs else "0">> for every nested-graph node."""
    return sorted({(n["name"], n["sub"]["name"], "1" if n.get("map_over") else "0") for _, n in IR.all_nodes(prog) if n["kind"] == "graph"})


def validate_streams(traces, workers=4, procs=None, timeout=900):
    """traces: [{id, status, events, graphnodes}] -> {id: {'reached', 'total', 'accepted', 'next'}}"""
    if not traces:
        return {}, {"states": 0, "transitions": 0}
    import concurrent.futures as cf
    import json
    import os
    import shutil
    procs = procs or max(1, min(4, len(traces) // 50 + 1))
    shards = [traces[i::procs] for i in range(procs)]
    tmp = tlc.scratch_dir("events-")
    try:
        def one(k):
            p = os.path.join(tmp, f"ev{k}.json")
            with open(p, "w") as f:
                json.dump(shards[k], f)
            return tlc.run_tlc("SpanTree", cfg="SpanTree.cfg", env={"HG_EVENTS": p}, workers=workers, timeout=timeout, check=False)
        with cf.ThreadPoolExecutor(procs) as ex:
            rs = list(ex.map(one, range(procs)))
    finally:
        shutil.rmtree(tmp, ignore_errors=True)
    best = {}
    pat = re.compile(r'<<"AT", (\d+), (\d+), (TRUE|FALSE)>>')
    for r in rs:
        if not r.ok:
            raise tlc.TLCError("SpanTree failed:\n" + r.out[-3000:])
        for m in pat.finditer(r.out):
            i, l, ok = int(m.group(1)), int(m.group(2)), m.group(3) == "TRUE"
            cur = best.get(i, (0, False))
            if l > cur[0] or (l == cur[0] and ok):
                best[i] = (l, ok)
    out = {}
    for t in traces:
        l, ok = best.get(t["id"], (1, False))
        n = len(t["events"])
        out[t["id"]] = {"reached": l - 1, "total": n, "accepted": ok and l == n + 1,
                        "next": t["events"][l - 1] if l - 1 < n else None}
    stats = {"states": sum(r.distinct for r in rs), "transitions": sum(r.generated for r in rs)}
    return out, stats
