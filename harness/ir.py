"""Program IR shared by the TLA+ specifications (read through Json/IOUtils) and the
Python builder (harness/build.py).

A *program* is a JSON object:

  name      graph name
  nodes     ordered list of node records (below)
  bound     [[name, value], ...]     graph.bind() at this level
  selected  ["~unset"] | [names]      graph.select()
  entry     [node names]              graph.with_entrypoint(); [] = none
  max_iter  int                       max_iterations used for a run of this graph

A *node* record always carries every field (TLC records are strict):

  name, kind in func|route|ifelse|interrupt|graph
  inputs    current input names, in signature order (parameters with defaults last)
  pmap      [[current input name, original parameter name], ...]
  outputs   data outputs followed by emit outputs;   ndata = number of data outputs
  wait_for  ordering-only inputs
  defaults  current input names that carry a signature default ("dflt.<orig param>")
  targets, default_open, multi, fallback   gates ("END" is the END sentinel, "~none" = no fallback)
  script    gate: list of raw decisions (each a list of strings), indexed by invocation, last repeats
  fail_at   invocation indices (1-based, per node path, per top-level call) at which the body raises
  pause_at  interrupt: invocation indices at which the handler returns None
  fn        term | id | const         what the body returns
  cache, is_async
  graph nodes: inmap [[wrapper input, inner name]], outmap [[inner name, wrapper output]], sub (program),
               map_over (wrapper input names), map_mode, map_eh, clone
"""
from __future__ import annotations

import copy
import hashlib
import json

NONE = "~none"
SENT = "~sentinel"
UNSET = ["~unset"]

_STUB_PROG = {"name": "_", "nodes": [], "bound": [], "selected": UNSET, "entry": [], "max_iter": 1}


def prog(name, nodes, bound=None, selected=None, entry=None, max_iter=20):
    return {
        "name": name,
        "nodes": [normalize_node(n) for n in nodes],
        "bound": [list(b) for b in (bound or [])],
        "selected": list(selected) if selected is not None else list(UNSET),
        "entry": list(entry or []),
        "max_iter": max_iter,
    }


def normalize_node(n):
    n = dict(n)
    n.setdefault("kind", "func")
    n.setdefault("inputs", [])
    n.setdefault("pmap", [[p, p] for p in n["inputs"]])
    n.setdefault("outputs", [])
    n.setdefault("ndata", len(n["outputs"]) if n["kind"] in ("func", "interrupt", "graph") else 0)
    n.setdefault("olabels", list(n["outputs"]))   # labels used inside returned values: survive output renames
    n.setdefault("wait_for", [])
    n.setdefault("defaults", [])
    n.setdefault("targets", [])
    n.setdefault("default_open", True)
    n.setdefault("multi", False)
    n.setdefault("fallback", NONE)
    n.setdefault("script", [[NONE]])
    n.setdefault("fail_at", [])
    n.setdefault("fail_args", [])
    n.setdefault("dec_args", [])
    n.setdefault("pure", False)
    n.setdefault("mayfail", False)        # HGSteps: TLC may inject a failure at any invocation of this node
    n.setdefault("pause_at", [])
    n.setdefault("dvals", [])             # [[original parameter, text]]: literal of a signature default (default "dflt.<param>")
    n.setdefault("answers", [])           # interrupt: texts of the answers per data output (default ans.<node>.<output>)
    n.setdefault("fn", "term")
    n.setdefault("cache", False)
    n.setdefault("tname", n["name"])      # the name the wrapped function knows itself by (appears in returned values)
    n.setdefault("fid", n["name"])        # identity of the wrapped function (nodes may share one function object)
    n.setdefault("is_async", False)
    n.setdefault("inmap", [])
    n.setdefault("outmap", [])
    n.setdefault("sub", copy.deepcopy(_STUB_PROG))
    n.setdefault("map_over", [])
    n.setdefault("map_mode", "zip")
    n.setdefault("map_eh", "raise")
    n.setdefault("clone", [NONE])
    return n


def func(name, inputs, outputs, defaults=(), **kw):
    ins = [p for p in inputs if p not in defaults] + [p for p in inputs if p in defaults]
    return normalize_node(dict(name=name, kind="func", inputs=ins, outputs=list(outputs), defaults=[p for p in ins if p in defaults], **kw))


def route(name, inputs, targets, script, **kw):
    return normalize_node(dict(name=name, kind="route", inputs=list(inputs), targets=list(targets), script=[list(s) for s in script], **kw))


def ifelse(name, inputs, when_true, when_false, script, **kw):
    return normalize_node(dict(name=name, kind="ifelse", inputs=list(inputs), targets=[when_true, when_false], script=[list(s) for s in script], **kw))


def interrupt(name, inputs, outputs, **kw):
    return normalize_node(dict(name=name, kind="interrupt", inputs=list(inputs), outputs=list(outputs), **kw))


def graph_node(sub, name=None, inmap=None, outmap=None, inputs=None, outputs=None, **kw):
    """Wrap program `sub`.  inputs/outputs default to the identity interface that
    build.py verifies against the real GraphNode (inputs = inner graph.inputs.all)."""
    n = dict(name=name or sub["name"], kind="graph", sub=sub, **kw)
    if inputs is not None:
        n["inputs"] = list(inputs)
        n["inmap"] = [list(x) for x in (inmap or [[p, p] for p in inputs])]
        n["pmap"] = [[a, b] for a, b in n["inmap"]]
    if outputs is not None:
        n["outputs"] = list(outputs)
        n["outmap"] = [list(x) for x in (outmap or [[o, o] for o in outputs])]
        n["ndata"] = len(outputs)
    return normalize_node(n)


def all_nodes(p, prefix=""):
    """Yield (path, node) for every node of the program, depth first."""
    for n in p["nodes"]:
        path = f"{prefix}/{n['name']}" if prefix else n["name"]
        yield path, n
        if n["kind"] == "graph":
            yield from all_nodes(n["sub"], path)


def struct_hash(obj) -> str:
    return hashlib.sha256(json.dumps(obj, sort_keys=True).encode()).hexdigest()[:16]


def canon(v):
    """Canonical text of a Python value (mirrors HGBase!ListText)."""
    if isinstance(v, str):
        return "~s1" if v == "1" else v      # the STRING "1" (the text "1" stands for the integer, see SPECIAL)
    if v is None:
        return NONE
    if isinstance(v, Arr):
        return "~arr"
    if isinstance(v, Opaque):
        return "~obj"
    if isinstance(v, dict) and v == {"decision": "x"}:
        return "~dict"
    if isinstance(v, tuple) and v in (("t1",), (), ("t1", "t2")):
        return {1: "~tup1", 0: "~tup0", 2: "~tup2"}[len(v)]       # tuple-valued values keep their shape (see pyval)
    if isinstance(v, list) and any(x is v for x in v):
        return "~cyc"                      # a self-referential list (see pyval)
    if isinstance(v, (list, tuple)):
        return "[" + ";".join(canon(x) for x in v) + "]"
    return repr(v)


# texts that stand for FALSY python values when used as the answer of an interrupt
FALSY = {"": "", "[]": [], "0": 0, "False": False}
# texts that stand for python values other than strings wherever the harness hands values to the library
# (bound values, provided values, interrupt answers); canon() maps the python values back to these texts
SPECIAL = dict(FALSY)
SPECIAL["~none"] = None
SPECIAL.update({"1": 1, "1.0": 1.0, "True": True, "0.0": 0.0})     # == -equal values that are not the same value


def answer_text(nd, j):
    return nd["answers"][j] if nd.get("answers") else f"ans.{nd['name']}.{nd['outputs'][j]}"


class Arr:
    """A numpy-like value: comparing two of them has no truth value (== / != raise), like an array."""

    def __eq__(self, other):
        raise ValueError("The truth value of an array with more than one element is ambiguous")

    def __ne__(self, other):
        raise ValueError("The truth value of an array with more than one element is ambiguous")

    __hash__ = object.__hash__


class Opaque:
    """A plain object that compares by IDENTITY only (no __eq__), like most user-defined classes."""


OBJ = Opaque()      # THE default object several signatures share (`def f(p=OBJ)`, `def g(p=OBJ)`)


def pyval(text):
    if text == "~arr":
        return Arr()
    if text == "~s1":
        return "1"
    if text == "~obj":
        return OBJ
    if text in ("~tup0", "~tup1", "~tup2"):      # a value that IS a tuple (of length 0, 1, 2): single-output nodes return it as it is
        return {"~tup0": (), "~tup1": ("t1",), "~tup2": ("t1", "t2")}[text]
    if text == "~dict":                    # a dict-valued value (an interrupt's answer may well be a dict)
        return {"decision": "x"}
    if text == "~cyc":                     # a value with a reference cycle: a list that contains itself
        cyc = []
        cyc.append(cyc)
        return cyc
    v = SPECIAL.get(text, text) if isinstance(text, str) else text
    return list(v) if isinstance(v, list) else v


def assign_fids(p, prefix=""):
    """Function identity of nodes that do not share a function = their path (in place)."""
    for n in p["nodes"]:
        path = f"{prefix}/{n['name']}" if prefix else n["name"]
        if n["fid"] == n["name"]:
            n["fid"] = "path:" + path
        if n["kind"] == "graph":
            assign_fids(n["sub"], path)
    return p
