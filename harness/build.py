"""IR -> real hypergraph objects, with harness-owned node bodies that log every invocation.

Only the documented public API of hypergraph is used (DESIGN.md 2.6)."""
from __future__ import annotations

import asyncio
import logging
import warnings

import zlib

from hypergraph import END, AsyncRunner, Graph, SyncRunner
from hypergraph import ifelse as hg_ifelse
from hypergraph import interrupt as hg_interrupt
from hypergraph import node as hg_node
from hypergraph import route as hg_route
from hypergraph.nodes.function import FunctionNode
from hypergraph.nodes.gate import IfElseNode, RouteNode
from hypergraph.nodes.interrupt import InterruptNode

from . import ir as IR


class InterfaceMismatch(Exception):
    """The IR's idea of a nested graph's interface differs from the real GraphNode's (harness or code defect)."""


class Boom(Exception):
    """The exception raised by a scripted failing body."""


class FalsyBoom(Boom):
    """A legal exception object that happens to be falsy (it has a length, like an exception carrying a collection)."""

    def __len__(self):
        return 0


class FrozenBoom(Boom):
    """A legal exception object that refuses attribute assignment (like a @dataclass(frozen=True) exception):
    the interpreter itself sets __traceback__ / __context__ through the C API, never through __setattr__."""

    def __setattr__(self, name, value):
        raise AttributeError(f"cannot assign to field {name!r}")


class TypeBoom(Boom, TypeError):
    """A TypeError raised INSIDE a node body whose message talks about arguments (a helper called with the wrong arity)."""


def _lib_boom(text):
    """A node body may itself raise one of the LIBRARY's exception types (it builds a graph, runs a sub-graph, ...):
    that is still the node's own exception."""
    from hypergraph.graph.validation import GraphConfigError
    return GraphConfigError(text)


class Runtime:
    """Shared by all bodies of one built program: call log, invocation counters,
    scripted decisions / failures, optional controller for async bodies."""

    def __init__(self, program):
        self.program = program
        self.nodes = dict(IR.all_nodes(program))
        self.reset()
        self.shared_funcs = {}
        self.controller = None  # set by harness/drive.py for controlled schedules
        self.mutate_defaults = False
        self.silent_failures = True

    def __repr__(self):
        return "<Runtime>"          # stable: the library may hash the repr of what a node function captures

    def reset(self):
        self.log = []          # dicts: path, idx, args [[param, text]], objs {param: id}
        self.counters = {}
        self.raised = []       # (path, idx, exception object)
        self.ends = []         # paths in completion order
        self.bad_decisions = []  # paths of gates whose returned decision the framework must reject

    # -- common prologue of every body
    def _enter(self, path, args):
        idx = self.counters.get(path, 0) + 1
        self.counters[path] = idx
        rec = {"path": path, "idx": idx, "args": [[p, IR.canon(v)] for p, v in args],
               "objs": {p: id(v) for p, v in args}, "raw": dict(args), "dec": ["~nodec"]}
        self.log.append(rec)
        return idx, rec

    def _maybe_fail(self, path, idx, args=()):
        nd = self.nodes[path]
        if idx in nd["fail_at"] or any(IR.canon(v) in nd["fail_args"] for _, v in args):
            # a sixth of the failures carry NO message (str(exc) == ""), like a bare KeyError() or a failed assert
            k = nd.get("exc_kind", (len(path) + idx) % 6) if self.silent_failures else 2
            exc = (Boom() if k == 0 else FalsyBoom(f"boom at {path}#{idx}") if k == 1 else FrozenBoom(f"boom at {path}#{idx}") if k == 3
                   else TypeBoom(f"helper() takes 1 positional argument but 2 were given (boom at {path}#{idx})") if k == 4
                   else _lib_boom(f"boom at {path}#{idx}") if k == 5
                   else Boom(f"boom at {path}#{idx}"))
            self.raised.append((path, idx, exc))
            raise exc

    def _result(self, nd, args):
        outs = nd["olabels"][: nd["ndata"]]
        vals = []
        for o in outs:
            if nd["fn"] == "id":
                vals.append(args[0][1] if args else f"{nd['tname']}.{o}")
            elif nd["fn"] == "const":
                vals.append(f"{nd['tname']}.{o}")
            else:
                text = f"{nd['tname']}.{o}(" + ",".join(f"{p}={IR.canon(v)}" for p, v in args) + ")"
                if len(text) > 200_000:
                    # runaway growth (a loop that iterates far beyond what the model allows): keep the harness alive;
                    # such a value can no longer equal any model value, which is the point
                    import hashlib
                    text = f"{nd['tname']}.{o}(~huge:{hashlib.sha256(text.encode()).hexdigest()[:16]})"
                vals.append(text)
        if not outs:
            return None
        if nd["fn"] == "short":
            return tuple(vals[:1])         # too few values for the declared outputs: the framework must reject the result
        return vals[0] if len(outs) == 1 else tuple(vals)

    def call(self, path, args):
        idx, _ = self._enter(path, args)
        if self.controller is not None and self.nodes[path]["kind"] == "func":
            self.controller.sync_body(path, idx)      # a synchronous function body executes NOW, next to the parked ones
        self._maybe_fail(path, idx, args)
        self.ends.append(path)
        return self._result(self.nodes[path], args)

    async def acall(self, path, args):
        idx, _ = self._enter(path, args)
        if self.controller is not None:
            await self.controller.park(path, idx, args)
        else:
            await asyncio.sleep(0)
        self._maybe_fail(path, idx, args)
        self.ends.append(path)
        return self._result(self.nodes[path], args)

    def gate(self, path, args):
        idx, rec = self._enter(path, args)
        self._maybe_fail(path, idx, args)
        nd = self.nodes[path]
        raw = nd["script"][min(idx, len(nd["script"])) - 1]
        if nd["pure"]:
            text = ",".join(f"{p}={IR.canon(v)}" for p, v in args)
            raw = nd["script"][len(text) % len(nd["script"])]
        vals = {IR.canon(v) for _, v in args}
        for val, r2 in nd["dec_args"]:
            if val in vals:
                raw = r2
                break
        self.ends.append(path)
        if bad_decision(nd, raw):
            self.bad_decisions.append(path)       # the framework rejects what the gate returns: no decision is taken
        else:
            rec["dec"] = effective_decision(nd, raw)
        return decode_decision(nd, raw)

    async def ayield(self):
        await asyncio.sleep(0)

    def future(self, value):
        fut = asyncio.get_running_loop().create_future()
        fut.set_result(value)
        return fut

    def handler(self, path, args):
        idx, _ = self._enter(path, args)
        self._maybe_fail(path, idx, args)
        nd = self.nodes[path]
        self.ends.append(path)
        if idx in nd["pause_at"]:
            return None
        outs = nd["outputs"][: nd["ndata"]]
        if len(outs) == 1:
            return IR.pyval(IR.answer_text(nd, 0))
        return {o: IR.pyval(IR.answer_text(nd, j)) for j, o in enumerate(outs)}


BAD_TARGET = "no_such_target"


def bad_decision(nd, raw):
    """Mirror of HGEngine!BadDecision: a route gate returning a name outside its targets ("~bad" stands
    for one), or a list although it is single-target."""
    if nd["kind"] != "route" or raw == [IR.NONE]:
        return False
    return (not nd["multi"] and len(raw) > 1) or any(t not in nd["targets"] for t in raw)


def effective_decision(nd, raw):
    """The decision the gate takes (list of strings, as in the model): fallback for None, [] for none."""
    if raw == [IR.NONE]:
        if nd["kind"] == "route" and not nd["multi"] and nd["fallback"] != IR.NONE:
            return [nd["fallback"]]
        return []
    return list(raw)


def decode_decision(nd, raw):
    """Raw scripted decision (list of strings) -> what the routing function returns."""
    def tgt(t):
        return END if t == "END" else BAD_TARGET if t == "~bad" else t
    if nd["kind"] == "ifelse":
        assert len(raw) == 1 and raw[0] in nd["targets"], (nd["name"], raw)
        return raw[0] == nd["targets"][0]
    if raw == [IR.NONE]:
        return None
    if nd["multi"] or len(raw) > 1:
        return [tgt(t) for t in raw]
    return tgt(raw[0])


def _mk_callable(rt, path, nd, entry):
    """exec a distinct function per node; parameters are the ORIGINAL names."""
    orig = [dict(map(tuple, nd["pmap"]))[p] for p in nd["inputs"]]
    dflt = set(dict(map(tuple, nd["pmap"]))[p] for p in nd["defaults"])
    sig = [p for p in orig if p not in dflt] + [p for p in orig if p in dflt]
    dv = dict(map(tuple, nd.get("dvals", [])))
    params = ", ".join((f"{p}=OBJ" if dv.get(p) == "~obj" else f"{p}={IR.pyval(dv[p])!r}" if p in dv else f"{p}='dflt.{p}'") if p in dflt else p for p in sig)
    argt = "(" + "".join(f"({p!r}, {p}), " for p in orig) + ")"
    fname = nd.get("fname", nd["name"])
    is_async = nd["is_async"] and entry in ("call", "handler")     # an interrupt's handler may be `async def` too
    is_gen = nd["fn"] == "gen" and entry == "call"
    if is_gen and not nd["ndata"]:   # a generator without outputs: what it yields is discarded, its body still has to run
        src = (f"async def {fname}({params}):\n    await RT.acall({path!r}, {argt})\n    yield None\n" if is_async
               else f"def {fname}({params}):\n    RT.call({path!r}, {argt})\n    yield None\n")
    elif is_gen and is_async:        # async generator: the runner collects the yielded items into a list
        src = f"async def {fname}({params}):\n    r = await RT.acall({path!r}, {argt})\n    yield r + '#0'\n    yield r + '#1'\n"
    elif is_gen:                   # generator
        src = f"def {fname}({params}):\n    r = RT.call({path!r}, {argt})\n    yield r + '#0'\n    yield r + '#1'\n"
    elif is_async and nd.get("coro"):      # a plain function that returns a coroutine
        src = f"def {fname}({params}):\n    return RT.acall({path!r}, {argt})\n"
    elif entry == "handler" and nd.get("handler_kind") == "future":
        # a SYNCHRONOUS handler that hands back an awaitable which is not a coroutine (a Future, e.g. from run_in_executor)
        src = f"def {fname}({params}):\n    return RT.future(RT.handler({path!r}, {argt}))\n"
    elif is_async and entry == "handler":
        src = f"async def {fname}({params}):\n    await RT.ayield()\n    return RT.handler({path!r}, {argt})\n"
    elif is_async:
        src = f"async def {fname}({params}):\n    return await RT.acall({path!r}, {argt})\n"
    else:
        src = f"def {fname}({params}):\n    return RT.{entry}({path!r}, {argt})\n"
    shared = nd["fid"] != nd["name"] and not nd["fid"].startswith("path:")
    if nd.get("closure"):
        # a function returned by a FILE-DEFINED factory: same source text as its siblings, another captured value
        from . import closures
        kind, k = nd["closure"]
        if k == "~newobj":
            k = IR.Opaque()          # a fresh object per definition: default repr (with its address), no __eq__
            k.path = "fid:" + nd["fid"]
            assert shared and orig == ["x"] and entry == "call", nd
            rt.nodes.setdefault("fid:" + nd["fid"], nd)
            f = closures.make_closure_obj(rt, k)
            rt.shared_funcs[nd["fid"]] = f
            return f
        assert shared and orig == ["x"] and entry == "call", nd
        rt.nodes.setdefault("fid:" + nd["fid"], nd)
        f = (closures.make_closure if kind == "cell" else closures.make_default)(rt, "fid:" + nd["fid"], k)
        rt.shared_funcs[nd["fid"]] = f
        return f
    if shared and nd["fid"] in rt.shared_funcs:
        return rt.shared_funcs[nd["fid"]]       # several nodes wrap the very same function object
    if shared:
        src = src.replace(repr(path), repr("fid:" + nd["fid"]))
        rt.nodes.setdefault("fid:" + nd["fid"], nd)
    if nd.get("deftag"):
        # a docstring makes this a DIFFERENT definition (other constants) with the same name, parameters and outputs
        head, body = src.split("\n", 1)
        src = head + f"\n    {nd['deftag']!r}\n" + body
    ns = {"RT": rt, "OBJ": IR.OBJ}
    exec(src, ns)  # noqa: S102 - harness-generated source
    if shared:
        rt.shared_funcs[nd["fid"]] = ns[fname]
    return ns[fname]


def _rename_inputs(node, nd):
    ren = {o: c for c, o in nd["pmap"] if o != c}
    if ren and nd.get("materialize"):
        _ = (node.inputs, getattr(node, "defaults", None), node.definition_hash)   # ordinary reads before the rename
    return node.with_inputs(ren) if ren else node


def _via_decorator(nd, path, f):
    """About half of the nodes are built through the public DECORATORS (@node, @route, @ifelse, @interrupt,
    with rename_inputs=) instead of the node classes (+ with_inputs): both are documented ways to say the same thing."""
    if nd.get("emit_renamed") or nd.get("materialize"):
        return False
    if nd["kind"] in ("func", "interrupt") and getattr(f, "__name__", None) != nd["name"]:
        return False            # @node / @interrupt take the node's name from the function
    return zlib.crc32(path.encode()) % 2 == 0


def build_node(rt, nd, prefix):
    path = f"{prefix}/{nd['name']}" if prefix else nd["name"]
    kind = nd["kind"]
    emit = tuple(nd["outputs"][nd["ndata"]:]) or None
    wait_for = tuple(nd["wait_for"]) or None
    ren = {o: c for c, o in nd["pmap"] if o != c} or None
    if kind == "func":
        f = _mk_callable(rt, path, nd, "call")
        data = nd["outputs"][: nd["ndata"]]
        out = None if not data else (data[0] if len(data) == 1 else tuple(data))
        if _via_decorator(nd, path, f):
            return hg_node(output_name=out, rename_inputs=ren, cache=nd["cache"], emit=emit, wait_for=wait_for)(f)
        if emit and nd.get("emit_renamed"):
            # the signal names are given to the node by a RENAME (with_outputs) after construction
            node = FunctionNode(f, name=nd["name"], output_name=out, cache=nd["cache"], emit=tuple(e + "_0" for e in emit), wait_for=wait_for)
            node = node.with_outputs({e + "_0": e for e in emit})
        else:
            node = FunctionNode(f, name=nd["name"], output_name=out, cache=nd["cache"], emit=emit, wait_for=wait_for)
        return _rename_inputs(node, nd)
    if kind == "interrupt":
        f = _mk_callable(rt, path, nd, "handler")
        data = nd["outputs"][: nd["ndata"]]
        out = data[0] if len(data) == 1 else tuple(data)
        if _via_decorator(nd, path, f):
            return hg_interrupt(output_name=out, rename_inputs=ren, cache=nd["cache"], emit=emit, wait_for=wait_for)(f)
        node = InterruptNode(f, name=nd["name"], output_name=out, emit=emit, wait_for=wait_for, cache=nd["cache"])
        return _rename_inputs(node, nd)
    if kind == "route":
        f = _mk_callable(rt, path, nd, "gate")
        # ctor_targets: the targets as handed to the constructor (the fallback may be left out: it is a target all the same)
        tg = [END if t == "END" else t for t in nd.get("ctor_targets", nd["targets"])]
        fb = None if nd["fallback"] == IR.NONE else (END if nd["fallback"] == "END" else nd["fallback"])
        if zlib.crc32((path + "/targets").encode()) % 2:
            tg = {t: f"route to {t}" for t in tg}        # the documented dict form {target: description}
        if _via_decorator(nd, path, f):
            return hg_route(targets=tg, fallback=fb, multi_target=nd["multi"], cache=nd["cache"], default_open=nd["default_open"],
                            name=nd["name"], rename_inputs=ren, emit=emit, wait_for=wait_for)(f)
        node = RouteNode(f, targets=tg, fallback=fb, multi_target=nd["multi"], cache=nd["cache"],
                         default_open=nd["default_open"], name=nd["name"], emit=emit, wait_for=wait_for)
        return _rename_inputs(node, nd)
    if kind == "ifelse":
        f = _mk_callable(rt, path, nd, "gate")
        wt, wf = [END if t == "END" else t for t in nd["targets"]]
        if _via_decorator(nd, path, f):
            return hg_ifelse(when_true=wt, when_false=wf, cache=nd["cache"], default_open=nd["default_open"],
                             name=nd["name"], rename_inputs=ren, emit=emit, wait_for=wait_for)(f)
        node = IfElseNode(f, when_true=wt, when_false=wf, cache=nd["cache"], default_open=nd["default_open"],
                          name=nd["name"], emit=emit, wait_for=wait_for)
        return _rename_inputs(node, nd)
    if kind == "graph":
        inner = build_graph(rt, nd["sub"], path)
        gn = inner.as_node(name=nd["name"])
        if nd.get("materialize"):
            # ordinary use of the wrapper BEFORE it is renamed: reads, a default lookup, membership in a graph
            _ = (gn.inputs, gn.outputs, gn.definition_hash, [gn.has_default_for(p) for p in gn.inputs], gn.map_inputs_to_params({p: 0 for p in gn.inputs}))
            try:
                Graph([gn])
            except Exception:  # noqa: BLE001
                pass
        def do_map(g, names):
            clone = nd["clone"]
            clone = False if clone == [IR.NONE] else (True if clone == ["~all"] else list(clone))
            return g.map_over(*names, mode=nd["map_mode"], error_handling=nd["map_eh"], clone=clone)
        mapped_first = bool(nd["map_over"] and nd.get("map_first"))
        if mapped_first:
            # the mapping is configured on the un-renamed wrapper (inner names); the renames come afterwards
            o2i = dict(map(tuple, nd["inmap"]))
            if isinstance(nd["clone"], list) and nd["clone"] not in ([IR.NONE], ["~all"]):
                nd = dict(nd, clone=[o2i.get(c, c) for c in nd["clone"]])
            gn = do_map(gn, [o2i.get(p, p) for p in nd["map_over"]])
        rin = {i: o for o, i in nd["inmap"] if o != i}
        if rin:
            gn = gn.with_inputs(rin)
        rout = {i: o for i, o in nd["outmap"] if o != i}
        if rout:
            gn = gn.with_outputs(rout)
        if set(gn.inputs) != set(nd["inputs"]) or set(gn.outputs) != set(nd["outputs"]):
            raise InterfaceMismatch(f"graph node {path}: IR interface {nd['inputs']}->{nd['outputs']} but the real node has {gn.inputs}->{gn.outputs}")
        if nd["map_over"] and not mapped_first:
            gn = do_map(gn, nd["map_over"])
        return gn
    raise ValueError(kind)


def build_graph(rt, p, prefix="", warm=None):
    """warm: optional callable(graph) applied to every intermediate graph object of the derivation
    chain Graph(...) -> .bind -> .select -> .with_entrypoint (a history in which the parent graphs
    have been used before the derived graph is)."""
    nodes = [build_node(rt, nd, prefix) for nd in p["nodes"]]
    if p.get("edges"):
        # declared topology (Graph(nodes, edges=[(src, dst), ...])): name inference is switched off
        g = Graph(nodes, edges=[tuple(e) for e in p["edges"]], name=p["name"])
    else:
        g = Graph(nodes, name=p["name"])
    if p["bound"]:
        if warm:
            warm(g)
        g = g.bind(**{k: IR.pyval(v) for k, v in p["bound"]})
    if p["selected"] != IR.UNSET:
        if warm:
            warm(g)
        g = g.select(*p["selected"])
    if p["entry"]:
        if warm:
            warm(g)
        g = g.with_entrypoint(*p["entry"])
    return g


def warm_runner(rt, values, max_iter):
    """Runs a parent graph object once (whatever the outcome) and forgets what the bodies logged."""
    def warm(g):
        saved = logging.getLogger("hypergraph").level
        try:
            logging.getLogger("hypergraph").setLevel(logging.CRITICAL)
            _ = g.inputs, g.outputs
            asyncio.run(AsyncRunner().run(g, dict(values), error_handling="continue", max_iterations=max_iter, on_internal_override="ignore"))
        except BaseException:  # noqa: BLE001 - the parent may well be unrunnable with these values
            pass
        finally:
            logging.getLogger("hypergraph").setLevel(saved)
            rt.reset()
    return warm


def complete_interfaces(p):
    """Fill inputs/outputs of graph nodes whose interface was left open in the IR from the
    real objects (identity interface).  Used by generators for engine-level checks; the
    input-spec checks (C05/C08) compute interfaces independently."""
    rt = Runtime(p)
    with warnings.catch_warnings():
        warnings.simplefilter("ignore")
        _complete(rt, p, "")
    return p


def _complete(rt, p, prefix):
    for nd in p["nodes"]:
        if nd["kind"] != "graph":
            continue
        path = f"{prefix}/{nd['name']}" if prefix else nd["name"]
        _complete(rt, nd["sub"], path)
        if nd["inputs"] or nd["outputs"]:
            continue
        inner = build_graph(rt, nd["sub"], path)
        gn = inner.as_node(name=nd["name"])
        nd["inputs"] = list(gn.inputs)
        nd["inmap"] = [[x, x] for x in gn.inputs]
        nd["pmap"] = [[x, x] for x in gn.inputs]
        nd["outputs"] = list(gn.outputs)
        nd["outmap"] = [[x, x] for x in gn.outputs]
        nd["ndata"] = len(gn.outputs)


# ---------------------------------------------------------------------------
# running a job on the real runners and projecting the observables of Predict.tla
# ---------------------------------------------------------------------------

def provided_dict(job):
    """Provided values; a value whose text is registered in job['lists'] is passed as a real list."""
    lists = {t: items for t, items in job.get("lists", [])}
    lit = set(job.get("literal_keys", []))       # keys whose text stands for a python literal (falsy interrupt answers)
    out = {k: (list(lists[v]) if v in lists else IR.pyval(v)) for k, v in job["provided"]}
    # job['alias']: {name: "alias" | "distinct"} -- the value [[w];[w]] built from ONE inner list twice or from two equal ones
    for k, how in job.get("alias", {}).items():
        w = ["w"]
        out[k] = [w, w] if how == "alias" else [["w"], ["w"]]
    return out


def run_job(job, *, runner=None, event_processors=None, max_concurrency=None, cache=None, on_missing=None,
            error_handling="continue", warnings_as_errors=False):
    """Execute job = {id, prog, provided, mode, select} on the real code.
    Returns the observable record in the shape of Predict!Observe, plus the raw pieces."""
    from hypergraph.exceptions import InfiniteLoopError

    rt = Runtime(job["prog"])
    with warnings.catch_warnings():
        warnings.simplefilter("ignore")
        g = build_graph(rt, job["prog"], warm=warm_runner(rt, provided_dict(job), job["prog"]["max_iter"]) if job.get("warm") else None)
    kwargs = dict(error_handling=error_handling, max_iterations=job["prog"]["max_iter"], on_internal_override="ignore")
    if on_missing is not None:
        kwargs["on_missing"] = on_missing
    if job["select"] != IR.UNSET:
        kwargs["select"] = "**" if job["select"] == ["**"] else list(job["select"])
    if event_processors is not None:
        kwargs["event_processors"] = event_processors
    values = provided_dict(job)
    with warnings.catch_warnings(record=True) as wlist:
        warnings.simplefilter("error" if warnings_as_errors else "always")      # "error": the interpreter's -W error policy
        try:
            if job["mode"] == "sync":
                r = (runner or SyncRunner(cache=cache)).run(g, values, **kwargs)
            else:
                if max_concurrency is not None:
                    kwargs["max_concurrency"] = max_concurrency
                r = asyncio.run((runner or AsyncRunner(cache=cache)).run(g, values, **kwargs))
        except Exception as e:  # noqa: BLE001
            if not rt.log and not isinstance(e, Boom):
                raise            # rejected before anything ran: classified by the caller
            obs = {"status": "raised", "values": {}, "pause": {"path": IR.NONE, "key": IR.NONE, "value": IR.NONE},
                   "err": classify_error(rt, e),
                   "calls": _calls(rt), "ends": list(rt.ends), "warnings": [str(w.message)[:200] for w in wlist]}
            return obs, rt, None
    obs = observe(rt, r)
    obs["warnings"] = [str(w.message)[:200] for w in wlist if issubclass(w.category, UserWarning)]
    return obs, rt, r


def classify_error(rt, e):
    """{path, kind} of a run's error: "body" = raised by a harness body (identity preserved), "decision" =
    the framework rejected what a gate returned (raised by the gate's executor), else other:<type>:<text>."""
    hit = [(p, i) for p, i, x in rt.raised if x is e]
    if hit:
        return {"path": hit[0][0], "kind": "body"}
    if rt.bad_decisions and isinstance(e, (ValueError, TypeError)) and str(e).startswith("Gate '"):
        name = str(e).split("'")[1]
        for p in rt.bad_decisions:
            if p.rsplit("/", 1)[-1] == name:
                return {"path": p, "kind": "decision"}
    return {"path": IR.NONE, "kind": "other:" + type(e).__name__ + ":" + str(e)[:200]}


def _calls(rt):
    return [{"path": c["path"], "frame": c["path"].rsplit("/", 1)[0] if "/" in c["path"] else "",
             "node": c["path"].rsplit("/", 1)[-1], "step": 0, "idx": c["idx"], "args": c["args"],
             "dec": c["dec"]} for c in rt.log]


def observe(rt, r):
    from hypergraph.exceptions import InfiniteLoopError

    err = {"path": IR.NONE, "kind": IR.NONE}
    if r.status.value == "failed":
        if isinstance(r.error, InfiniteLoopError):
            err = {"path": IR.NONE, "kind": "infinite"}
        else:
            err = classify_error(rt, r.error)
    pause = {"path": IR.NONE, "key": IR.NONE, "value": IR.NONE}
    if r.pause is not None:
        pause = {"path": r.pause.node_name, "key": r.pause.output_param, "value": IR.canon(r.pause.value),
                 "response_key": r.pause.response_key, "response_keys": dict(r.pause.response_keys),
                 "values": None if r.pause.values is None else {k: IR.canon(v) for k, v in r.pause.values.items()},
                 "output_params": None if r.pause.output_params is None else list(r.pause.output_params)}
    return {
        "status": r.status.value,
        "values": {k: IR.canon(v) for k, v in r.values.items()},
        "err": err,
        "pause": pause,
        "calls": _calls(rt),
        "ends": list(rt.ends),
    }


def values_of(r):
    return {k: IR.canon(v) for k, v in r.values.items()}


def suggest_inputs(prog, rng=None, optional_p=0.5):
    """Provided values that the implementation's own input spec asks for (engine-level checks are
    not about the input contract: C08 is): required + some optional + the parameters of the first
    listed entry point of a cyclic graph."""
    rt = Runtime(prog)
    with warnings.catch_warnings():
        warnings.simplefilter("ignore")
        g = build_graph(rt, prog)
    spec = g.inputs
    names = list(spec.required)
    for p in spec.optional:
        if rng is not None and rng.random() < optional_p and p not in dict(map(tuple, prog["bound"])):
            names.append(p)
    if spec.entrypoints:
        first = sorted(spec.entrypoints)[0] if rng is None else rng.choice(sorted(spec.entrypoints))
        names += [p for p in spec.entrypoints[first] if p not in names]
    return [[p, f"in.{p}"] for p in names]
