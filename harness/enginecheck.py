"""Shared pipeline of the engine-level checks: model prediction (TLC, L2 |= L1 as invariant),
real execution, TLC evaluation of the L1 monitors on the recorded real call logs, comparison."""
from __future__ import annotations

from . import predict
from . import ir as IR


def evaluate(ctx, pairs, prop, compare, trace_prop=None, min_accepted=1, real_kw=None):
    jobs = [j for j, _ in pairs]
    tags = {j["id"]: t for j, t in pairs}
    res, stats = predict.model_predict(jobs, prop=prop)
    ctx.add_tlc(stats)
    reals = {}
    for j in jobs:
        o, _, _ = predict.try_real(j, **(real_kw or {}))
        reals[j["id"]] = o
        ctx.count()
    failed = {}
    if trace_prop:
        items = [predict.trace_item(j, reals[j["id"]]) for j in jobs if "rejected" not in reals[j["id"]]]
        failed, st2 = predict.trace_l1(items, trace_prop)
        ctx.add_tlc(st2)
        ctx.traces(len(items))
    else:
        ctx.traces(sum(1 for j in jobs if "rejected" not in reals[j["id"]]))
    accepted = 0
    for j in jobs:
        o = reals[j["id"]]
        if "rejected" not in o:
            accepted += 1
        compare(ctx, j, res[j["id"]], o, tags[j["id"]], failed.get(j["id"], []))
    if accepted < min_accepted:
        raise RuntimeError(f"only {accepted} of {len(jobs)} generated runs were accepted by the implementation")
    return res, reals


def witness(job, tag, m, o, **extra):
    w = {"job": job, "tag": tag,
         "model": {k: m[k] for k in ("status", "values", "err", "pause", "calls") if k in m},
         "observed": o}
    w.update(extra)
    return w


def common_mismatch(m, o):
    """Status / error identity comparison shared by several properties.  Returns text or None."""
    if "rejected" in o:
        return f"rejected: {o}"
    if m["status"] != o["status"]:
        return f"status {o['status']} (model {m['status']})"
    if m["err"]["kind"] != o["err"]["kind"]:
        return f"error kind {o['err']} (model {m['err']})"
    if m["err"]["kind"] == "body" and m["err"]["path"] != o["err"]["path"]:
        return f"failing node {o['err']['path']} (model {m['err']['path']})"
    return None
