"""C04 Loops run exactly as many iterations as the gate dictates and always terminate (DESIGN.md 5/C04)."""
from __future__ import annotations

import json
import copy
import random

from .. import build, enginecheck, gen, predict
from .. import ir as IR
from ..core import Ctx

PID = "C04"


def loop_nodes(meta):
    s = list(meta["body"]) + [meta["gate"]]
    if meta["exit"] != IR.NONE:
        s.append(meta["exit"])
    return s


def classify_stall(job, o, aux):
    """Witness class of finding 6: signal-synchronised gate stops re-running after the 2nd emission."""
    meta = job["meta"]
    if meta["shape"] != "dowhile" or meta["n_cont"] < 1:
        return None
    frame = meta["frame"]
    cnt = {}
    for c in o.get("calls", []):
        if c["frame"] == frame:
            cnt[c["node"]] = cnt.get(c["node"], 0) + 1
    if cnt.get(meta["gate"], 0) == 1 and cnt.get(meta["body"][-1], 0) == 2 and o["status"] == "completed":
        return "signal-gate-stalls-after-second-emission"
    return None


def compare(ctx, job, m, o, tag, failed):
    meta = job["meta"]
    aux = m["aux"]
    wit = enginecheck.witness(job, tag, m, o, reference={"cnt": aux["cnt"], "env": aux["env"]})
    if "rejected" in o:
        return ctx.violation("rejected", wit, f"loop run rejected: {o}")
    frame = meta["frame"]
    cnt = {}
    for c in o["calls"]:
        if c["frame"] == frame:
            cnt[c["node"]] = cnt.get(c["node"], 0) + 1
    ref_cnt = aux["cnt"] if isinstance(aux["cnt"], dict) else {}
    if meta["shape"] == "explicit":
        # the declared topology has an obvious sequential meaning (meta["sequential"]); the verdict compares the
        # real run with it directly (the engine model below is name-based like the runtime)
        want = {n: k for n, k in meta["sequential"]}
        if o["status"] != "completed" or any(cnt.get(n, 0) != k for n, k in want.items()):
            return ctx.violation("explicit-edges-loop-ignores-declared-topology", wit,
                                 f"declared topology add_query->generate->add_response->gate, gate continues {meta['n_cont']} times: "
                                 f"sequential loop runs {want}, real run: status {o['status']}/{o['err']['kind']}, executions {cnt}")
        return False
    if meta["shape"] == "shared":
        ref_cnt = {n: 10 ** 6 for n in loop_nodes(meta)}      # no sequential reference for this shape: compared with the model below
    if meta["shape"] == "oneshot":
        ref_cnt = {n: k for n, k in meta["expect"]}
    # never more executions of any loop node than the sequential loop performs
    for n in loop_nodes(meta):
        if cnt.get(n, 0) > ref_cnt.get(n, 0):
            return ctx.violation("extra-iteration", wit, f"{n} ran {cnt.get(n, 0)} times, sequential loop {ref_cnt.get(n, 0)}")
    # the step bound, observable as: no node is invoked more than max_iterations times
    for n, k in cnt.items():
        if frame == "" and k > job["prog"]["max_iter"]:
            return ctx.violation("step-bound", wit, f"{n} invoked {k} > max_iterations {job['prog']['max_iter']}")
    if o["status"] == "completed" and meta["shape"] == "oneshot":
        for n, k in meta["expect"]:
            if cnt.get(n, 0) != k:
                return ctx.violation("stale-decision-reused", wit, f"{n} ran {cnt.get(n, 0)} times, expected {k}")
    elif o["status"] == "completed" and meta["shape"] != "shared":
        for n in loop_nodes(meta):
            if cnt.get(n, 0) != ref_cnt.get(n, 0):
                k = classify_stall(job, o, aux) or "iteration-count"
                return ctx.violation(k, wit, f"{n} ran {cnt.get(n, 0)} times, sequential loop {ref_cnt.get(n, 0)}")
        if frame == "":
            env = aux["env"] if isinstance(aux["env"], dict) else {}
            if o["values"] != env:
                return ctx.violation("final-values", wit, f"values {o['values']} sequential loop {env}")
    elif o["status"] == "completed":
        pass   # shape without a sequential reference: compared with the engine model below
    elif o["status"] == "failed" and o["err"]["kind"] == "infinite":
        pass  # partial values: compared with the model below (TLC checked the model's against the sequential loop: clause `prefix`)
    else:
        return ctx.violation("outcome", wit, f"status {o['status']} err {o['err']}")
    if meta["shape"] == "shared":
        cm = {}
        for c in m["calls"]:
            cm[c["node"]] = cm.get(c["node"], 0) + 1
        if o["status"] == "completed" and m["status"] == "completed" and cm != cnt:
            return ctx.violation("iteration-count-vs-model", wit, f"node executions {cnt}, engine model {cm}")
    # termination outcome and partial values: same as the L2 model (steps are a property-level notion here)
    if m["status"] != o["status"] or m["err"]["kind"] != o["err"]["kind"]:
        k = classify_stall(job, o, aux) or "termination"
        return ctx.violation(k, wit, f"outcome {o['status']}/{o['err']['kind']} model {m['status']}/{m['err']['kind']}")
    if m["values"] != o["values"]:
        return ctx.violation("values-vs-model", wit, f"values {o['values']} model {m['values']}")
    return False


def make_pairs(tier, rng):
    thorough = tier == "thorough"
    N = 8 if thorough else 5
    pairs = []
    for shape in ("while", "dowhile"):
        for m in (1, 2, 3):
            for gk in ("route", "ifelse"):
                for ex in ((False,) if shape == "dowhile" else (False, True)):   # a default-open gate lets an exit node start early
                    for n in range(0, (min(N, 5) if shape == 'dowhile' and m > 1 else N) + 1):
                        for nested in ((False, True) if m == 1 else (False,)):   # a nested cycle exposes every entry point's parameters
                            entries = [1]
                            if shape == "while" and m >= 2 and not nested:
                                entries = list(range(1, m + 1))
                            for e in entries:
                                full = (n + 2) * (m + 2) + 4
                                mis = [None]
                                if not nested:
                                    mis += sorted({rng.randint(1, full), rng.randint(1, full)}) if not thorough else list(range(1, full, 2))
                                for mi in mis:
                                    for mode in (("sync", "async") if thorough else (rng.choice(["sync", "async"]),)):
                                        prog, prov, meta = gen.loop_template(m, shape, gk, ex, n, entry=e, nested=nested, max_iter=mi)
                                        j = gen.job(0, prog, prov, mode=mode)
                                        j["meta"] = meta
                                        pairs.append((j, f"{shape}/m{m}/{gk}/{'exit' if ex else 'end'}/N{n}/e{e}/{'nested' if nested else 'flat'}/mi{mi}"))
    if not thorough:
        rng.shuffle(pairs)
        pairs = pairs[:1500]
    for dopen in (True, False):
        for gk in ("route", "ifelse"):
            for mode in ("sync", "async"):
                prog, prov, meta = gen.oneshot_template(dopen, gk)
                j = gen.job(0, prog, prov, mode=mode)
                j["meta"] = meta
                pairs.append((j, f"oneshot/{gk}/{'open' if dopen else 'closed'}"))
    for n in range(0, 4 if not thorough else 6):
        for gk in ("route", "ifelse"):
            for mode in ("sync", "async"):
                prog, prov, meta = gen.shared_output_loop(n, gk)
                j = gen.job(0, prog, prov, mode=mode)
                j["meta"] = meta
                pairs.append((j, f"shared-accumulators/{gk}/N{n}"))
    for n in range(0, 3):
        for gk in ("route", "ifelse"):
            for mode in ("sync", "async"):
                prog, prov, meta = gen.explicit_edges_loop(n, gk)
                j = gen.job(0, prog, prov, mode=mode)
                j["meta"] = meta
                pairs.append((j, f"explicit-edges/{gk}/N{n}"))
    # the same loops with their topology DECLARED: exactly the edges inference creates, plus the gate -> target arrows
    # a user would draw (legal: the pair carries no value, the gate still controls its target)
    declared = []
    for j, tag in pairs:
        if tag.startswith("explicit-edges/") or j["meta"].get("nested") or "/nested/" in tag or rng.random() > (0.5 if thorough else 0.12):
            continue
        ed = gen.inferred_edges(j["prog"])
        if not ed:
            continue
        for n in j["prog"]["nodes"]:
            if n["kind"] in ("route", "ifelse"):
                ed += [[n["name"], t] for t in n["targets"] if t != "END" and [n["name"], t] not in ed]
        j2 = gen.job(0, dict(copy.deepcopy(j["prog"]), edges=ed), j["provided"], mode=j["mode"])
        j2["meta"] = j["meta"]
        declared.append((j2, "declared-edges/" + tag))
    pairs += declared
    # the same loops SEEDED THROUGH bind(): the bound seed starts the cycle, the loop's own output replaces it from then on
    seeded = []
    for j, tag in pairs:
        if tag.startswith(("explicit-edges/", "declared-edges/")) or "/nested/" in tag or not j["provided"] or rng.random() > (0.4 if thorough else 0.1):
            continue
        if j["meta"]["n_cont"] < 1:
            continue        # a loop that never iterates returns its PROVIDED seed; a bound seed that nothing re-produced is not a result
        p2 = copy.deepcopy(j["prog"])
        p2["bound"] = [list(x) for x in j["provided"]]
        j2 = gen.job(0, p2, [], mode=j["mode"])
        j2["meta"] = j["meta"]
        seeded.append((j2, "seeded-by-bind/" + tag))
    pairs += seeded
    for i, (j, _) in enumerate(pairs):
        j["id"] = i + 1
    return pairs


def run(tier, seed):
    ctx = Ctx(PID, tier, seed, "model_checking")
    rng = random.Random(seed)
    pairs = make_pairs(tier, rng)
    for j, _ in pairs:
        if j["meta"]["n_cont"] >= 1:
            ctx.distinct(IR.struct_hash([j["prog"], j["provided"], j["mode"]]))
    res, reals = enginecheck.evaluate(ctx, pairs, PID, compare, min_accepted=len(pairs) // 2)
    mid = pairs[len(pairs) // 2][0]
    ctx.sample({"template": pairs[len(pairs) // 2][1], "meta": mid["meta"], "reference": res[mid["id"]]["aux"]["cnt"],
                "observed_status": reals[mid["id"]].get("status")})
    ctx.assumptions += ["loop templates: while (gate reads the state) and documented signal-synchronised chat-loop shape",
                        "reference = sequential program-order loop (HGProps!WhileRef) evaluated by TLC; engine model checked against it (INVARIANT L1Holds)"]
    return ctx.finish(
        rule="loop templates x body length 1..3 x gate kind (route/ifelse) x exit via END or exit node x iteration counts 0..N x flat/nested x every listed entry point x max_iterations values (truncating and sufficient) x runner; non-trivial = at least one continue decision; distinct = structural hash")


def replay(path):
    w = json.load(open(path))["witness"]
    ctx = Ctx(PID, "quick", 0, "model_checking")
    enginecheck.evaluate(ctx, [(w["job"], w.get("tag", "replay"))], PID, compare)
    return 1 if ctx.violations else 0
