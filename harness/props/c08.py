"""C08 Input contract: reported input spec is exact; violations fail before execution (DESIGN.md 5/C08)."""
from __future__ import annotations

import asyncio
import copy
import json
import random
import warnings

from hypergraph import AsyncRunner, SyncRunner
from hypergraph.events.processor import EventProcessor
from hypergraph.exceptions import MissingInputError

from .. import build, gen, predict, specs
from .. import ir as IR
from ..core import Ctx

PID = "C08"


class Rec(EventProcessor):
    def __init__(self):
        self.events, self.shutdowns = [], 0

    def on_event(self, e):
        self.events.append(type(e).__name__)

    def shutdown(self):
        self.shutdowns += 1


def real_run(prog, given, mode, select, entrypoint=None):
    """Returns dict(outcome=accepted|rejected, exc, calls, events, shutdowns, status, err)."""
    rt = build.Runtime(prog)
    with warnings.catch_warnings():
        warnings.simplefilter("ignore")
        g = build.build_graph(rt, prog)
    rec = Rec()
    kw = dict(error_handling="continue", max_iterations=prog["max_iter"], on_internal_override="ignore", event_processors=[rec])
    if select != IR.UNSET:
        kw["select"] = "**" if select == ["**"] else list(select)
    if entrypoint:
        kw["entrypoint"] = entrypoint
    values = {p: f"in.{p}" for p in given}
    out = {"calls": 0, "events": 0, "shutdowns": 0}
    with warnings.catch_warnings():
        warnings.simplefilter("ignore")
        try:
            if mode == "sync":
                r = SyncRunner().run(g, values, **kw)
            else:
                r = asyncio.run(AsyncRunner().run(g, values, **kw))
        except Exception as e:  # noqa: BLE001
            out.update(outcome="rejected", exc=type(e).__name__, msg=str(e)[:300], missing_error=isinstance(e, MissingInputError))
        else:
            lack = r.status.value == "failed" and isinstance(r.error, KeyError)
            out.update(outcome="accepted", status=r.status.value, lack_of_value=lack,
                       err=(type(r.error).__name__ + ":" + str(r.error)[:120]) if r.error else "",
                       values={k: IR.canon(v) for k, v in r.values.items()})
    out.update(calls=len(rt.log), events=len(rec.events), shutdowns=rec.shutdowns)
    return out


def configs(rng, thorough):
    n = 700 if thorough else 150
    out = []
    # hand-shaped configurations
    f = IR.func("f", ["m", "n", "z"], ["n"])
    g2 = IR.func("g", ["n", "m"], ["m"])            # same cycle parameters as f, listed in another order
    out.append((IR.prog("top", [f, g2], max_iter=6), list(IR.UNSET), "cycle-same-params-other-order", "sync"))
    out.append((IR.prog("top", [g2, f], max_iter=6), list(IR.UNSET), "cycle-same-params-other-order", "async"))
    # two data loops that exchange no data but hand over to each other through their gates (control edges both ways):
    # one listed entry point per loop must be accepted, the seed of either loop cannot be omitted
    def two_loops():
        return [IR.func("a_step", ["b"], ["a"]), IR.func("b_step", ["a"], ["b"]),
                IR.route("gate_ab", ["b"], ["a_step", "x_step", "END"], [["a_step"], ["END"]]),
                IR.func("x_step", ["y"], ["x"]), IR.func("y_step", ["x"], ["y"]),
                IR.route("gate_xy", ["y"], ["x_step", "a_step", "END"], [["x_step"], ["END"]])]
    out.append((IR.prog("top", two_loops(), max_iter=12), list(IR.UNSET), "two-loops-linked-by-gates", "sync"))
    out.append((IR.prog("top", list(reversed(two_loops())), max_iter=12), list(IR.UNSET), "two-loops-linked-by-gates", "async"))
    # two CHAINED cycles: A(x)->y, B(y)->x and downstream C(x, z)->w, D(w)->z.  x circulates in the first cycle only: it is
    # not an entry parameter of C (one listed entry point per cycle must be accepted; C's own seed is z)
    def chained():
        return [IR.func("A", ["x"], ["y"]), IR.func("B", ["y"], ["x"]), IR.func("C", ["x", "z"], ["w"]), IR.func("D", ["w"], ["z"])]
    out.append((IR.prog("top", chained(), max_iter=6), list(IR.UNSET), "two-chained-cycles", "sync"))
    out.append((IR.prog("top", list(reversed(chained())), max_iter=6), list(IR.UNSET), "two-chained-cycles", "async"))
    # a selection whose producer depends on another node only through an ordering signal (emit / wait_for):
    # the emitter's own input belongs to the narrowed contract
    def ordered():
        E = IR.normalize_node(dict(name="E", kind="func", inputs=["x"], outputs=["e", "sig"], ndata=1))
        W = IR.normalize_node(dict(name="W", kind="func", inputs=["y"], outputs=["w"], wait_for=["sig"]))
        return [E, W, IR.func("K", ["z"], ["k"])]
    out.append((IR.prog("top", ordered(), selected=["w"]), list(IR.UNSET), "dag/select-through-ordering-edge", "sync"))
    out.append((IR.prog("top", list(reversed(ordered()))), ["w"], "dag/select-through-ordering-edge", "async"))
    # a cycle that runs THROUGH a nested graph whose seed is bound inside it (the wrapper renames its output onto the seed):
    # nothing but `step` is needed from the caller
    def nested_cycle():
        inner = IR.prog("inner", [IR.func("bump", ["prev", "step"], ["count"])], bound=[["prev", "bound.inner.prev"]], max_iter=1000)
        gn = IR.graph_node(inner, name="acc", inputs=["prev", "step"], outputs=["prev"], outmap=[["count", "prev"]])
        return [gn, IR.route("again", ["prev"], ["acc", "END"], [["acc"], ["END"]])]
    out.append((IR.prog("top", nested_cycle(), max_iter=10), list(IR.UNSET), "cycle-through-nested-graph-with-inner-seed", "sync"))
    out.append((IR.prog("top", list(reversed(nested_cycle())), max_iter=10), list(IR.UNSET), "cycle-through-nested-graph-with-inner-seed", "async"))
    # a declared topology in which ONE node pair is listed in two edge tuples, one value each
    sp = IR.func("split", ["text"], ["head", "tail"])
    jn = IR.func("join", ["head", "tail", "sep"], ["out"])
    pd = IR.prog("top", [sp, jn])
    pd["edges"] = [["split", "join", "head"], ["split", "join", "tail"]]
    out.append((pd, list(IR.UNSET), "dag+declared-edges/pair-listed-twice", "sync"))
    tries = 0
    while len(out) < n and tries < 100000:
        tries += 1
        r = rng.random()
        if r < 0.3:
            prog, _ = gen.random_flat(rng, n_nodes=(2, 5), cyclic=0.0, gate=0.3, multi_out=0.3, defaults=0.3, bound=0.0, emit=0.3)
            subs = list(gen.convex_subsets(prog)) if not any(x["kind"] != "func" for x in prog["nodes"]) else []
            if subs and rng.random() < 0.5:
                prog = gen.nest(prog, rng.choice(subs), inner_bound=None)
                gn = [x for x in prog["nodes"] if x["kind"] == "graph"][0]
                if rng.random() < 0.5:
                    # bind an inner parameter inside the nested graph (it becomes optional outside)
                    cand = [i for _, i in gn["inmap"]]
                    if cand:
                        b = rng.choice(cand)
                        gn["sub"]["bound"] = [[b, f"bound.inner.{b}"]]
                if len(gn["inputs"]) >= 2 and rng.random() < 0.6:
                    # the wrapper exchanges two of its inputs in ONE with_inputs() call
                    i1, i2 = rng.sample(range(len(gn["inmap"])), 2)
                    gn["inmap"][i1][1], gn["inmap"][i2][1] = gn["inmap"][i2][1], gn["inmap"][i1][1]
                    gn["pmap"] = [list(x) for x in gn["inmap"]]
            kind = "dag"
        else:
            prog, _ = gen.random_flat(rng, n_nodes=(2, 5), cyclic=0.5, gate=0.5, multi_out=0.2, defaults=0.25, bound=0.0, emit=0.15)
            kind = "cyclic"
        if rng.random() < 0.2:
            ed = gen.inferred_edges(prog)      # topology declared with exactly the edges inference would create
            if ed:
                prog["edges"] = ed
                kind += "+declared-edges"
        try:
            rs, g = specs.real_spec(prog)
        except Exception:  # noqa: BLE001
            continue
        allin = rs["required"] + rs["optional"] + sorted({p for ps in rs["entry"].values() for p in ps})
        nongate = [x["name"] for x in prog["nodes"] if x["kind"] == "func"]
        data = sorted({o for x in prog["nodes"] for o in x["outputs"][: x["ndata"]]})
        if rng.random() < 0.5 and allin:
            pool = (rs["required"] + rs["optional"]) if rng.random() < 0.85 else allin    # mostly plain inputs; sometimes cycle seeds
            if pool:
                prog["bound"] = [[b, f"bound.top.{b}"] for b in rng.sample(pool, rng.randint(1, min(2, len(pool))))]
        elif rs["entry"] and rng.random() < 0.5:
            # EVERY seed of one entry point is pre-filled: that cycle needs nothing from the caller any more
            e = rng.choice(sorted(rs["entry"]))
            prog["bound"] = [[b, f"bound.top.{b}"] for b in rs["entry"][e]]
            kind += "+all-seeds-bound"
        if rng.random() < 0.3 and data:
            prog["selected"] = rng.sample(data, rng.randint(1, min(2, len(data))))
        if rng.random() < 0.3 and nongate:
            prog["entry"] = rng.sample(nongate, 1)
        sel = IR.UNSET
        if rng.random() < 0.2 and data:
            sel = rng.sample(data, 1)
        elif rng.random() < 0.12 and data:
            sel = list(data)          # a run-time selection naming EVERY output: still a selection (side-effect-only nodes are outside it)
        try:
            specs.real_spec(prog)
        except Exception:  # noqa: BLE001
            continue
        out.append((prog, list(sel), kind, rng.choice(["sync", "async"])))
    return out


def cycle_members(prog, entry_node):
    """All nodes of the strongly connected component (data edges) that contains entry_node."""
    import networkx as nx
    G = nx.DiGraph()
    first = {}
    for n in prog["nodes"]:
        G.add_node(n["name"])
        for o in n["outputs"]:
            first.setdefault(o, n["name"])
    for n in prog["nodes"]:
        for p in n["inputs"]:
            if p in first:
                G.add_edge(first[p], n["name"])
    for comp in nx.strongly_connected_components(G):
        if entry_node in comp:
            return comp
    return {entry_node}


def scc_groups(prog, entries):
    """Listed entry points grouped by cycle (strongly connected component of the data edges)."""
    import networkx as nx
    G = nx.DiGraph()
    first = {}
    for n in prog["nodes"]:
        G.add_node(n["name"])
        for o in n["outputs"]:
            first.setdefault(o, n["name"])
    for n in prog["nodes"]:
        for p in n["inputs"]:
            if p in first:
                G.add_edge(first[p], n["name"])
    groups = []
    for comp in nx.strongly_connected_components(G):
        grp = sorted(n for n in comp if n in entries)
        if grp:
            groups.append(grp)
    return sorted(groups)


def bypassed_by_bound(prog, r, given=()):
    """Known finding: binding ALL consumed outputs of a node bypasses it at validation time, yet
    graph.inputs keeps listing that node's own inputs as required."""
    bound = {b for b, _ in prog["bound"]}
    consumed = {p for n in prog["nodes"] for p in n["inputs"]}
    byp = set()
    for n in prog["nodes"]:
        co = set(n["outputs"]) & consumed
        # all consumed outputs are injected, at least one of them by a BINDING (the rest by the caller's values) ...
        if co and co <= (bound | set(given)) and co & bound:
            # ... that is not the seed of the node's own cycle (a bound seed bootstraps the cycle, it bypasses nothing)
            members = cycle_members(prog, n["name"])
            in_cycle = {p for m in prog["nodes"] if m["name"] in members for p in m["inputs"]} if (len(members) > 1 or set(n["inputs"]) & set(n["outputs"])) else set()
            if (co & bound) - in_cycle:
                byp.add(n["name"])
    users = {n["name"] for n in prog["nodes"] if r in n["inputs"]}
    return bool(users) and users <= byp


def classify_entry(rs, sp):
    """finding 9: an entry point lists parameters that are produced by ANOTHER cycle."""
    for n, ps in rs["entry"].items():
        spec_ps = set(sp["entry"].get(n, []))
        if set(ps) > spec_ps and sp["entry"].get(n) is not None:
            return "cycle-entrypoint-lists-params-of-other-cycle"
        if n not in sp["entry"] and ps:
            return "cycle-entrypoint-lists-params-of-other-cycle"
    return None


def run(tier, seed):
    ctx = Ctx(PID, tier, seed, "model_checking")
    rng = random.Random(seed)
    thorough = tier == "thorough"
    cfgs = configs(rng, thorough)
    # --- specification of every configuration (TLC evaluates InputSpec.tla and checks its laws)
    sjobs = [{"id": i + 1, "prog": prog, "select": sel, "given": [], "entrypoint": IR.NONE} for i, (prog, sel, kind, mode) in enumerate(cfgs)]
    res, stats = specs.spec_eval(sjobs)
    ctx.add_tlc(stats)
    accept_jobs, plan = [], []
    reported = {}
    for i, (prog, sel, kind, mode) in enumerate(cfgs):
        sp = res[i + 1]
        ctx.count()
        ctx.distinct(IR.struct_hash([prog, sel]))
        eff_prog = prog if sel == IR.UNSET else dict(prog, selected=list(sel))   # run-time select = graph-level select for the contract
        try:
            rs, g = specs.real_spec(eff_prog)
        except Exception as e:  # noqa: BLE001
            continue
        reported[i] = rs
        wit = {"prog": prog, "select": sel, "specified": sp, "reported": rs, "kind": kind}
        if set(rs["required"]) & set(rs["optional"]) or any(set(ps) & (set(rs["required"]) | set(rs["optional"])) for ps in rs["entry"].values()):
            ctx.violation("categories-not-disjoint", wit, f"{rs}")
            continue
        pre_filled = set(rs["bound"]) & (set(rs["required"]) | {p for ps in rs["entry"].values() for p in ps})
        if pre_filled:
            ctx.violation("bound-name-still-demanded", wit, f"{sorted(pre_filled)} are bound (pre-filled) yet listed as required / entry-point parameters: {rs}")
            continue
        ent_r = {k: sorted(v) for k, v in rs["entry"].items()}
        ent_s = {k: sorted(v) for k, v in sp["entry"].items()}
        if (rs["required"], rs["optional"]) != (sp["required"], sp["optional"]) or ent_r != ent_s:
            k = classify_entry(rs, sp) if ent_r != ent_s else None
            narrowing = sel != IR.UNSET or prog["selected"] != IR.UNSET
            if k:
                # the documentation does not say whether "from cycle" means from the consumer's OWN cycle:
                # recorded; the behavioural checks below decide (acceptance of required + one entry point)
                ctx.divergence("entry point lists a parameter fed by another cycle", {"reported": ent_r, "specified": ent_s})
            elif narrowing:
                # the documentation says "backward-reachable"; the implementation additionally keeps some
                # gate targets.  Not settled by the documented rules: recorded, never an alarm.
                ctx.divergence("select narrowing differs from InputSpec.tla", {"reported": rs, "specified": sp})
            else:
                ctx.violation("reported-spec-differs", wit,
                              f"graph.inputs required={rs['required']} optional={rs['optional']} entry={ent_r}; specified required={sp['required']} optional={sp['optional']} entry={ent_s}")
        # bind / unbind on the real object
        for b in rs["required"][:2]:
            gb = g.bind(**{b: "v"})
            if b in gb.inputs.required or b not in gb.inputs.optional:
                ctx.violation("bind-does-not-move", wit, f"bind({b}) -> required={gb.inputs.required} optional={gb.inputs.optional}")
            gu = gb.unbind(b)
            if (sorted(gu.inputs.required), sorted(gu.inputs.optional)) != (rs["required"], rs["optional"]):
                ctx.violation("unbind-does-not-restore", wit, f"unbind({b}) -> {gu.inputs}")
        # --- acceptance cases from the REPORTED spec: required + one listed entry point per cycle
        entries = rs["entry"]
        groups = scc_groups(prog, entries)
        bound = {b for b, _ in prog["bound"]}

        def minimal(grp):
            return sorted(grp, key=lambda n: (len(entries[n]), n))[0]
        picks = []
        if groups:
            for gi, grp in enumerate(groups):
                for e in (grp if thorough else [minimal(grp)]):
                    given = set(rs["required"]) | set(entries[e])
                    for gj, other in enumerate(groups):
                        if gj != gi:
                            given |= set(entries[minimal(other)])
                    picks.append((sorted(given - bound), e))   # the documented way to name the entry point
        else:
            picks.append((sorted(set(rs["required"]) - bound), None))
        if groups and ent_r == ent_s:
            # the same inputs WITHOUT naming an entry point: accepted when InputSpec.tla's Accepts says so (exactly one
            # way to enter every cycle); and with the seed of one whole cycle left out: rejected before anything runs
            given0 = set(rs["required"])
            for grp in groups:
                given0 |= set(entries[minimal(grp)])
            jid = len(accept_jobs) + 1
            accept_jobs.append({"id": jid, "prog": prog, "select": sel, "given": sorted(given0 - bound), "entrypoint": IR.NONE})
            plan.append((jid, i, sorted(given0 - bound), None, "accept-implicit"))
            for grp in groups:
                seeds = set().union(*[set(entries[n]) for n in grp])
                g2 = sorted((given0 - seeds) - bound)
                if any(set(entries[n]) <= (set(g2) | bound) for n in grp):
                    continue          # some entry point of the cycle is still satisfied
                members = cycle_members(prog, grp[0])
                touched = {x for n in prog["nodes"] if n["name"] in members for x in n["inputs"] + n["outputs"]}
                if touched & bound:
                    continue          # a bound value inside the cycle bootstraps it (or bypasses its producer: the open C08 finding)
                jid = len(accept_jobs) + 1
                accept_jobs.append({"id": jid, "prog": prog, "select": sel, "given": g2, "entrypoint": IR.NONE})
                plan.append((jid, i, g2, None, "omit-seed:" + "+".join(sorted(grp))))
        if "+all-seeds-bound" in kind and groups:
            # a cycle one of whose entry points has EVERY seed pre-filled by bind() needs nothing from the caller any more
            # (the entry points of it that are still listed are alternatives, not obligations); the other cycles still do
            try:
                rs0, _ = specs.real_spec(dict(prog, bound=[]))
                pre = [set(g0) for g0 in scc_groups(prog, rs0["entry"])
                       if any(rs0["entry"][n] and set(rs0["entry"][n]) <= bound for n in g0)]
            except Exception:  # noqa: BLE001
                pre = []
            if pre:
                given = set(rs["required"])
                for grp in groups:
                    if not any(set(grp) <= g0 for g0 in pre):
                        given |= set(entries[minimal(grp)])
                if ent_r == ent_s:
                    picks.append((sorted(given - bound), None))
        for given, e in picks:
            jid = len(accept_jobs) + 1
            accept_jobs.append({"id": jid, "prog": prog, "select": sel, "given": given, "entrypoint": e or IR.NONE})
            plan.append((jid, i, given, e, "accept"))
            for r in (rs["required"] if thorough else rs["required"][:2]):
                if r in bound:
                    continue
                jid = len(accept_jobs) + 1
                g2 = [x for x in given if x != r]
                accept_jobs.append({"id": jid, "prog": prog, "select": sel, "given": g2, "entrypoint": e or IR.NONE})
                plan.append((jid, i, g2, e, f"omit:{r}"))
    res2, stats2 = specs.spec_eval(accept_jobs)
    ctx.add_tlc(stats2)
    n_acc = n_rej = 0
    for jid, i, given, e, what in plan:
        prog, sel, kind, mode = cfgs[i]
        model_accepts = res2[jid]["accepts"]
        o = real_run(prog, given, mode, sel, entrypoint=e)
        ctx.count()
        ctx.traces()
        wit = {"prog": prog, "select": sel, "given": given, "entrypoint": e, "case": what, "mode": mode, "specified_accepts": model_accepts, "observed": o}
        outs = {x for n in prog["nodes"] for x in n["outputs"]}
        bound_out = [b for b, _ in prog["bound"] if b in outs]
        mix = "Cannot mix compute and inject" in o.get("msg", "") and bound_out
        if what == "accept-implicit":
            if model_accepts and o["outcome"] != "accepted":
                ctx.violation("cycle-entry-not-accepted", wit, f"one entry point per cycle supplied (none named) but rejected: {o.get('exc')}: {o.get('msg', '')[:160]}")
            continue
        if what.startswith("omit-seed:"):
            n_rej += 1
            if o["outcome"] == "accepted":
                ctx.violation("missing-cycle-seed-accepted", wit, f"{what}: no entry point of that cycle is supplied, yet the run was accepted (status {o.get('status')}, {o['calls']} node invocations)")
            elif not o.get("missing_error"):
                ctx.violation("missing-input-wrong-exception", wit, f"{what}: {o.get('exc')}: {o.get('msg', '')[:120]}")
            elif o["calls"] or o["events"] or o["shutdowns"]:
                ctx.violation("rejected-call-had-effects", wit, f"{what}: effects before rejection")
            continue
        if what == "accept":
            n_acc += 1
            if o["outcome"] != "accepted":
                if mix:
                    k = "bound-cycle-value-rejected-as-compute-and-inject"
                elif any(m in o.get("msg", "") for m in ("No entry point for cycle", "Ambiguous cycle entry", "not a valid entry point", "needs:")):
                    k = "cycle-entry-not-accepted"
                else:
                    k = "sufficient-inputs-rejected"
                ctx.violation(k, wit, f"required inputs + one listed entry point rejected: {o.get('exc')}: {o.get('msg', '')[:160]}")
            elif o.get("lack_of_value"):
                ctx.violation("accepted-but-value-missing", wit, f"run failed for lack of a value: {o['err']}")
            elif not model_accepts:
                ctx.divergence("accepted by the implementation, not by InputSpec.tla", {"given": given})
            narrowed = sel != IR.UNSET or prog["selected"] != IR.UNSET
            if (o["outcome"] == "accepted" and o.get("status") == "completed" and narrowed and e is None
                    and all(n["kind"] == "func" for n in prog["nodes"]) and not prog["entry"]):
                # soundness of select narrowing (gate-free acyclic programs): the selected outputs cannot depend on an input
                # the narrowed contract does not list -- supplying EVERY free parameter of the program must not change them
                listed = set(reported[i]["required"]) | set(reported[i]["optional"])
                free = sorted({p for n in prog["nodes"] for p in n["inputs"]} - {x for n in prog["nodes"] for x in n["outputs"]}
                              - {b for b, _ in prog["bound"]} - listed)
                if not free:
                    continue
                o2 = real_run(prog, sorted(set(given) | set(free)), mode, sel)
                ctx.count()
                ctx.traces()
                ctx.bump("narrowing_soundness_cases")
                if o2["outcome"] == "accepted" and o2.get("status") == "completed" and o2["values"] != o["values"]:
                    ctx.violation("selected-output-depends-on-unlisted-input", dict(wit, all_inputs=free, observed_all=o2),
                                  f"with the listed inputs {given}: {o['values']}; with the unlisted parameters {free} supplied as well: {o2['values']}")
        else:
            n_rej += 1
            if o["outcome"] == "accepted":
                k = "missing-required-input-accepted"
                if bypassed_by_bound(prog, what.split(":", 1)[1], given):
                    k = "required-input-of-node-bypassed-by-bound-output"
                ctx.violation(k, wit, f"{what}: run was accepted (status {o.get('status')})")
            elif mix:
                ctx.violation("bound-cycle-value-rejected-as-compute-and-inject", wit, f"{what}: {o.get('msg', '')[:160]}")
            elif not o.get("missing_error"):
                ctx.violation("missing-input-wrong-exception", wit, f"{what}: {o.get('exc')}: {o.get('msg', '')[:120]}")
            elif o["calls"] or o["events"] or o["shutdowns"]:
                ctx.violation("rejected-call-had-effects", wit, f"{what}: {o['calls']} node invocations, {o['events']} events, {o['shutdowns']} shutdowns before rejection")
    ctx.bump("acceptance_cases", n_acc)
    ctx.bump("single_omission_cases", n_rej)
    mid = cfgs[len(cfgs) // 2]
    ctx.sample({"nodes": [(x["name"], x["kind"], x["inputs"], x["outputs"]) for x in mid[0]["nodes"]], "bound": mid[0]["bound"], "selected": mid[0]["selected"],
                "entry": mid[0]["entry"], "run_select": mid[1], "specified": res[len(cfgs) // 2 + 1]})
    ctx.assumptions += ["InputSpec.tla is written from docs/06-api-reference/inputspec.md; TLC checks its laws (disjoint categories, bind moves required->optional, unbind restores, canonical input set accepted, each single omission rejected) on every configuration",
                        "acceptance of an entry point e of a cycle with several entry points is tested with the documented entrypoint=e argument"]
    return ctx.finish(rule="seeded random DAG / gated / cyclic / nested programs x bind (1-2 names) x graph-level select x with_entrypoint x run-time select; per configuration: reported spec vs InputSpec.tla, bind/unbind on the real object, acceptance of required + one entry point per cycle (named, and unnamed where InputSpec.tla's Accepts holds), rejection of a run that leaves the seed of one whole cycle out, rejection (MissingInputError, no call, no event, no shutdown) of each single omitted required input; under a selection (gate-free acyclic programs, emit/wait_for included) the selected values with the listed inputs equal those with every free parameter supplied; distinct = structural hash of (program, select)")


def specs_entry_all(prog):
    return []


def replay(path):
    w = json.load(open(path))["witness"]
    if "given" in w:
        o = real_run(w["prog"], w["given"], w.get("mode", "sync"), w["select"], entrypoint=w.get("entrypoint"))
        print(o)
        bad = (w["case"] == "accept" and (o["outcome"] != "accepted" or o.get("lack_of_value"))) or \
              (w["case"] != "accept" and (o["outcome"] == "accepted" or not o.get("missing_error") or o["calls"] or o["events"] or o["shutdowns"]))
        return 1 if bad else 0
    rs, _ = specs.real_spec(w["prog"])
    res, _ = specs.spec_eval([{"id": 1, "prog": w["prog"], "select": w["select"], "given": [], "entrypoint": IR.NONE}])
    sp = res[1]
    same = (rs["required"], rs["optional"]) == (sp["required"], sp["optional"]) and {k: sorted(v) for k, v in rs["entry"].items()} == {k: sorted(v) for k, v in sp["entry"].items()}
    print(rs, sp)
    return 0 if same else 1
