"""C11 Errors surface unwrapped; partial results are exactly the completed work (DESIGN.md 5/C11)."""
from __future__ import annotations

import copy
import json
import random

from .. import build, enginecheck, gen, predict
from .. import ir as IR
from ..core import Ctx

PID = "C11"


def compare(ctx, job, m, o, tag, failed):
    wit = enginecheck.witness(job, tag, m, o, aux=m["aux"], error_handling=job.get("eh", "continue"))
    if "rejected" in o:
        return False
    eh = job.get("eh", "continue")
    if m["status"] != "failed" or m["err"]["kind"] != "body":
        return False          # the scripted failure is not reached in this run: nothing to check here
    ctx.bump("faults_reached")
    # --- identity of the surfaced exception
    if eh == "raise":
        if o["status"] != "raised":
            return ctx.violation("not-raised", wit, f"error_handling=raise but the call returned status {o['status']}")
        if o["err"]["kind"] != "body":
            return ctx.violation("wrapped-error", wit, f"raised exception is not the node's own exception object: {o['err']}")
        if o["err"]["path"] != m["err"]["path"]:
            return ctx.violation("wrong-error", wit, f"raised the exception of {o['err']['path']}, expected {m['err']['path']}")
        return False
    if o["status"] != "failed":
        return ctx.violation("not-failed", wit, f"status {o['status']}, expected failed")
    if o["err"]["kind"] != "body":
        return ctx.violation("wrapped-error", wit, f"FAILED result does not carry the node's own exception object: {o['err']}")
    if o["err"]["path"] != m["err"]["path"]:
        return ctx.violation("wrong-error", wit, f"carries the exception of {o['err']['path']}, expected {m['err']['path']}")
    # --- partial values: lower <= observed <= upper, equal values
    aux = m["aux"]
    lower = aux["lower"] if isinstance(aux["lower"], dict) else {}
    upper = aux["upper"] if isinstance(aux["upper"], dict) else {}
    for k, v in lower.items():
        if k in o["values"] and o["values"][k] == v:
            continue
        if k in upper and o["values"].get(k) == upper[k]:
            continue   # overwritten by a sibling that completed in the failing step
        return ctx.violation("partial-missing", wit, f"value {k} completed in an earlier step is missing or wrong: {o['values'].get(k)} expected {v}")
    for k, v in o["values"].items():
        if k in upper and upper[k] == v:
            continue
        if k in lower and lower[k] == v:
            continue
        return ctx.violation("partial-extra", wit, f"returned {k}={v}: not a value of completed work (upper bound {upper.get(k)})")
    if m["values"] != o["values"]:
        ctx.divergence("partial values differ from the L2 model inside the bounds", {"job": job["id"]})
    return False


_KIND = [0]


def failing_variants(prog, rng, both_pairs=True):
    """Every node as the failing one (first invocation; second for nodes of cyclic programs)."""
    paths = [p for p, n in IR.all_nodes(prog) if n["kind"] in ("func", "route", "ifelse")]
    for path in paths:
        for idx in (1, 2):
            p2 = copy.deepcopy(prog)
            nd = dict(IR.all_nodes(p2))[path]
            nd["fail_at"] = [idx]
            # what the node raises: no message / falsy / plain / refusing attributes / TypeError about arguments / one of
            # the library's own exception types -- in turn
            _KIND[0] += 1
            nd["exc_kind"] = _KIND[0] % 6
            yield p2, f"fail:{path}#{idx}/exc{nd['exc_kind']}"
    if both_pairs and len(paths) >= 2:
        for _ in range(2):
            a, b = rng.sample(paths, 2)
            p2 = copy.deepcopy(prog)
            d = dict(IR.all_nodes(p2))
            d[a]["fail_at"] = [1]
            d[b]["fail_at"] = [1]
            yield p2, f"fail:{a}+{b}"


def base_programs(rng, n):
    out = []
    tries = 0
    while len(out) < n and tries < 20000:
        tries += 1
        r = rng.random()
        if r < 0.45:
            prog, _ = gen.random_flat(rng, n_nodes=(3, 5), cyclic=0.0, gate=0.0, multi_out=0.3, defaults=0.2, bound=0.2)
            subs = list(gen.convex_subsets(prog))
            if subs and rng.random() < 0.7:
                S = rng.choice(subs)
                prog = gen.nest(prog, S, pos=rng.randint(0, len(prog["nodes"]) - len(S)))
                inner = [n for n in prog["nodes"] if n["kind"] == "graph"][0]
                subs2 = list(gen.convex_subsets(inner["sub"]))
                if subs2 and rng.random() < 0.5:        # depth 2
                    S2 = rng.choice(subs2)
                    inner["sub"] = gen.nest(inner["sub"], S2, name="deep")
                    inner["sub"]["max_iter"] = 1000
            kind = "dag-nested"
        else:
            prog, _ = gen.random_flat(rng, n_nodes=(2, 5), cyclic=0.35, gate=0.6, multi_out=0.2, defaults=0.2, bound=0.1, emit=0.2)
            kind = "flat"
        try:
            prov = build.suggest_inputs(prog, rng)
        except Exception:  # noqa: BLE001
            continue
        out.append((prog, prov, kind))
    return out


def make_pairs(tier, rng):
    thorough = tier == "thorough"
    pairs = []
    for prog, prov, kind in base_programs(rng, 400 if thorough else 90):
        for p2, tag in failing_variants(prog, rng):
            for mode in (("sync", "async") if thorough else (rng.choice(["sync", "async"]),)):
                sel = None
                outs_all = sorted({o2 for _, n2 in IR.all_nodes(p2) if "/" not in _ for o2 in n2["outputs"][: n2["ndata"]]})
                if outs_all and rng.random() < 0.35:
                    sel = rng.sample(outs_all, rng.randint(1, min(2, len(outs_all))))
                j = gen.job(0, p2, prov, mode=mode, select=sel)
                j["eh"] = rng.choice(["continue", "continue", "raise"])
                j["om"] = rng.choice(["ignore", "error", "warn"]) if sel else "ignore"
                o, _, _ = predict.try_real(j, error_handling=j["eh"], on_missing=j["om"])
                if "rejected" in o:
                    continue
                pairs.append((j, f"{kind}/{tag}/{j['eh']}"))
    for i, (j, _) in enumerate(pairs):
        j["id"] = i + 1
    return pairs


def evaluate(ctx, pairs):
    reals = {}
    for eh in ("continue", "raise"):
        for om in ("ignore", "warn", "error"):
            grp = [(j, t) for j, t in pairs if j.get("eh", "continue") == eh and j.get("om", "ignore") == om]
            if grp:
                _, r = enginecheck.evaluate(ctx, grp, PID, compare, real_kw={"error_handling": eh, "on_missing": om})
                reals.update(r)
    return reals


def selftest(ctx, pairs):
    """Perturbed observations must be flagged by the comparator."""
    for j, tag in pairs:
        if j.get("eh") != "continue":
            continue
        res, _ = predict.model_predict([j], prop=PID)
        m = res[j["id"]]
        if m["status"] != "failed" or not m["aux"]["lower"]:
            continue
        o, _, _ = predict.try_real(j)
        probe = Ctx(PID, ctx.tier, ctx.seed, ctx.level)
        probe.violation = lambda *a, **k: True
        b1 = copy.deepcopy(o)
        b1["values"].pop(sorted(m["aux"]["lower"])[0], None)
        b2 = copy.deepcopy(o)
        b2["values"]["zz"] = "bogus"
        b3 = copy.deepcopy(o)
        b3["err"] = {"path": IR.NONE, "kind": "other:RuntimeError"}
        if not (compare(probe, j, m, b1, tag, []) and compare(probe, j, m, b2, tag, []) and compare(probe, j, m, b3, tag, [])):
            raise RuntimeError("binding self-test failed")
        ctx.bump("binding_selftests", 3)
        return
    raise RuntimeError("binding self-test: no suitable failed run")


def run(tier, seed):
    ctx = Ctx(PID, tier, seed, "fault_enumeration")
    rng = random.Random(seed)
    pairs = make_pairs(tier, rng)
    selftest(ctx, pairs)
    reals = evaluate(ctx, pairs)
    for j, _ in pairs:
        ctx.distinct(IR.struct_hash([j["prog"], j["provided"], j["mode"], j["eh"]]))
    mid = pairs[len(pairs) // 2]
    ctx.sample({"fault": mid[1], "mode": mid[0]["mode"], "observed": {k: reals[mid[0]["id"]].get(k) for k in ("status", "err", "values")}})
    ctx.assumptions += ["failing bodies raise a pre-recorded exception object; identity is checked with `is`",
                        "partial-value bounds are computed by TLC on the engine model (lower: state before the failing step; upper: all successful siblings) and the model is checked against HGProps!C11 (INVARIANT L1Holds)",
                        "interrupt handlers are excluded from failure injection (the code wraps their failures on purpose)"]
    return ctx.finish(rule="fault enumeration: every function/gate node (at every nesting depth <= 2) of every generated program (DAG with nested graphs; gated/cyclic flat) as the failing node at its 1st and 2nd invocation, plus pairs failing in the same run, x error_handling in {continue, raise} x runner; distinct = structural hash incl. fault position")


def replay(path):
    w = json.load(open(path))["witness"]
    ctx = Ctx(PID, "quick", 0, "fault_enumeration")
    evaluate(ctx, [(w["job"], w.get("tag", "replay"))])
    return 1 if ctx.violations else 0
