"""C14 Interrupts pause before dependants run and resume to the same result (DESIGN.md 5/C14)."""
from __future__ import annotations

import copy
import json
import random

from .. import build, gen, predict
from .. import ir as IR
from ..core import Ctx

PID = "C14"


def to_interrupts(rng, prog, max_n=3):
    """Turn 1..max_n data-producing function nodes of a DAG into interrupts (single / multi output)."""
    cand = [n for n in prog["nodes"] if n["kind"] == "func" and n["ndata"] >= 1 and n["inputs"]]
    if not cand:
        return None
    chosen = rng.sample(cand, rng.randint(1, min(max_n, len(cand))))
    for n in chosen:
        n["kind"] = "interrupt"
        n["defaults"] = []
        n["fn"] = "term"
        n["pause_at"] = [1] if rng.random() < 0.8 else []
        n["is_async"] = rng.random() < 0.5          # the handler is an `async def` (it pauses by returning None all the same)
        if not n["is_async"] and rng.random() < 0.4:
            n["handler_kind"] = "future"            # ... or a plain function handing back a Future (run_in_executor style)
        if len(n["inputs"]) >= 2 and rng.random() < 0.4:
            # the interrupt's first two inputs were exchanged by ONE with_inputs() call: the value shown to the human is
            # that of the first CURRENT input name
            a, b = n["inputs"][0], n["inputs"][1]
            pm = dict(map(tuple, n["pmap"]))
            pm[a], pm[b] = pm[b], pm[a]
            n["pmap"] = [[p, pm[p]] for p in n["inputs"]]
        if rng.random() < 0.35:       # the human's answer is a FALSY value ("" / [] / 0 / False)
            # ... or a value whose comparison has no truth value (array-like), or (single output) a dict
            pool = sorted(IR.FALSY) + ["~arr"] + (["~dict"] if n["ndata"] == 1 else [])
            n["answers"] = [rng.choice(pool) for _ in range(n["ndata"])]
        if rng.random() < 0.35 and len(n["outputs"]) == n["ndata"]:
            # the interrupt also emits an ordering signal that a separate node waits for
            sig = f"sig_{n['name']}"
            n["outputs"] = n["outputs"] + [sig]
            n["olabels"] = n["olabels"] + [sig]
            prog["nodes"].append(IR.func(f"W_{n['name']}", [n["inputs"][0]], [f"w_{n['name']}"], wait_for=[sig]))
    # defaults must stay consistent across consumers of a name
    dpar = {p for n in prog["nodes"] for p in n["defaults"]}
    for n in prog["nodes"]:
        if n["kind"] == "func":
            n["defaults"] = [p for p in n["inputs"] if p in dpar and all(p not in m["inputs"] or m["kind"] != "interrupt" for m in prog["nodes"])]
            n["inputs"] = [p for p in n["inputs"] if p not in n["defaults"]] + n["defaults"]
            n["pmap"] = [[p, p] for p in n["inputs"]]
    return [n["name"] for n in chosen]


def depends_on(prog, src, node, cut=()):
    """node (transitively) consumes an output of src (declared dependencies by name); a name whose
    value the caller supplied (`cut`) carries no dependency."""
    byname = {n["name"]: n for n in prog["nodes"]}
    S = {src}
    while True:
        outs = {o for s in S for o in byname[s]["outputs"]} - set(cut)
        nxt = S | {n["name"] for n in prog["nodes"] if outs & (set(n["inputs"]) | set(n["wait_for"]))}
        if nxt == S:
            return node in S and node != src
        S = nxt


def base_cases(rng, n):
    out = []
    tries = 0
    while len(out) < n and tries < 20000:
        tries += 1
        prog, _ = gen.random_flat(rng, n_nodes=(3, 6), cyclic=0.0, gate=0.0, multi_out=0.3, side_effect=0.05, defaults=0.15, bound=0.15)
        ints = to_interrupts(rng, prog)
        if not ints:
            continue
        used = {p for x in prog["nodes"] for p in x["inputs"]}
        outs = {o for x in prog["nodes"] for o in x["outputs"]}
        bnd = {b for b, _ in prog["bound"]}
        dpar = {p for x in prog["nodes"] for p in x["defaults"]}
        base = [[p, f"in.{p}"] for p in sorted(used - outs) if p not in bnd and (p not in dpar or rng.random() < 0.5)]
        j = gen.job(0, prog, base, mode="async")
        o, _, _ = predict.try_real(j)
        if "rejected" in o:
            continue
        kind = "flat"
        out.append((prog, base, ints, kind))
    return out


def hitl_loop(script):
    """Documented human-in-the-loop chat loop (docs/03-patterns/07-human-in-the-loop.md): the interrupt is
    the first step of a gate-driven cycle whose gate waits for the end-of-turn signal; `messages` is bound."""
    ask = IR.interrupt("ask_user", ["messages"], ["user_input"], pause_at=[1, 2, 3])
    add = IR.func("add_user_message", ["messages", "user_input"], ["messages"])
    genr = IR.func("generate", ["messages"], ["response"])
    acc = IR.normalize_node(dict(name="accumulate", kind="func", inputs=["messages", "response"], outputs=["messages", "turn_done"], ndata=1))
    gate = IR.route("should_continue", ["messages"], ["ask_user", "END"], script, wait_for=["turn_done"])
    return IR.prog("top", [ask, add, genr, acc, gate], bound=[["messages", "bound.top.messages"]], max_iter=6)


def nested_cases(rng, n):
    """An interrupt inside a nested graph (depth 1-2): pause identity only."""
    out = []
    for _ in range(n):
        inner = IR.prog("inner", [IR.func("P", ["x"], ["p"]), IR.interrupt("ask", ["p"], ["answer"], pause_at=[1]), IR.func("Q", ["answer"], ["q"])], max_iter=1000)
        if rng.random() < 0.5:
            mid = IR.prog("mid", [IR.graph_node(inner, inputs=["x"], outputs=["p", "answer", "q"]), IR.func("M", ["q"], ["m"])], max_iter=1000)
            top = IR.prog("top", [IR.func("S", ["x"], ["s"]), IR.graph_node(mid, inputs=["x"], outputs=["p", "answer", "q", "m"]), IR.func("T", ["m", "s"], ["t"])])
            expect = "mid/inner/ask"
        else:
            top = IR.prog("top", [IR.func("S", ["x"], ["s"]), IR.graph_node(inner, inputs=["x"], outputs=["p", "answer", "q"]), IR.func("T", ["q", "s"], ["t"])])
            expect = "inner/ask"
        out.append((top, [["x", "in.x"]], expect))
    # the wrapping node has a name of its OWN (as_node(name="review")): the pause is addressed through the node, not the graph
    inner = IR.prog("inner", [IR.func("P", ["x"], ["p"]), IR.interrupt("ask", ["p"], ["answer"], pause_at=[1]), IR.func("Q", ["answer"], ["q"])], max_iter=1000)
    top = IR.prog("top", [IR.func("S", ["x"], ["s"]), IR.graph_node(inner, name="review", inputs=["x"], outputs=["p", "answer", "q"]), IR.func("T", ["q", "s"], ["t"])])
    out.append((top, [["x", "in.x"]], "review/ask"))
    # a multi-output interrupt inside a graph node whose NAME contains the first output's name
    inner = IR.prog("answers", [IR.func("P", ["x"], ["p"]), IR.interrupt("ask", ["p"], ["answer", "score"], pause_at=[1]),
                                 IR.func("Q", ["answer", "score"], ["q"])], max_iter=1000)
    top = IR.prog("top", [IR.func("S", ["x"], ["s"]), IR.graph_node(inner, name="answers", inputs=["x"], outputs=["p", "answer", "score", "q"]), IR.func("T", ["q", "s"], ["t"])])
    out.append((top, [["x", "in.x"]], "answers/ask"))
    return out


def cached_interrupt_history(ctx):
    """An interrupt declared cache=True ("a previously auto-resolved response is replayed without re-running the
    handler") on a runner with a cache: pause, resume with one response, resume with ANOTHER response.  Every run must
    end exactly like the same run on a runner without a cache: the response the caller supplies is what passes the
    interrupt."""
    import asyncio
    import warnings
    from hypergraph import AsyncRunner, InMemoryCache
    X = [["x", "in.x"]]
    scenarios = [
        # the handler always pauses: pause, resume with one response, with ANOTHER one, with the first again
        ([1, 2, 3, 4], [X, X + [["decision", "yes"]], X + [["decision", "no"]], X + [["decision", "yes"]]]),
        # ... and a run WITHOUT a response after a resumed one pauses again (a supplied response is not a cache entry)
        ([1, 2, 3, 4], [X, X + [["decision", "HUMAN"]], X]),
        ([1, 2, 3, 4], [X + [["decision", "HUMAN"]], X, X + [["decision", "no"]], X]),
        # the handler answers by itself (auto-resolved, cached): a supplied response still wins once and is forgotten
        ([], [X, X + [["decision", "HUMAN"]], X]),
        ([], [X + [["decision", "HUMAN"]], X, X]),
    ]
    scenarios = [(pa, h, emit) for pa, h in scenarios for emit in (False, True)]
    for pause_at, history, emit in scenarios:
        # emit: the cached interrupt also emits an ordering signal (an output that is never among the supplied values)
        prog = IR.prog("top", [IR.func("make", ["x"], ["draft"]),
                               IR.interrupt("approval", ["draft"], ["decision"] + (["approved_sig"] if emit else []), ndata=1, pause_at=pause_at, cache=True),
                               IR.func("finalize", ["decision"], ["result"], wait_for=["approved_sig"] if emit else [])])
        outs = {}
        for label, cache in (("cached", InMemoryCache()), ("uncached", None)):
            rt = build.Runtime(prog)
            with warnings.catch_warnings():
                warnings.simplefilter("ignore")
                g = build.build_graph(rt, prog)
                runner = AsyncRunner(cache=cache)
                res = []
                for prov in history:
                    rt.reset()
                    r = asyncio.run(runner.run(g, dict(map(tuple, prov)), error_handling="continue"))
                    res.append({"status": r.status.value, "values": {k: IR.canon(v) for k, v in r.values.items()}})
            outs[label] = res
        ctx.count()
        ctx.traces()
        for k, (a, b) in enumerate(zip(outs["cached"], outs["uncached"])):
            if a != b:
                ctx.violation("cached-interrupt-overrides-supplied-response", {"program": prog, "history": history, "run": k, "cached": a, "uncached": b},
                              f"run {k + 1} of the history (inputs {history[k]}, handler {'pauses' if pause_at else 'answers'}): with a cache {a}, without {b}")
                return
    ctx.bump("cached_interrupt_histories")


def run(tier, seed):
    ctx = Ctx(PID, tier, seed, "model_checking")
    rng = random.Random(seed)
    thorough = tier == "thorough"
    cases = base_cases(rng, 500 if thorough else 120)
    chains = []
    for prog, base, ints, kind in cases:
        byname = {n["name"]: n for n in prog["nodes"]}
        pre = []
        if rng.random() < 0.25:      # history variant: an answer supplied before it was asked for
            i = rng.choice(ints)
            pre = [[o, IR.answer_text(byname[i], jx)] for jx, o in enumerate(byname[i]["outputs"][: byname[i]["ndata"]])]
        chains.append({"prog": prog, "base": base, "provided": base + pre, "done": False, "pauses": [], "stage": 0, "ints": ints})
        ctx.distinct(IR.struct_hash([prog, base, pre]))
    # two chained interrupts behind a producer; the first answer is an array-like value (its comparison has no truth
    # value) / a dict / a falsy value: once both answers are supplied the run must complete
    for ans in ("~arr", "~dict", "0", ""):
        cprog = IR.prog("top", [IR.func("P", ["x"], ["p"]),
                                IR.interrupt("I1", ["p"], ["a1"], pause_at=[1], answers=[ans]),
                                IR.interrupt("I2", ["a1"], ["a2"], pause_at=[1]),
                                IR.func("Q", ["a2", "p"], ["q"])])
        chains.append({"prog": cprog, "base": [["x", "in.x"]], "provided": [["x", "in.x"]], "done": False, "pauses": [], "stage": 0, "ints": ["I1", "I2"]})
        ctx.distinct(IR.struct_hash([cprog, "chained", ans]))
    # an interrupt BEHIND a gate: gate and interrupt become runnable in the same step; the interrupt's handler is reached only
    # if the gate routes to it
    for dec in ("approval", "auto"):
        for dopen in (True, False):
            for order in (0, 1):
                G = IR.ifelse("G", ["draft"], "approval", "auto", [[dec]], default_open=dopen)
                mk = IR.func("make", ["x"], ["draft"])
                ap = IR.interrupt("approval", ["draft"], ["decision"], pause_at=[1])
                au = IR.func("auto", ["draft"], ["auto_decision"])
                nodes = [mk, G, ap, au] if order == 0 else [ap, au, G, mk]
                gprog = IR.prog("top", nodes, max_iter=10)
                chains.append({"prog": gprog, "base": [["x", "in.x"]], "provided": [["x", "in.x"]], "done": False, "pauses": [], "stage": 0, "ints": ["approval"]})
                ctx.distinct(IR.struct_hash([gprog, "gated-interrupt"]))
    for script in ([["END"]], [["ask_user"], ["END"]]):
        prog = hitl_loop(script)
        chains.append({"prog": prog, "base": [], "provided": [], "done": False, "pauses": [], "stage": 0, "ints": ["ask_user"], "cyclic": True})
        ctx.distinct(IR.struct_hash([prog, "hitl"]))
    # the auto-answering real run (handlers return the answers themselves)
    for ch in chains:
        auto = copy.deepcopy(ch["prog"])
        for n in auto["nodes"]:
            n["pause_at"] = []
        o, _, _ = predict.try_real(gen.job(0, auto, ch["base"], mode="async"))
        ch["auto"] = o
    for stage in range(5):
        live = [ch for ch in chains if not ch["done"]]
        if not live:
            break
        jobs = []
        for k, ch in enumerate(live):
            j = gen.job(k + 1, ch["prog"], ch["provided"], mode="async")
            j["base"] = ch["base"]
            j["literal_keys"] = sorted(o for n in ch["prog"]["nodes"] if n["kind"] == "interrupt" and n["answers"] for o in n["outputs"][: n["ndata"]])
            jobs.append(j)
        res, stats = predict.model_predict(jobs, prop=PID)
        ctx.add_tlc(stats)
        for j, ch in zip(jobs, live):
            m = res[j["id"]]
            o, rt, r = predict.try_real(j)
            ctx.count()
            ctx.traces()
            byname = {n["name"]: n for n in ch["prog"]["nodes"]}
            wit = {"job": j, "stage": stage, "pauses_so_far": ch["pauses"], "model": {x: m[x] for x in ("status", "values", "pause")},
                   "observed": o if "rejected" in o else {x: o[x] for x in ("status", "values", "pause", "err")}}
            ch["done"] = True
            if "rejected" in o:
                ctx.violation("resume-rejected", wit, f"run with answers supplied rejected: {o}")
                continue
            if o["status"] != m["status"]:
                ctx.violation("status", wit, f"status {o['status']} expected {m['status']}")
                continue
            if o["status"] == "paused":
                pz = o["pause"]
                node = byname.get(pz["path"])
                if node is None or node["kind"] != "interrupt":
                    ctx.violation("pause-identity", wit, f"pause names {pz['path']}, not an interrupt node")
                    continue
                if pz["path"] != m["pause"]["path"] or pz["key"] != m["pause"]["key"] or pz["value"] != m["pause"]["value"]:
                    ctx.violation("pause-info", wit, f"pause {pz} expected {m['pause']}")
                    continue
                # everything shown to the human: with several inputs `values` maps every CURRENT input name to the value the
                # handler received for the parameter behind it; with several outputs `output_params` lists the keys to answer
                last = [c for c in o["calls"] if c["path"] == pz["path"]][-1]
                by_orig = dict(map(tuple, last["args"]))
                pm = dict(map(tuple, node["pmap"]))
                want_vals = {cur: by_orig[pm[cur]] for cur in node["inputs"]} if len(node["inputs"]) > 1 else None
                if pz.get("values") != want_vals:
                    ctx.violation("pause-values", wit, f"pause.values {pz.get('values')} but the handler received {want_vals} (by current input name)")
                    continue
                want_keys = node["outputs"][: node["ndata"]] if node["ndata"] > 1 else None
                if pz.get("output_params") != want_keys:
                    ctx.violation("pause-output-params", wit, f"pause.output_params {pz.get('output_params')} expected {want_keys}")
                    continue
                if pz["response_key"] != pz["key"]:
                    ctx.violation("response-key", wit, f"top-level response key {pz['response_key']} != output {pz['key']}")
                    continue
                ran = {c["node"] for c in o["calls"]}
                bad = sorted(n for n in ran if depends_on(ch["prog"], pz["path"], n, cut=[k2 for k2, _ in ch["provided"]]))
                if bad and not ch.get("cyclic"):      # in a loop the dependants of the previous turn have run
                    ctx.violation("dependant-ran-before-answer", wit, f"{bad} depend on {pz['path']} and were invoked before the answer")
                    continue
                if o["values"] != m["values"]:
                    ctx.violation("paused-values", wit, f"values at pause {o['values']} expected {m['values']}")
                    continue
                for k2, v in ({} if ch.get("cyclic") else o["values"]).items():
                    if ch["auto"]["values"].get(k2) != v and k2 not in dict(map(tuple, ch["provided"])):
                        ctx.violation("paused-value-incorrect", wit, f"{k2}={v} differs from the uninterrupted run {ch['auto']['values'].get(k2)}")
                        break
                else:
                    if pz["path"] in ch["pauses"] and not ch.get("cyclic"):
                        ctx.violation("paused-twice", wit, f"{pz['path']} paused again although its answer was supplied")
                        continue
                    if ch.get("cyclic"):
                        ctx.bump("pauses_inside_a_loop")
                    if ch.get("cyclic") and len(ch["pauses"]) >= 2:
                        continue          # every resume of the stateless chat loop handles one turn: two stages suffice
                    ch["pauses"].append(pz["path"])
                    ans = [[o2, IR.answer_text(node, jx)] for jx, o2 in enumerate(node["outputs"][: node["ndata"]])]
                    have = dict(map(tuple, ch["provided"]))
                    ch["provided"] = ch["provided"] + [a for a in ans if a[0] not in have]
                    ch["done"] = False
                    ch["stage"] += 1
                continue
            if o["status"] == "completed":
                if o["values"] != ch["auto"]["values"] and not (ch.get("cyclic") and ch["auto"]["status"] != "completed"):
                    d = {k2: (o["values"].get(k2), ch["auto"]["values"].get(k2)) for k2 in set(o["values"]) | set(ch["auto"]["values"]) if o["values"].get(k2) != ch["auto"]["values"].get(k2)}
                    ctx.violation("resume-result-differs", wit, f"after resuming, values differ from the run whose handlers answer themselves: {d}")
                    continue
                if o["values"] != m["values"]:
                    ctx.violation("final-values-vs-model", wit, f"{o['values']} expected {m['values']}")
                ctx.bump(f"chains_with_{len(ch['pauses'])}_pauses")
                continue
            ctx.violation("unexpected-status", wit, f"{o['status']} {o['err']}")
    cached_interrupt_history(ctx)
    # nested pause identity
    for prog, base, expect in nested_cases(rng, 6 if thorough else 3):
        j = gen.job(1, prog, base, mode="async")
        res, stats = predict.model_predict([j], prop="none")
        ctx.add_tlc(stats)
        o, _, _ = predict.try_real(j)
        ctx.count()
        ctx.traces()
        m = res[1]
        wit = {"job": j, "expected_path": expect, "model": m["pause"], "observed": o.get("pause"), "status": o.get("status")}
        if m["status"] != "paused" or m["pause"]["path"] != expect:
            raise RuntimeError(f"model does not pause at the nested interrupt: {m['status']} {m['pause']}")
        if o.get("status") != "paused" or o["pause"]["path"] != expect:
            ctx.violation("nested-pause-identity", wit, f"expected pause at {expect}, got {o.get('status')} {o.get('pause')}")
            continue
        want_key = ".".join(expect.split("/")[:-1]) + ".answer"
        if o["pause"]["response_key"] != want_key or o["pause"]["value"] != m["pause"]["value"]:
            ctx.violation("nested-pause-info", wit, f"response_key {o['pause']['response_key']} (expected {want_key}), value {o['pause']['value']} (expected {m['pause']['value']})")
            continue
        prefix = ".".join(expect.split("/")[:-1]) + "."
        inode = [n for pth, n in IR.all_nodes(prog) if pth == expect][0]
        want_keys = {o2: prefix + o2 for o2 in inode["outputs"][: inode["ndata"]]}
        if o["pause"]["response_keys"] != want_keys:
            ctx.violation("nested-response-keys", wit, f"response_keys {o['pause']['response_keys']} expected {want_keys}")
            continue
        ran = {c["node"] for c in o["calls"]}
        if ran & {"Q", "M", "T"}:
            ctx.violation("nested-dependant-ran", wit, f"nodes {sorted(ran & {'Q', 'M', 'T'})} ran although they depend on the unanswered interrupt")
        ctx.distinct("nested/" + expect)
    mid = chains[len(chains) // 2]
    ctx.sample({"nodes": [(n["name"], n["kind"], n["inputs"], n["outputs"], n["pause_at"]) for n in mid["prog"]["nodes"]], "pauses_in_order": mid["pauses"]})
    ctx.assumptions += ["answers are the strings the handlers themselves return when they do not pause, so 'as if the handler had returned that response' is an equality of results",
                        "nested interrupts: pause identity (path, key, value, idle dependants) only - resuming through a nested key is not implemented by the library and not claimed by the property",
                        "TLC checks HGProps!C14 on the model at every stage of every chain (INVARIANT L1Holds)"]
    return ctx.finish(rule="seeded random DAGs (3-6 nodes) with 1..3 interrupts at random positions (single/multi output, some auto-answering), full pause/resume chains (answers accumulated; optionally one answer supplied before it is asked for), AsyncRunner; nested interrupts at depth 1-2 for pause identity; distinct = structural hash of (program, inputs, pre-supplied answers)")


def replay(path):
    w = json.load(open(path))["witness"]
    j = w["job"]
    o, _, _ = predict.try_real(j)
    j2 = dict(j)
    res, _ = predict.model_predict([j2], prop="none")
    m = res[j2["id"]]
    same = "rejected" not in o and o["status"] == m["status"] and o["values"] == m["values"] and (o["status"] != "paused" or o["pause"]["path"] == m["pause"]["path"])
    print(o.get("status"), m["status"], same)
    return 0 if same else 1
