"""C18 Run isolation: no state leaks between runs; caller-owned objects untouched (DESIGN.md 5/C18)."""
from __future__ import annotations

import asyncio
import json
import os
import random
import warnings

from hypergraph import AsyncRunner, Graph, SyncRunner
from hypergraph.nodes.function import FunctionNode

from .. import tlc
from ..core import Ctx

PID = "C18"


class World:
    """One real graph whose node mutates what it receives; gates let the driver interleave runs."""

    def __init__(self, nested, is_async, shape=None):
        shape = shape or {}
        self.shape = shape
        self.records = {}          # mark -> dict(ids, seen)
        self.keep = []             # keep every received object alive (ids must not be recycled)
        self.gates = {}
        self.parked = {}
        w = self

        if is_async:
            async def work(inp, mark, store, acc=[], opts={"k": []}, box=([], "log"), aux=None, aux2=None):          # noqa: B006 - mutable defaults on purpose
                w.keep += [inp, store, acc, opts, box, box[0], aux, aux2]
                w.records[mark] = {"acc_id": id(acc), "opts_id": id(opts), "box_id": id(box[0]), "store_id": id(store), "inp_id": id(inp), "aux_id": id(aux), "aux2_id": id(aux2)}
                await w.gate(mark, "resolved")
                acc.append(mark)
                opts["k"].append(mark)
                box[0].append(mark)          # a mutable object INSIDE an immutable default
                store.append(mark)
                inp.append(mark)
                await w.gate(mark, "mutated")
                w.records[mark]["seen"] = (list(acc), {k: list(v) for k, v in opts.items()}, list(box[0]))
                return (tuple(acc), tuple(opts["k"]), tuple(box[0]))
        else:
            def work(inp, mark, store, acc=[], opts={"k": []}, box=([], "log"), aux=None, aux2=None):                # noqa: B006
                w.keep += [inp, store, acc, opts, box, box[0], aux, aux2]
                w.records[mark] = {"acc_id": id(acc), "opts_id": id(opts), "box_id": id(box[0]), "store_id": id(store), "inp_id": id(inp), "aux_id": id(aux), "aux2_id": id(aux2)}
                acc.append(mark)
                opts["k"].append(mark)
                box[0].append(mark)          # a mutable object INSIDE an immutable default
                store.append(mark)
                inp.append(mark)
                w.records[mark]["seen"] = (list(acc), {k: list(v) for k, v in opts.items()}, list(box[0]))
                return (tuple(acc), tuple(opts["k"]), tuple(box[0]))
        self.func = work
        self.bound_obj = []
        # shape "sink": a side-effect-only node (no outputs), like a logger or a gate, still gets fresh defaults
        node = FunctionNode(work, name="work") if shape.get("sink") else FunctionNode(work, name="work", output_name="out")
        bind_at = shape.get("bind_at", "outer") if nested else "outer"
        side = FunctionNode(lambda mark: ("side", mark), name="side", output_name="side_out")
        with warnings.catch_warnings():
            warnings.simplefilter("ignore")
            if nested:
                inner = Graph([node], name="inner")
                if bind_at != "outer":
                    inner = inner.bind(store=self.bound_obj)          # the binding lives in the nested graph
                gn = inner.as_node()
                if bind_at == "inner_renamed":
                    gn = gn.with_inputs(store="book")                # ... and is exposed under another name
                if shape.get("mapped") and shape.get("swap"):
                    # the mapped input and the default-valued parameter exchange their names on the wrapper (one call)
                    gn = gn.with_inputs(inp="acc", acc="inp")
                ra = shape.get("rename_aux")
                if shape.get("mapped") and ra == "before":
                    gn = gn.with_inputs(aux="helper")               # ONE of the cloned broadcast inputs is renamed on the wrapper
                if shape.get("mapped"):
                    cl = shape.get("clone")
                    if isinstance(cl, list) and ra == "before":
                        cl = ["helper" if c == "aux" else c for c in cl]
                    gn = gn.map_over("acc" if shape.get("swap") else "inp", "mark", clone=list(cl) if isinstance(cl, list) else bool(cl))   # every item is a run of the nested graph
                if shape.get("mapped") and ra == "after":
                    gn = gn.with_inputs(aux="helper")
                if shape.get("mapped") and ra == "swap":
                    gn = gn.with_inputs(aux="aux2", aux2="aux")      # ONE call exchanging the cloned and the shared broadcast input
                g = Graph([gn] + ([side] if shape.get("side") else []))
            else:
                g = Graph([node] + ([side] if shape.get("side") else []))
            if bind_at == "outer":
                g = g.bind(store=self.bound_obj)
            if shape.get("side") and shape.get("select_side"):
                g = g.select("side_out")                             # narrowed to an output that does not need `work` (it still runs)
            self.graph = g

    def call_args(self, inputs):
        """(values, kwargs) according to the call style: everything in the dict, `mark` as a keyword
        argument next to the dict, or keyword arguments only."""
        style = self.shape.get("call", "dict")
        if style == "mixed":
            d = {k: v for k, v in inputs.items() if k != "mark"}
            return d, {"mark": inputs["mark"]}
        if style == "kwargs":
            return None, dict(inputs)
        return inputs, {}

    async def gate(self, mark, stage):
        fut = asyncio.get_running_loop().create_future()
        self.parked[(mark, stage)] = fut
        await fut


async def settle(n=30):
    for _ in range(n):
        await asyncio.sleep(0)


async def replay_async(sched, nested, same_runner, shape=None):
    """Drive the real AsyncRunner along a TLC schedule of resolve/mutate/finish steps."""
    w = World(nested, True, shape)
    runners = {}
    tasks, inputs, results = {}, {}, {}
    shared = AsyncRunner()
    for op, r in sched:
        if op == "resolve":
            inp = []
            base_in = {"inp": inp, "mark": r}
            if w.shape.get("opt_some") and r % 2 == 0:
                base_in["acc"] = []          # this run passes its OWN list for the default-valued parameter; later runs must not see it
            vals, kw = w.call_args(base_in)
            inputs[r] = vals if vals is not None else kw
            inputs[r + 1000] = (dict(inputs[r]), {k: id(v) for k, v in inputs[r].items()})
            inputs[r + 2000] = inp
            runner = shared if same_runner else AsyncRunner()
            tasks[r] = asyncio.ensure_future(runner.run(w.graph, vals, on_internal_override="ignore", **kw) if vals is not None else runner.run(w.graph, on_internal_override="ignore", **kw))
            await settle()
            if (r, "resolved") not in w.parked:
                return None, f"run {r} did not reach its body"
        elif op == "mutate":
            w.parked.pop((r, "resolved")).set_result(None)
            await settle()
        else:
            w.parked.pop((r, "mutated")).set_result(None)
            results[r] = await tasks[r]
    return (w, inputs, results), None


def replay_sync(order, nested, modes, same_runner, shape=None):
    w = World(nested, False, shape)
    wa = None
    inputs, results = {}, {}
    sr = SyncRunner()
    for r in order:
        inp = []
        base_in = {"inp": inp, "mark": r}
        if w.shape.get("opt_some") and r % 2 == 0:
            base_in["acc"] = []
        vals, kw = w.call_args(base_in)
        inputs[r] = vals if vals is not None else kw
        inputs[r + 1000] = (dict(inputs[r]), {k: id(v) for k, v in inputs[r].items()})
        inputs[r + 2000] = inp
        runner = sr if same_runner else SyncRunner()
        results[r] = runner.run(w.graph, vals, on_internal_override="ignore", **kw) if vals is not None else runner.run(w.graph, on_internal_override="ignore", **kw)
    return (w, inputs, results), None


def verdicts(ctx, w, inputs, results, wit):
    runs = sorted(r for r in results)
    narrowed = bool(w.shape.get("side") and w.shape.get("select_side")) or bool(w.shape.get("sink"))
    d0 = w.func.__defaults__
    if d0[0] != [] or d0[1] != {"k": []} or d0[2] != ([], "log"):
        ctx.violation("signature-default-mutated", wit, f"the function's own default objects now hold {d0}")
        return
    seen_ids = set()
    for r in runs:
        rec = w.records[r]
        res = results[r]
        if res.status.value != "completed":
            ctx.violation("run-failed", wit, f"run {r}: {res.status} {res.error}")
            return
        got = (tuple(rec["seen"][0]), tuple(rec["seen"][1]["k"]), tuple(rec["seen"][2])) if narrowed else res.values.get("out")
        if got != ((r,), (r,), (r,)):
            ctx.violation("state-leaked-between-runs", wit, f"run {r} returned {got}, alone it returns {((r,), (r,), (r,))}")
            return
        if narrowed and not set(res.values) <= {"side_out"}:
            raise RuntimeError(f"harness: narrowed graph returned {sorted(res.values)}")
        own_acc = "acc" in inputs[r]
        if own_acc:
            if rec["acc_id"] != id(inputs[r]["acc"]):
                ctx.violation("provided-value-copied", wit, f"run {r}: the list passed for the default-valued parameter did not reach the node as the caller's object")
                return
            seen_ids |= {rec["opts_id"], rec["box_id"]}
            if rec["store_id"] != id(w.bound_obj):
                ctx.violation("bound-value-copied", wit, f"run {r}: the bound object did not reach the node as the very object that was bound")
                return
            continue
        if rec["acc_id"] == id(d0[0]) or rec["opts_id"] == id(d0[1]) or rec["box_id"] == id(d0[2][0]):
            ctx.violation("default-not-copied", wit, f"run {r} received the function's own default object")
            return
        if rec["acc_id"] in seen_ids or rec["opts_id"] in seen_ids or rec["box_id"] in seen_ids:
            ctx.violation("default-copy-shared-between-runs", wit, f"run {r} received a default copy another run also received")
            return
        seen_ids |= {rec["acc_id"], rec["opts_id"], rec["box_id"]}
        if rec["store_id"] != id(w.bound_obj):
            ctx.violation("bound-value-copied", wit, f"run {r}: the bound object did not reach the node as the very object that was bound")
            return
        if rec["inp_id"] != id(inputs[r + 2000]):
            ctx.violation("provided-value-copied", wit, f"run {r}: the provided object did not reach the node as the caller's object")
            return
        before, ids = inputs[r + 1000]
        if set(inputs[r]) != set(before) or any(id(inputs[r][k]) != ids[k] for k in before):
            ctx.violation("caller-mapping-modified", wit, f"run {r}: the caller's input mapping changed: {sorted(inputs[r])} vs {sorted(before)}")
            return
    if sorted(w.bound_obj) != runs:
        ctx.violation("bound-object-not-shared", wit, f"bound object holds {w.bound_obj}, expected the marks of all runs {runs}")


_SHARED_RUNNERS = {}


def replay_mapped(n, is_async, bind_at, via_runner_map, clone=False, swap=False, rename_aux=None):
    """The items of a map are runs of the mapped graph (sequential history 1..n of Isolation.tla):
    a mapping GraphNode (zip over inp/mark) or runner.map over the same nested graph."""
    rename_aux = None if via_runner_map else rename_aux
    w = World(True, False, {"bind_at": bind_at, "mapped": not via_runner_map, "clone": clone, "swap": swap and not via_runner_map, "rename_aux": rename_aux})
    marks = list(range(1, n + 1))
    inps = [[] for _ in marks]
    w.aux, w.aux2 = ["aux"], (["aux2"], "tag")          # broadcast values owned by the caller (a list; a tuple holding a list)
    values = {("acc" if swap and not via_runner_map else "inp"): inps, "mark": marks, ("helper" if rename_aux else "aux"): w.aux, "aux2": w.aux2}
    if rename_aux == "swap":
        values.pop("helper")
        values.update(aux2=w.aux, aux=w.aux2)
    # ONE runner per kind serves all these replays (graphs whose mapping node has the same name but another
    # configuration follow each other on it): nothing a runner keeps may carry over from one graph to the next
    runner = _SHARED_RUNNERS.setdefault(is_async, AsyncRunner() if is_async else SyncRunner())
    if via_runner_map:
        call = runner.map(w.graph, values, map_over=["inp", "mark"], clone=clone, on_internal_override="ignore")
    else:
        call = runner.run(w.graph, values, on_internal_override="ignore")
    res = asyncio.run(call) if is_async else call
    return w, inps, marks, res


def verdicts_mapped(ctx, w, inps, marks, res, wit):
    d0 = w.func.__defaults__
    if d0[0] != [] or d0[1] != {"k": []} or d0[2] != ([], "log"):
        return ctx.violation("signature-default-mutated", wit, f"the function's own default objects now hold {d0}")
    seen_ids = set()
    for r, inp in zip(marks, inps):
        rec = w.records.get(r)
        if rec is None or "seen" not in rec:
            return ctx.violation("run-failed", wit, f"item {r} did not run: {res}")
        got = (tuple(rec["seen"][0]), tuple(rec["seen"][1]["k"]), tuple(rec["seen"][2]))
        if got != ((r,), (r,), (r,)):
            return ctx.violation("state-leaked-between-map-items", wit, f"item {r} saw {got} in its default-valued arguments, alone it sees {((r,), (r,), (r,))}")
        if rec["acc_id"] in seen_ids or rec["opts_id"] in seen_ids or rec["box_id"] in seen_ids:
            return ctx.violation("default-copy-shared-between-map-items", wit, f"item {r} received a default copy another item also received")
        seen_ids |= {rec["acc_id"], rec["opts_id"], rec["box_id"]}
        if rec["store_id"] != id(w.bound_obj):
            return ctx.violation("bound-value-copied", wit, f"item {r}: the bound object did not reach the node as the very object that was bound")
        if rec["inp_id"] != id(inp):
            return ctx.violation("provided-value-copied", wit, f"item {r}: the provided item did not reach the node as the caller's object")
        # broadcast values: cloned per item exactly when the clone setting names them
        cl = wit.get("clone")
        for name, obj in (("aux", w.aux), ("aux2", w.aux2)):
            cloned = cl is True or (isinstance(cl, list) and name in cl)
            same = rec[name + "_id"] == id(obj)
            if cloned and same:
                return ctx.violation("broadcast-value-not-cloned", wit, f"item {r}: {name} is named by clone={cl} but reached the node as the caller's own object")
            if not cloned and not same:
                return ctx.violation("broadcast-value-copied", wit, f"item {r}: {name} is not named by clone={cl} but the node received a copy")
    if sorted(w.bound_obj) != marks:
        return ctx.violation("bound-object-not-shared", wit, f"bound object holds {w.bound_obj}, expected {marks}")
    return False


def map_over_default(ctx, is_async):
    """A mapping node whose MAPPED parameter is not supplied: it maps over the inner function's signature default (a list of
    mutable items).  The items belong to the function's default object: every run maps over fresh copies."""
    seen = []

    def work(tag, slot=[[], [], []]):        # noqa: B006 - on purpose
        seen.append((tag, list(slot)))
        slot.append(tag)
        return len(slot)

    with warnings.catch_warnings():
        warnings.simplefilter("ignore")
        inner = Graph([FunctionNode(work, name="work", output_name="n")], name="inner")
        g = Graph([inner.as_node().map_over("slot")])
        runner = _SHARED_RUNNERS.setdefault(is_async, AsyncRunner() if is_async else SyncRunner())
        results = []
        for tag in (1, 2, 3):
            call = runner.run(g, {"tag": tag})
            r = asyncio.run(call) if is_async else call
            results.append((r.status.value, r.values.get("n")))
    ctx.count()
    ctx.traces()
    wit = {"shape": "map over a defaulted parameter", "runner": "async" if is_async else "sync", "seen": seen, "results": results,
           "defaults_now": repr(work.__defaults__)}
    if work.__defaults__ != ([[], [], []],):
        return ctx.violation("signature-default-mutated", wit, f"the function's own default object now holds {work.__defaults__}")
    if any(items for _, items in seen) or [r for r in results if r != ("completed", [1, 1, 1])]:
        return ctx.violation("state-leaked-between-runs", wit, f"items seen {seen}, results {results}: every run maps over three fresh empty lists")
    return False


def twin_wrappers(ctx, is_async, renamed):
    """Two wrappers of ONE inner graph, each with its own binding of the same name, side by side in one outer graph:
    each bound object must reach its own wrapper's node (and only that one) as the very object that was bound."""
    got = {}

    def work(x, store):
        got.setdefault(id(store), []).append(x)
        store.append(x)
        return len(store)
    B1, B2 = [], []
    with warnings.catch_warnings():
        warnings.simplefilter("ignore")
        inner = Graph([FunctionNode(work, name="work", output_name="n")], name="inner")
        w1 = inner.bind(store=B1).as_node(name="w1").with_outputs(n="n1").with_inputs(x="x1")
        w2 = inner.bind(store=B2).as_node(name="w2").with_outputs(n="n2").with_inputs(x="x2")
        if renamed:
            w1, w2 = w1.with_inputs(store="book"), w2.with_inputs(store="book")
        g = Graph([w1, w2])
        vals = {"x1": "a", "x2": "b"}
        runner = AsyncRunner() if is_async else SyncRunner()
        r = asyncio.run(runner.run(g, vals, on_internal_override="ignore")) if is_async else runner.run(g, vals, on_internal_override="ignore")
    ctx.count()
    ctx.traces()
    wit = {"case": "twin-wrappers", "runner": "async" if is_async else "sync", "renamed_input": renamed, "status": r.status.value,
           "B1": list(B1), "B2": list(B2), "values": {k: v for k, v in r.values.items()}}
    if r.status.value != "completed":
        return ctx.violation("run-failed", wit, f"twin wrappers: {r.status} {r.error}")
    if B1 != ["a"] or B2 != ["b"]:
        return ctx.violation("bound-value-of-sibling-wrapper-used", wit,
                             f"each wrapper binds its own object, yet after the run B1={B1} B2={B2} (expected ['a'] and ['b']): a wrapper's node received its sibling's bound object")
    return False


def schedules(n, bug="none"):
    cfg = f"_c18_{os.getpid()}_{n}_{bug}.cfg"
    path = os.path.join(tlc.SPEC_DIR, cfg)
    with open(path, "w") as f:
        f.write(f'SPECIFICATION Spec\nCONSTANTS\n  NRuns = {n}\n  Bug = "{bug}"\nINVARIANT DefaultPristine\nINVARIANT SoloResult\nINVARIANT Identities\nINVARIANT BoundShared\nINVARIANT EmitSchedule\nCHECK_DEADLOCK FALSE\n')
    try:
        return tlc.run_tlc("Isolation", cfg=cfg, workers=4, check=False)
    finally:
        os.remove(path)


def run(tier, seed):
    ctx = Ctx(PID, tier, seed, "model_checking")
    rng = random.Random(seed)
    thorough = tier == "thorough"
    all_scheds = []
    for n in (2, 3):
        r = schedules(n)
        if r.violation or not r.ok:
            raise RuntimeError(f"Isolation.tla violated {r.violation} for {n} runs")
        ctx.add_tlc(result=r)
        ss = []
        for s in r.results("SCHED"):
            if s not in ss:
                ss.append(s)
        all_scheds += [(n, s) for s in ss]
    for bug in ("share_default", "copy_bound", "copy_default_once"):
        b = schedules(2, bug)
        if not b.violation:
            raise RuntimeError(f"vacuity guard: wrong design {bug} not caught")
        ctx.bump("spec_mutants_caught")
    if not thorough:
        three = [x for x in all_scheds if x[0] == 3]
        all_scheds = [x for x in all_scheds if x[0] == 2] + rng.sample(three, 250)
    n_async = n_sync = 0
    for n, s in all_scheds:
        sched = [(op, int(r)) for op, r in s]
        for nested in (False, True):
            same = rng.random() < 0.5
            shape = {"bind_at": rng.choice(["outer", "inner", "inner_renamed"]), "side": rng.random() < 0.5, "sink": rng.random() < 0.2, "opt_some": rng.random() < 0.3,
                     "select_side": rng.random() < 0.6, "call": rng.choice(["dict", "dict", "mixed", "kwargs"])}
            ctx.bump("shape:" + (shape["bind_at"] if nested else "flat") + ("+narrowed" if shape["side"] and shape["select_side"] else "") + "/" + shape["call"])
            wit = {"schedule": s, "nested": nested, "same_runner": same, "runner": "async", "shape": shape}
            out, err = asyncio.run(replay_async(sched, nested, same, shape))
            ctx.count()
            ctx.traces()
            n_async += 1
            ctx.distinct(json.dumps([s, nested]))
            if err:
                # the node function was never entered although all its inputs (provided, bound, default) are there
                ctx.violation("node-did-not-run", wit, f"replay could not proceed: {err}")
                continue
            verdicts(ctx, *out, wit)
            # sequential histories also on the sync runner (order of the 'finish' steps)
            overlap = any(sched[i][1] != sched[i + 1][1] for i in range(len(sched) - 1) if sched[i][0] != "finish")
            if not overlap:
                order = [r for op, r in sched if op == "finish"]
                wit2 = {"schedule": s, "nested": nested, "same_runner": same, "runner": "sync", "shape": shape}
                out2, _ = replay_sync(order, nested, None, same, shape)
                n_sync += 1
                ctx.count()
                ctx.traces()
                verdicts(ctx, *out2, wit2)
    # map items as runs (sequential histories)
    n_map = 0
    for n in (2, 3):
        for is_async in (False, True):
            for bind_at in ("outer", "inner", "inner_renamed"):
                for via in (False, True):
                    for clone in (False, True, ["aux2"], ["aux"], ["aux", "aux2"]):
                        if clone is True and bind_at == "outer" and not via:
                            continue      # clone=True asks for copies of ALL broadcast values of the mapping node; a value bound on the OUTER graph is one of them
                        swap = (not via) and clone is False and (n + len(bind_at)) % 2 == 0
                        # a clone LIST of which one entry is renamed on the wrapper (before / after map_over) and one is not
                        ra = None if via or not isinstance(clone, list) else (None, "before", "after")[(n + len(bind_at) + len(clone) + is_async) % 3]
                        if ra is not None and clone == ["aux"] and n == 3:
                            ra = "swap"
                        wit = {"items": n, "runner": "async" if is_async else "sync", "bind_at": bind_at, "via": "runner.map" if via else "mapping GraphNode", "clone": clone, "swap": swap, "rename_aux": ra}
                        out = replay_mapped(n, is_async, bind_at, via, clone, swap, ra)
                        ctx.count()
                        ctx.traces()
                        ctx.distinct(json.dumps(wit, sort_keys=True))
                        n_map += 1
                        verdicts_mapped(ctx, *out, wit)
    ctx.bump("map_item_replays", n_map)
    for is_async in (False, True):
        map_over_default(ctx, is_async)
        for renamed in (False, True):
            twin_wrappers(ctx, is_async, renamed)
    ctx.bump("interleaved_async_replays", n_async)
    ctx.bump("sequential_sync_replays", n_sync)
    ctx.sample({"schedule": all_scheds[len(all_scheds) // 2][1]})
    ctx.assumptions += ["Isolation.tla: runs are Resolve -> Mutate -> Finish, steps of different runs interleave arbitrarily; defaults reach the body as fresh copies, bound and provided values as the same objects; three wrong designs must be caught",
                        "replay: the node's body parks after receiving its arguments and after mutating them; the driver releases it along the TLC schedule (async); sequential schedules are also run on SyncRunner; same or distinct runner instances"]
    return ctx.finish(rule="every interleaving (TLC) of the resolve/mutate/finish steps of 2 runs, and all (thorough) or 250 sampled (quick) interleavings of 3 runs, of a graph whose function mutates its list/dict signature defaults, its bound object and its provided object; flat and nested (default inside an inner graph); binding on the outer graph / on the nested graph / on the nested graph under a renamed wrapper input; graph narrowed by select to an output that does not need the mutating node; inputs passed as dict / dict + keyword arguments / keyword arguments only; same and different runner instances; sync for sequential histories; the items of a map (mapping GraphNode and runner.map, 2-3 items, both runners) as sequential runs; distinct = (schedule, nesting)")


def replay(path):
    w = json.load(open(path))["witness"]
    ctx = Ctx(PID, "quick", 0, "model_checking")
    sched = [(op, int(r)) for op, r in w["schedule"]]
    if w["runner"] == "async":
        out, err = asyncio.run(replay_async(sched, w["nested"], w["same_runner"], w.get("shape")))
    else:
        out, err = replay_sync([r for op, r in sched if op == "finish"], w["nested"], None, w["same_runner"], w.get("shape"))
    verdicts(ctx, *out, w)
    return 1 if ctx.violations else 0
