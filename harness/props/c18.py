"""C18 Run isolation: no state leaks between runs; caller-owned objects untouched (DESIGN.md 5/C18)."""
from __future__ import annotations

import asyncio
import json
import os
import random
import warnings

from hypergraph import AsyncRunner, Graph, SyncRunner
from hypergraph.nodes.function import FunctionNode

from .. import tlc
from ..core import Ctx

PID = "C18"


class World:
    """One real graph whose node mutates what it receives; gates let the driver interleave runs."""

    def __init__(self, nested, is_async):
        self.records = {}          # mark -> dict(ids, seen)
        self.keep = []             # keep every received object alive (ids must not be recycled)
        self.gates = {}
        self.parked = {}
        w = self

        if is_async:
            async def work(inp, mark, store, acc=[], opts={"k": []}):          # noqa: B006 - mutable defaults on purpose
                w.keep += [inp, store, acc, opts]
                w.records[mark] = {"acc_id": id(acc), "opts_id": id(opts), "store_id": id(store), "inp_id": id(inp)}
                await w.gate(mark, "resolved")
                acc.append(mark)
                opts["k"].append(mark)
                store.append(mark)
                inp.append(mark)
                await w.gate(mark, "mutated")
                w.records[mark]["seen"] = (list(acc), {k: list(v) for k, v in opts.items()})
                return (tuple(acc), tuple(opts["k"]))
        else:
            def work(inp, mark, store, acc=[], opts={"k": []}):                # noqa: B006
                w.keep += [inp, store, acc, opts]
                w.records[mark] = {"acc_id": id(acc), "opts_id": id(opts), "store_id": id(store), "inp_id": id(inp)}
                acc.append(mark)
                opts["k"].append(mark)
                store.append(mark)
                inp.append(mark)
                w.records[mark]["seen"] = (list(acc), {k: list(v) for k, v in opts.items()})
                return (tuple(acc), tuple(opts["k"]))
        self.func = work
        self.bound_obj = []
        node = FunctionNode(work, name="work", output_name="out")
        with warnings.catch_warnings():
            warnings.simplefilter("ignore")
            if nested:
                inner = Graph([node], name="inner")
                g = Graph([inner.as_node()])
            else:
                g = Graph([node])
            self.graph = g.bind(store=self.bound_obj)

    async def gate(self, mark, stage):
        fut = asyncio.get_running_loop().create_future()
        self.parked[(mark, stage)] = fut
        await fut


async def settle(n=30):
    for _ in range(n):
        await asyncio.sleep(0)


async def replay_async(sched, nested, same_runner):
    """Drive the real AsyncRunner along a TLC schedule of resolve/mutate/finish steps."""
    w = World(nested, True)
    runners = {}
    tasks, inputs, results = {}, {}, {}
    shared = AsyncRunner()
    for op, r in sched:
        if op == "resolve":
            inp = []
            inputs[r] = {"inp": inp, "mark": r}
            inputs[r + 1000] = (dict(inputs[r]), {k: id(v) for k, v in inputs[r].items()})
            runner = shared if same_runner else AsyncRunner()
            tasks[r] = asyncio.ensure_future(runner.run(w.graph, inputs[r]))
            await settle()
            if (r, "resolved") not in w.parked:
                return None, f"run {r} did not reach its body"
        elif op == "mutate":
            w.parked.pop((r, "resolved")).set_result(None)
            await settle()
        else:
            w.parked.pop((r, "mutated")).set_result(None)
            results[r] = await tasks[r]
    return (w, inputs, results), None


def replay_sync(order, nested, modes, same_runner):
    w = World(nested, False)
    wa = None
    inputs, results = {}, {}
    sr = SyncRunner()
    for r in order:
        inp = []
        inputs[r] = {"inp": inp, "mark": r}
        inputs[r + 1000] = (dict(inputs[r]), {k: id(v) for k, v in inputs[r].items()})
        runner = sr if same_runner else SyncRunner()
        results[r] = runner.run(w.graph, inputs[r])
    return (w, inputs, results), None


def verdicts(ctx, w, inputs, results, wit):
    runs = sorted(r for r in results)
    d0 = w.func.__defaults__
    if d0[0] != [] or d0[1] != {"k": []}:
        ctx.violation("signature-default-mutated", wit, f"the function's own default objects now hold {d0}")
        return
    seen_ids = set()
    for r in runs:
        rec = w.records[r]
        res = results[r]
        if res.status.value != "completed":
            ctx.violation("run-failed", wit, f"run {r}: {res.status} {res.error}")
            return
        if res.values["out"] != ((r,), (r,)):
            ctx.violation("state-leaked-between-runs", wit, f"run {r} returned {res.values['out']}, alone it returns {((r,), (r,))}")
            return
        if rec["acc_id"] == id(d0[0]) or rec["opts_id"] == id(d0[1]):
            ctx.violation("default-not-copied", wit, f"run {r} received the function's own default object")
            return
        if rec["acc_id"] in seen_ids or rec["opts_id"] in seen_ids:
            ctx.violation("default-copy-shared-between-runs", wit, f"run {r} received a default copy another run also received")
            return
        seen_ids |= {rec["acc_id"], rec["opts_id"]}
        if rec["store_id"] != id(w.bound_obj):
            ctx.violation("bound-value-copied", wit, f"run {r}: the bound object did not reach the node as the very object that was bound")
            return
        if rec["inp_id"] != id(inputs[r]["inp"]):
            ctx.violation("provided-value-copied", wit, f"run {r}: the provided object did not reach the node as the caller's object")
            return
        before, ids = inputs[r + 1000]
        if set(inputs[r]) != set(before) or any(id(inputs[r][k]) != ids[k] for k in before):
            ctx.violation("caller-mapping-modified", wit, f"run {r}: the caller's input mapping changed: {sorted(inputs[r])} vs {sorted(before)}")
            return
    if sorted(w.bound_obj) != runs:
        ctx.violation("bound-object-not-shared", wit, f"bound object holds {w.bound_obj}, expected the marks of all runs {runs}")


def schedules(n, bug="none"):
    cfg = f"_c18_{os.getpid()}_{n}_{bug}.cfg"
    path = os.path.join(tlc.SPEC_DIR, cfg)
    with open(path, "w") as f:
        f.write(f'SPECIFICATION Spec\nCONSTANTS\n  NRuns = {n}\n  Bug = "{bug}"\nINVARIANT DefaultPristine\nINVARIANT SoloResult\nINVARIANT Identities\nINVARIANT BoundShared\nINVARIANT EmitSchedule\nCHECK_DEADLOCK FALSE\n')
    try:
        return tlc.run_tlc("Isolation", cfg=cfg, workers=4, check=False)
    finally:
        os.remove(path)


def run(tier, seed):
    ctx = Ctx(PID, tier, seed, "model_checking")
    rng = random.Random(seed)
    thorough = tier == "thorough"
    all_scheds = []
    for n in (2, 3):
        r = schedules(n)
        if r.violation or not r.ok:
            raise RuntimeError(f"Isolation.tla violated {r.violation} for {n} runs")
        ctx.add_tlc(result=r)
        ss = []
        for s in r.results("SCHED"):
            if s not in ss:
                ss.append(s)
        all_scheds += [(n, s) for s in ss]
    for bug in ("share_default", "copy_bound", "copy_default_once"):
        b = schedules(2, bug)
        if not b.violation:
            raise RuntimeError(f"vacuity guard: wrong design {bug} not caught")
        ctx.bump("spec_mutants_caught")
    if not thorough:
        three = [x for x in all_scheds if x[0] == 3]
        all_scheds = [x for x in all_scheds if x[0] == 2] + rng.sample(three, 250)
    n_async = n_sync = 0
    for n, s in all_scheds:
        sched = [(op, int(r)) for op, r in s]
        for nested in (False, True):
            same = rng.random() < 0.5
            wit = {"schedule": s, "nested": nested, "same_runner": same, "runner": "async"}
            out, err = asyncio.run(replay_async(sched, nested, same))
            ctx.count()
            ctx.traces()
            n_async += 1
            ctx.distinct(json.dumps([s, nested]))
            if err:
                raise RuntimeError(f"replay failed: {err} {wit}")
            verdicts(ctx, *out, wit)
            # sequential histories also on the sync runner (order of the 'finish' steps)
            overlap = any(sched[i][1] != sched[i + 1][1] for i in range(len(sched) - 1) if sched[i][0] != "finish")
            if not overlap:
                order = [r for op, r in sched if op == "finish"]
                wit2 = {"schedule": s, "nested": nested, "same_runner": same, "runner": "sync"}
                out2, _ = replay_sync(order, nested, None, same)
                n_sync += 1
                ctx.count()
                ctx.traces()
                verdicts(ctx, *out2, wit2)
    ctx.bump("interleaved_async_replays", n_async)
    ctx.bump("sequential_sync_replays", n_sync)
    ctx.sample({"schedule": all_scheds[len(all_scheds) // 2][1]})
    ctx.assumptions += ["Isolation.tla: runs are Resolve -> Mutate -> Finish, steps of different runs interleave arbitrarily; defaults reach the body as fresh copies, bound and provided values as the same objects; three wrong designs must be caught",
                        "replay: the node's body parks after receiving its arguments and after mutating them; the driver releases it along the TLC schedule (async); sequential schedules are also run on SyncRunner; same or distinct runner instances"]
    return ctx.finish(rule="every interleaving (TLC) of the resolve/mutate/finish steps of 2 runs, and all (thorough) or 250 sampled (quick) interleavings of 3 runs, of a graph whose function mutates its list/dict signature defaults, its bound object and its provided object; flat and nested (default inside an inner graph); same and different runner instances; sync for sequential histories; distinct = (schedule, nesting)")


def replay(path):
    w = json.load(open(path))["witness"]
    ctx = Ctx(PID, "quick", 0, "model_checking")
    sched = [(op, int(r)) for op, r in w["schedule"]]
    if w["runner"] == "async":
        out, err = asyncio.run(replay_async(sched, w["nested"], w["same_runner"]))
    else:
        out, err = replay_sync([r for op, r in sched if op == "finish"], w["nested"], None, w["same_runner"])
    verdicts(ctx, *out, w)
    return 1 if ctx.violations else 0
