"""C13 Observers cannot alter execution (DESIGN.md 5/C13)."""
from __future__ import annotations

import asyncio
import copy
import json
import os
import random

from hypergraph.events.processor import AsyncEventProcessor, EventProcessor

from .. import build, events, gen, predict, sched, tlc
from .. import ir as IR
from ..core import Ctx
from . import c12

PID = "C13"


# what a failing observer raises: ordinary exceptions of several kinds (exporters time out, sockets fail, code has bugs)
FAILURES = (RuntimeError, TimeoutError, OSError, KeyError, ValueError, AssertionError)


class Faulty(EventProcessor):
    """Raises on the k-th delivery (k = None: on every event); optionally at shutdown."""

    def __init__(self, k=None, every=False, at_shutdown=False, exc=RuntimeError):
        self.k, self.every, self.at_shutdown, self.n, self.exc = k, every, at_shutdown, 0, exc

    def on_event(self, e):
        self.n += 1
        if self.every or self.n - 1 == self.k:
            raise self.exc(f"observer failure at event {self.n - 1}")

    def shutdown(self):
        if self.at_shutdown:
            raise self.exc("observer failure at shutdown")


class UnhashableFaulty(Faulty):
    """... written like a @dataclass (eq=True): it compares by value and therefore is not hashable."""
    __hash__ = None

    def __eq__(self, other):
        return type(other) is type(self) and (self.k, self.every, self.at_shutdown) == (other.k, other.every, other.at_shutdown)


class AsyncFaulty(AsyncEventProcessor):
    def __init__(self, k=None, every=False, at_shutdown=False, exc=RuntimeError):
        self.k, self.every, self.at_shutdown, self.n, self.exc = k, every, at_shutdown, 0, exc

    def on_event(self, e):
        self._hit()

    async def on_event_async(self, e):
        await asyncio.sleep(0)
        self._hit()

    def _hit(self):
        self.n += 1
        if self.every or self.n - 1 == self.k:
            raise self.exc(f"observer failure at event {self.n - 1}")

    def shutdown(self):
        if self.at_shutdown:
            raise self.exc("observer failure at shutdown")

    async def shutdown_async(self):
        await asyncio.sleep(0)
        self.shutdown()


def shape(evs):
    return [(e["t"], e["node"], e["graph"], e["status"], e["ismap"]) for e in evs]


def outcome(o):
    return {"status": o["status"], "values": o["values"], "err": o["err"], "calls": [(c["path"], json.dumps(c["args"])) for c in o["calls"]]}


def model_check(ctx):
    """Observers.tla: every fault set over every (processor, position) for small N, P."""
    for n, p in ((3, 2), (2, 3), (4, 2)):
        cfg = f"_c13_{os.getpid()}_{n}_{p}.cfg"
        path = os.path.join(tlc.SPEC_DIR, cfg)
        with open(path, "w") as f:
            f.write(f'SPECIFICATION Spec\nCONSTANTS\n  N = {n}\n  P = {p}\n  Bug = "none"\nINVARIANT EngineUnaffected\nINVARIANT OthersComplete\nPROPERTY EngineFinishes\n')
        try:
            r = tlc.run_tlc("Observers", cfg=cfg, workers=4, check=False)
        finally:
            os.remove(path)
        if r.violation or not r.ok:
            raise RuntimeError(f"Observers.tla violated {r.violation} for N={n} P={p}")
        ctx.add_tlc(result=r)
    for bug, inv in (("stop_on_failure", "OthersComplete"), ("propagate", "EngineUnaffected")):
        cfg = f"_c13_{os.getpid()}_{bug}.cfg"
        path = os.path.join(tlc.SPEC_DIR, cfg)
        with open(path, "w") as f:
            f.write(f'SPECIFICATION Spec\nCONSTANTS\n  N = 3\n  P = 2\n  Bug = "{bug}"\nINVARIANT EngineUnaffected\nINVARIANT OthersComplete\n')
        try:
            r = tlc.run_tlc("Observers", cfg=cfg, workers=4, check=False)
        finally:
            os.remove(path)
        if not (r.violation and r.violation[1] == inv):
            raise RuntimeError(f"vacuity guard: spec mutant {bug} not caught ({r.violation})")
        ctx.bump("spec_mutants_caught")


def run(tier, seed):
    ctx = Ctx(PID, tier, seed, "fault_enumeration")
    rng = random.Random(seed)
    thorough = tier == "thorough"
    model_check(ctx)
    progs = c12.programs(rng, 90 if thorough else 22) + [(p, pv, k) for p, pv, k in c12.sibling_graph_programs()][: (3 if thorough else 1)]
    # runs that PAUSE at an interrupt (top level and inside a nested graph): observers must not change that either
    A = IR.func("A", ["x"], ["a"])
    I = IR.interrupt("ask", ["a"], ["ans"], pause_at=[1])
    B = IR.func("B", ["ans"], ["b"])
    progs.append((IR.prog("top", [A, I, B]), [["x", "in.x"]], "pausing"))
    inner = IR.prog("inner", [copy.deepcopy(I), copy.deepcopy(B)], max_iter=1000)
    progs.append((IR.prog("top", [copy.deepcopy(A), IR.graph_node(inner, name="inner", inputs=["a"], outputs=["ans", "b"])]), [["x", "in.x"]], "pausing-nested"))
    streams = []
    n_faults = 0
    n_failing = 0
    for prog, prov, kind in progs:
        p2 = copy.deepcopy(prog)
        if rng.random() < 0.35:
            paths = [p for p, n in IR.all_nodes(p2) if n["kind"] == "func"]
            if paths:
                nd = dict(IR.all_nodes(p2))[rng.choice(paths)]
                nd["fail_at"] = [1]
                # the node's exception: no message / falsy / plain / refusing attribute assignment, in turn
                nd["exc_kind"] = n_failing % 4
                n_failing += 1
        for mode in ("sync", "async"):
            if kind.startswith("pausing") and mode == "sync":
                continue
            j = gen.job(0, sched.asyncify(p2) if mode == "async" and rng.random() < 0.5 else p2, prov, mode=mode)
            base, _, _ = predict.try_real(j)                       # no processors at all
            if "rejected" in base:
                continue
            rec0 = events.Recorder()
            b2, _, _ = predict.try_real(j, event_processors=[rec0])  # healthy observer only
            if outcome(b2) != outcome(base):
                ctx.violation("healthy-observer-changes-run", {"job": j, "without": outcome(base), "with": outcome(b2)}, "a non-failing processor changed the run")
                continue
            baseline = shape(rec0.events)
            n_ev = len(rec0.events) - 1      # without the shutdown marker
            ctx.distinct(IR.struct_hash([p2, prov, mode]))
            ks = list(range(n_ev)) if (thorough or n_ev <= 14) else sorted(rng.sample(range(n_ev), 14))
            cases = [("at", k) for k in ks] + [("every", None), ("shutdown", None)]
            for what, k in cases:
                for fk in (("sync", "async") if mode == "async" else ("sync",)):
                    cls = AsyncFaulty if fk == "async" else (UnhashableFaulty if n_faults % 2 else Faulty)
                    bad = cls(k=k, every=(what == "every"), at_shutdown=(what == "shutdown"), exc=FAILURES[n_faults % len(FAILURES)])
                    healthy = events.AsyncRecorder(yields=rng.choice([1, 2, 3])) if (mode == "async" and rng.random() < 0.5) else events.Recorder()
                    first = rng.random() < 0.7
                    procs = [bad, healthy] if first else [healthy, bad]
                    o, _, _ = predict.try_real(j, event_processors=procs)
                    n_faults += 1
                    ctx.count()
                    wit = {"job": j, "fault": what, "k": k, "faulty_kind": fk, "faulty_first": first, "baseline": outcome(base),
                           "observed": outcome(o) if "rejected" not in o else o}
                    if "rejected" in o:
                        ctx.violation("observer-failure-surfaced", wit, f"processor failure ({what} {k}) escaped the run: {o}")
                        continue
                    if outcome(o) != outcome(base):
                        d = [x for x in ("status", "values", "err", "calls") if outcome(o)[x] != outcome(base)[x]]
                        ctx.violation("observer-failure-changed-run:" + "+".join(d), wit, f"processor failing ({what} {k}) changed {d}")
                        continue
                    # concurrent nodes of the async runner may emit in another order when a processor
                    # suspends differently: the complete stream = the same multiset of events
                    complete = (shape(healthy.events) == baseline) if mode == "sync" else (sorted(map(str, shape(healthy.events))) == sorted(map(str, baseline)))
                    marks = [i for i, e in enumerate(healthy.events) if e == events.SHUTDOWN]
                    if marks != [len(healthy.events) - 1]:
                        ctx.violation("other-processor-lifecycle", wit,
                                      f"healthy processor: shutdown marker at positions {marks} of {len(healthy.events)} entries (an event was delivered after its shutdown, or shutdown was not invoked exactly once)")
                        continue
                    if not complete:
                        ctx.violation("other-processor-stream-incomplete", wit,
                                      f"healthy processor received {len(healthy.events)} events, baseline {len(baseline)} (fault {what} {k}, faulty first={first})")
                        continue
                    if (rng.random() < 0.2 or kind.startswith("siblings")) and o["status"] != "paused":      # the span-tree grammar is about TERMINATED runs (C12)
                        streams.append({"id": len(streams) + 1, "status": "failed" if o["status"] in ("failed", "raised") else o["status"],
                                        "events": healthy.events, "graphnodes": events.graph_node_names(j["prog"])})
            # the same faults under the interpreter's "warnings are errors" policy (-W error / filterwarnings=error): a processor
            # failure must not reach the run through the warnings machinery either
            be, _, _ = predict.try_real(j, warnings_as_errors=True)
            if "rejected" not in be and outcome(be) == outcome(base):
                for what, k in (("at", 0), ("at", max(0, n_ev - 1)), ("every", None), ("shutdown", None)):
                    bad = Faulty(k=k, every=(what == "every"), at_shutdown=(what == "shutdown"), exc=FAILURES[n_faults % len(FAILURES)])
                    healthy = events.Recorder()
                    o, _, _ = predict.try_real(j, event_processors=[bad, healthy], warnings_as_errors=True)
                    n_faults += 1
                    ctx.count()
                    wit = {"job": j, "fault": what, "k": k, "faulty_kind": "sync", "faulty_first": True, "warnings": "error", "baseline": outcome(base),
                           "observed": outcome(o) if "rejected" not in o else o}
                    if "rejected" in o:
                        ctx.violation("observer-failure-surfaced", wit, f"processor failure ({what} {k}) escaped the run under the warnings-as-errors policy: {o}")
                    elif outcome(o) != outcome(base):
                        d = [x for x in ("status", "values", "err", "calls") if outcome(o)[x] != outcome(base)[x]]
                        ctx.violation("observer-failure-changed-run:" + "+".join(d), wit, f"processor failing ({what} {k}) changed {d} under the warnings-as-errors policy")
    res, stats = events.validate_streams(streams)
    ctx.add_tlc(stats)
    ctx.traces(len(streams))
    for s in streams:
        if not res[s["id"]]["accepted"]:
            ctx.violation("healthy-stream-not-a-span-tree", {"events": shape(s["events"]), "verdict": res[s["id"]]}, "stream of the healthy processor rejected by SpanTree.tla")
    ctx.bump("fault_positions", n_faults)
    ctx.sample({"events_in_baseline": len(streams[0]["events"]) if streams else 0, "fault_kinds": ["at k (every k of the baseline stream)", "every event", "shutdown"]})
    ctx.assumptions += ["Observers.tla (best-effort dispatch) is model-checked for every fault set over (processor, position) incl. shutdown; two wrong dispatch designs must be caught",
                        "the baseline is the same run without any processor; invocation order of the harness bodies is part of the compared outcome"]
    return ctx.finish(rule="fault enumeration: for each generated program (flat/nested/gated/cyclic, optionally with a failing node) and runner, EVERY event index of the baseline stream (capped at 14 in quick), failure on every event, failure at shutdown, sync and async faulty processors raising several exception types (RuntimeError, TimeoutError, OSError, ...), faulty processor (hashable or comparing by value, hence unhashable) registered before or after a healthy one; failing nodes raising message-less / falsy / plain / attribute-refusing exceptions in turn; programs that pause at an interrupt; distinct = structural hash of (program, provided, runner)")


def replay(path):
    w = json.load(open(path))["witness"]
    j = w["job"]
    base, _, _ = predict.try_real(j)
    cls = AsyncFaulty if w.get("faulty_kind") == "async" else UnhashableFaulty
    bad = cls(k=w.get("k"), every=w.get("fault") == "every", at_shutdown=w.get("fault") == "shutdown")
    healthy = events.Recorder()
    o, _, _ = predict.try_real(j, event_processors=[bad, healthy] if w.get("faulty_first", True) else [healthy, bad])
    same = "rejected" not in o and outcome(o) == outcome(base)
    print("same" if same else "differs")
    return 0 if same else 1
