"""C16 Scoping: entry points limit what runs; results hold only requested outputs (DESIGN.md 5/C16)."""
from __future__ import annotations

import copy
import json
import random

from .. import build, enginecheck, gen, predict
from .. import ir as IR
from ..core import Ctx

PID = "C16"


def compare(ctx, job, m, o, tag, failed):
    wit = enginecheck.witness(job, tag, m, o, failed_clauses=failed, on_missing=job.get("on_missing"))
    if "rejected" in o:
        return False
    prog = job["prog"]
    if failed:
        return ctx.violation("monitor:" + "+".join(sorted(failed)), wit, f"TLC rejected the recorded call log: a node outside the entry points' downstream cone ran ({failed})")
    outputs = {x for n in prog["nodes"] for x in n["outputs"]}
    eff = job["select"] if job["select"] != IR.UNSET else prog["selected"]
    om = job.get("on_missing", "ignore")
    # selected names that the run never produces (by the model): on_missing decides
    missing = [] if eff in (IR.UNSET, ["**"]) else [k for k in eff if k not in m["raw_keys"]]
    expect_error = bool(missing) and om == "error" and m["status"] == "completed"
    if expect_error:
        if not (o["status"] == "failed" and o["err"]["kind"].startswith("other:ValueError")):
            return ctx.violation("on-missing-error", wit, f"selected but unproduced {missing} with on_missing=error: status {o['status']} err {o['err']}")
        return False
    if o["status"] == "failed" and o["err"]["kind"].startswith("other:"):
        return ctx.violation("unexpected-error", wit, f"{o['err']}")
    nwarn = len([w for w in o.get("warnings", []) if "Requested outputs not found" in w])
    if m["status"] == "completed":
        if missing and om == "warn" and nwarn != 1:
            return ctx.violation("on-missing-warn", wit, f"selected but unproduced {missing} with on_missing=warn: {nwarn} warnings")
        if (not missing or om == "ignore") and nwarn:
            return ctx.violation("spurious-warning", wit, f"{nwarn} warnings, missing={missing}, on_missing={om}")
    for k, v in o["values"].items():
        if k == "__routing_decision__" or k.startswith("__"):
            return ctx.violation("bookkeeping-key", wit, f"internal key {k} returned")
        if k not in outputs:
            return ctx.violation("non-output-key", wit, f"{k} is not a declared output of the graph")
        if eff not in (IR.UNSET, ["**"]) and k not in eff:
            return ctx.violation("outside-selection", wit, f"{k} not in effective selection {eff}")
        if not isinstance(v, str) or v == IR.SENT or "object object" in v:
            return ctx.violation("sentinel-value", wit, f"{k} carries a non-data value {v!r}")
    mm = enginecheck.common_mismatch(m, o)
    if mm:
        return ctx.violation("outcome", wit, mm)
    if m["values"] != o["values"]:
        return ctx.violation("values", wit, f"values {o['values']} model {m['values']}")
    if set(predict.per_node(m["calls"])) != set(predict.per_node(o["calls"])):
        return ctx.violation("executed-set", wit, f"executed {sorted(predict.per_node(o['calls']))} model {sorted(predict.per_node(m['calls']))}")
    return False


def make_pairs(tier, rng):
    thorough = tier == "thorough"
    pairs = []
    target = 6000 if thorough else 1100
    tries = 0
    while len(pairs) < target and tries < 200000:
        tries += 1
        prog, _ = gen.random_flat(rng, gate=0.4, cyclic=0.25, n_nodes=(2, 5), defaults=0.2, bound=0.15, emit=0.3,
                                  multi_out=0.3, fail=0.08)
        nongate = [n["name"] for n in prog["nodes"] if n["kind"] == "func"]
        outs = sorted({o for n in prog["nodes"] for o in n["outputs"]})
        data = sorted({o for n in prog["nodes"] for o in n["outputs"][: n["ndata"]]})
        if rng.random() < 0.6 and nongate:
            prog["entry"] = rng.sample(nongate, rng.randint(1, min(2, len(nongate))))
        if rng.random() < 0.4 and data:
            prog["selected"] = rng.sample(data, rng.randint(1, min(2, len(data))))
        elif rng.random() < 0.08:
            prog["selected"] = []         # graph.select() with no names: an EMPTY selection (return / expose nothing), not "no selection"
        sel = None
        r = rng.random()
        if r < 0.3 and outs:
            sel = rng.sample(outs, rng.randint(1, min(2, len(outs))))
        elif r < 0.4:
            sel = ["**"]
        paused = False
        if rng.random() < 0.15:      # a run that PAUSES: some data-producing function becomes an interrupt
            cand = [n for n in prog["nodes"] if n["kind"] == "func" and n["ndata"] >= 1 and n["inputs"] and not n["fail_at"] and n["name"] not in prog["entry"]]
            if cand:
                n = rng.choice(cand)
                n["kind"], n["pause_at"], n["fn"] = "interrupt", [1], "term"
                if n["defaults"]:
                    continue
                paused = True
        try:
            prov = build.suggest_inputs(prog, rng)
        except Exception:  # noqa: BLE001 - construction rejected
            continue
        j = gen.job(0, prog, prov, mode="async" if paused else rng.choice(["sync", "async"]), select=sel)
        j["on_missing"] = rng.choice(["ignore", "warn", "error"])
        # history: every graph object the scoped graph was derived from has already been run once
        j["warm"] = bool(prog["entry"] or prog["selected"] != IR.UNSET or prog["bound"]) and rng.random() < 0.3
        o, _, _ = predict.try_real(j, on_missing=j["on_missing"])
        if "rejected" in o:
            continue
        pairs.append((j, ("entry" if prog["entry"] else "all") + "/" + ("sel" if sel else "nosel") + "/" + j["on_missing"]
                      + ("/pausing" if paused else "") + ("/warm" if j["warm"] else "")))
    # nested selections: a nested graph exposes only what its own select() names (a hidden inner output must not
    # come back, even under run-time select="**"), combined with an outer graph-level / run-time selection
    want = 400 if thorough else 90
    tries = 0
    while want > 0 and tries < 20000:
        tries += 1
        flat, _ = gen.random_flat(rng, gate=0.0, cyclic=0.0, n_nodes=(3, 5), defaults=0.2, bound=0.1, multi_out=0.5, side_effect=0.0)
        subs = list(gen.convex_subsets(flat))
        if not subs:
            continue
        S = rng.choice(subs)
        inner_nodes = [n for n in flat["nodes"] if n["name"] in S]
        used_outside = {p for n in flat["nodes"] if n["name"] not in S for p in n["inputs"]}
        hid = [o for n in inner_nodes if len(n["outputs"]) >= 2 for o in n["outputs"][1:] if o not in used_outside]
        if not hid:
            continue
        hidden = [rng.choice(hid)]
        inner_out = [o for n in inner_nodes for o in n["outputs"]]
        try:
            prog = gen.nest(flat, S, selected=[o for o in inner_out if o not in hidden], pos=rng.randint(0, len(flat["nodes"]) - len(S)))
        except Exception:  # noqa: BLE001
            continue
        exposed = sorted({o for n in prog["nodes"] for o in n["outputs"]})
        if rng.random() < 0.4:
            prog["selected"] = rng.sample(exposed, rng.randint(1, min(2, len(exposed))))
        sel = rng.choice([None, None, ["**"], rng.sample(exposed, 1)])
        try:
            prov = build.suggest_inputs(prog, rng)
        except Exception:  # noqa: BLE001
            continue
        j = gen.job(0, prog, prov, mode=rng.choice(["sync", "async"]), select=sel)
        j["on_missing"] = rng.choice(["ignore", "warn", "error"])
        j["warm"] = False
        o, _, _ = predict.try_real(j, on_missing=j["on_missing"])
        if "rejected" in o:
            continue
        pairs.append((j, f"nested-select/hidden={hidden}/" + ("sel" if sel else "nosel") + "/" + j["on_missing"]))
        want -= 1
    for i, (j, _) in enumerate(pairs):
        j["id"] = i + 1
    return pairs


def evaluate(ctx, pairs):
    """on_missing differs per job: run the real side per policy group."""
    out = {}
    for om in ("ignore", "warn", "error"):
        grp = [(j, t) for j, t in pairs if j.get("on_missing", "ignore") == om]
        if grp:
            res, reals = enginecheck.evaluate(ctx, grp, PID, compare, trace_prop=PID, real_kw={"on_missing": om})
            out.update(reals)
    return out


def selftest(ctx, pairs):
    for j, tag in pairs:
        if j["prog"]["entry"]:
            o, _, _ = predict.try_real(j, on_missing=j["on_missing"])
            if "rejected" in o or not o["calls"]:
                continue
            names = {n["name"] for n in j["prog"]["nodes"]}
            ran = {c["node"] for c in o["calls"]}
            extra = sorted(n for n in names - ran if n not in j["prog"]["entry"])
            if not extra:
                continue
            bad = copy.deepcopy(o)
            c = copy.deepcopy(bad["calls"][0])
            c["node"] = c["path"] = extra[0]
            bad["calls"].insert(0, c)
            gi, bi = predict.trace_item(j, o), predict.trace_item(dict(j, id=10**6), bad)
            failed, _ = predict.trace_l1([gi, bi], PID)
            if failed[gi["id"]]:
                raise RuntimeError(f"binding self-test failed: good trace rejected {failed}")
            if failed[bi["id"]]:
                ctx.bump("binding_selftests", 2)
                return
    raise RuntimeError("binding self-test: no injected out-of-scope call was rejected")


def run(tier, seed):
    ctx = Ctx(PID, tier, seed, "model_checking")
    rng = random.Random(seed)
    pairs = make_pairs(tier, rng)
    for j, _ in pairs:
        if j["prog"]["entry"] or j["select"] != IR.UNSET or j["prog"]["selected"] != IR.UNSET:
            ctx.distinct(IR.struct_hash([j["prog"], j["provided"], j["mode"], j["select"], j["on_missing"]]))
    reals = evaluate(ctx, pairs)
    if not ctx.violations:
        selftest(ctx, pairs)       # binding self-test needs a tree on which the recorded traces are good
    mid = pairs[len(pairs) // 2][0]
    ctx.sample({"entry": mid["prog"]["entry"], "selected": mid["prog"]["selected"], "select": mid["select"], "on_missing": mid["on_missing"],
                "nodes": [(n["name"], n["inputs"], n["outputs"]) for n in mid["prog"]["nodes"]], "values": reals[mid["id"]].get("values")})
    ctx.assumptions += ["upper bound of the entry-point scope uses DECLARED dependencies (any producer of a name, gate->target, producer->waiter): HGProps!Downstream",
                        "inputs are chosen from the implementation's own input spec (the input contract is C08's subject)"]
    return ctx.finish(rule="seeded random DAG/gated/cyclic programs x entry-point sets (1-2 non-gate nodes) x graph-level select x run-time select (names or '**') x on_missing in {ignore,warn,error} x runner, including failing nodes (partial results) and pausing interrupts (async), and derivation histories in which every parent graph object was run before the scoped graph was derived from it; nested graphs whose own select() hides an inner output, under outer graph-level / run-time selections; non-trivial = some entry point or selection configured; distinct = structural hash")


def replay(path):
    w = json.load(open(path))["witness"]
    ctx = Ctx(PID, "quick", 0, "model_checking")
    evaluate(ctx, [(w["job"], w.get("tag", "replay"))])
    return 1 if ctx.violations else 0
