"""C10 Map: one result per input combination, in input order, equal to a single run (DESIGN.md 5/C10)."""
from __future__ import annotations

import asyncio
import copy
import itertools
import json
import os
import random
import warnings

from hypergraph import AsyncRunner, Graph, SyncRunner

from .. import build, drive, enginecheck, gen, predict, tlc
from .. import ir as IR
from ..core import Ctx

PID = "C10"


def list_text(items):
    return "[" + ";".join(items) + "]"


def item_names(p, n):
    return [f"in.{p}.{i}" for i in range(n)]


# ---------------------------------------------------------------------------------------------
# inner graphs
# ---------------------------------------------------------------------------------------------

def inner_graph(kind, mapped, fail_vals=(), branch_vals=()):
    """mapped: list of mapped parameter names among x, y (map_over listing order; mapped[0] keys the
    failing / branching items); 'b' is a broadcast parameter.  The functions take their parameters in
    ALPHABETICAL order, so that the listing order of map_over may differ from the signature order."""
    mapped = list(mapped)
    ins = sorted(mapped) + ["b"]
    if kind == "single":
        nodes = [IR.func("F", ins, ["p"], fail_args=list(fail_vals))]
    elif kind == "chain":
        nodes = [IR.func("F", sorted(mapped), ["p"], fail_args=list(fail_vals)), IR.func("H", ["p", "b"], ["q"])]
    elif kind == "chain2":
        # the item fails in its SECOND node, after `p` has already been produced
        m0 = mapped[0]
        nodes = [IR.func("F", [m0], ["p"]), IR.func("H", ["p", "b"] + list(mapped[1:]), ["q"], fail_args=[f"F.p({m0}={v})" for v in fail_vals])]
    elif kind == "multi":
        nodes = [IR.func("F", ins, ["p", "r"], fail_args=list(fail_vals))]
    elif kind == "signal":
        # an ordering signal inside the mapped graph: it orders H after F in every item and is not a value of the map
        nodes = [IR.normalize_node(dict(name="F", kind="func", inputs=sorted(mapped), outputs=["p", "sig"], ndata=1, fail_args=list(fail_vals))),
                 IR.normalize_node(dict(name="H", kind="func", inputs=["b"], outputs=["q"], wait_for=["sig"]))]
    elif kind == "branch":
        g = IR.route("G", [mapped[0]], ["A", "B"], [["A"]], default_open=False,
                     dec_args=[[v, ["B"]] for v in branch_vals])
        nodes = [g, IR.func("A", ins, ["p"], fail_args=list(fail_vals)), IR.func("B", [mapped[0]], ["n"])]
    else:
        raise ValueError(kind)
    return IR.prog("inner", nodes, max_iter=1000)


def mapping_job(rng, kind, mapped, lens, mode_map, eh, runner_mode, rename, fail_idx, branch_idx, clone=None, gen_source=False):
    """A graph with one mapping node `inner` over `mapped`, a broadcast input and a consumer of the lists.
    gen_source: the mapped list is not supplied by the caller but PRODUCED by an upstream generator node."""
    lists, provided = [], [["b", "in.b"]]
    gen_items = ["S.x(seed=in.seed)#0", "S.x(seed=in.seed)#1"]
    for p, n in zip(mapped, lens):
        if gen_source:
            assert mapped == ["x"] and lens == (2,) and not rename
            provided.append(["seed", "in.seed"])
            continue
        items = item_names(p, n)
        lists.append([list_text(items), items])
        provided.append([p + "s" if rename else p, list_text(items)])
    first = gen_items if gen_source else item_names(mapped[0], lens[0])
    fail_vals = [first[i] for i in fail_idx if i < len(first)]
    branch_vals = [first[i] for i in branch_idx if i < len(first)]
    sub = inner_graph(kind, mapped, fail_vals, branch_vals)
    outs = []
    for n in sub["nodes"]:
        for o in n["outputs"]:
            if o not in outs:
                outs.append(o)
    ins = sorted(mapped) + ["b"]          # the inner graph's own parameter order; `mapped` is the map_over order
    wrapper_in = [(p + "s" if (rename and p in mapped) else p) for p in ins]
    wrapper_out = [(o + "_list" if rename else o) for o in outs]
    gn = IR.graph_node(sub, name="inner", inputs=wrapper_in, inmap=[[w, p] for w, p in zip(wrapper_in, ins)],
                       outputs=wrapper_out, outmap=[[o, w] for o, w in zip(outs, wrapper_out)],
                       map_over=[(m + "s" if rename else m) for m in mapped], map_mode=mode_map, map_eh=eh,
                       clone=clone or [IR.NONE])
    gn["map_first"] = bool(rename and rng.random() < 0.5)      # map_over configured BEFORE the wrapper is renamed
    consumer = IR.func("C", [wrapper_out[0]], ["out"])
    nodes = [gn, consumer] if rng.random() < 0.5 else [consumer, gn]
    if gen_source:
        src = IR.func("S", ["seed"], ["x"], fn="gen", is_async=runner_mode == "async" and rng.random() < 0.5)
        nodes.insert(rng.randint(0, 2), src)
    prog = IR.prog("top", nodes)
    return gen.job(0, prog, provided, mode=runner_mode, lists=lists)


def classify_misaligned(job, o, m):
    """finding 5: an item that did not produce an output leaves NO entry, so the list is shorter."""
    for k, v in m["values"].items():
        ov = o["values"].get(k)
        if isinstance(ov, str) and ov.startswith("[") and v.startswith("["):
            mv = v[1:-1].split(";") if v != "[]" else []
            rv = ov[1:-1].split(";") if ov != "[]" else []
            if len(rv) < len(mv) and _drop_nones_gives(mv, rv):
                return "mapping-node-list-skips-items-without-output"
    return None


def _drop_nones_gives(expected, got):
    """got is expected with some '~none' placeholders removed (order preserved)."""
    i = 0
    for x in expected:
        if i < len(got) and got[i] == x:
            i += 1
        elif x != IR.NONE:
            return False
    return i == len(got)


def compare_node(ctx, job, m, o, tag, failed):
    wit = enginecheck.witness(job, tag, m, o)
    if "rejected" in o:
        return ctx.violation("rejected", wit, f"map run rejected: {o}")
    mm = enginecheck.common_mismatch(m, o)
    if mm:
        return ctx.violation("outcome", wit, mm)
    if m["status"] == "completed" and m["values"] != o["values"]:
        k = classify_misaligned(job, o, m) or "list-values"
        return ctx.violation(k, wit, f"values {o['values']} expected {m['values']}")
    if m["status"] == "completed":
        cm = sorted((c["path"], json.dumps(c["args"])) for c in m["calls"])
        co = sorted((c["path"], json.dumps(c["args"])) for c in o["calls"])
        if cm != co:
            return ctx.violation("item-arguments", wit, "multiset of (node, arguments) over all items differs from the specification")
    return False


# ---------------------------------------------------------------------------------------------
# top-level runner.map
# ---------------------------------------------------------------------------------------------

def real_map(job, k=None, schedule=None, event_processors=None):
    """Call runner.map on the real code.  Returns {'results': [obs...]} or {'raised': err}."""
    rt = build.Runtime(job["prog"])
    with warnings.catch_warnings():
        warnings.simplefilter("ignore")
        g = build.build_graph(rt, job["prog"])
    values = build.provided_dict(job)
    kw = dict(map_over=list(job["map"]["over"]), map_mode=job["map"]["mode"], error_handling=job["map"]["eh"],
              on_internal_override="ignore")
    if event_processors is not None:
        kw["event_processors"] = event_processors
    ctl = None
    with warnings.catch_warnings():
        warnings.simplefilter("ignore")
        try:
            if job["mode"] == "sync":
                rs = SyncRunner().map(g, values, **kw)
            else:
                if k:
                    kw["max_concurrency"] = k
                runner = AsyncRunner()
                if schedule is not None:
                    rs, ctl = drive.run_controlled(lambda: runner.map(g, values, **kw), rt, schedule=schedule,
                                                   key=lambda path, idx, args: f"{path}@{IR.canon(args[0][1])}")
                    if ctl.deadlock:
                        return {"deadlock": True}, rt, ctl
                    if isinstance(rs, BaseException):
                        raise rs
                else:
                    rs = asyncio.run(runner.map(g, values, **kw))
        except Exception as e:  # noqa: BLE001
            hit = [(p, i) for p, i, x in rt.raised if x is e]
            if hit:
                vals = [a for c in rt.log if c["path"] == hit[0][0] and c["idx"] == hit[0][1] for a in c["args"]]
                return {"raised": {"path": hit[0][0], "kind": "body", "args": vals}}, rt, ctl
            return {"raised": {"path": IR.NONE, "kind": "other:" + type(e).__name__ + ":" + str(e)[:200]}}, rt, ctl
    out = []
    for r in rs:
        out.append(build.observe(rt, r))
    return {"results": out}, rt, ctl


def compare_map(ctx, job, m, o, tag):
    wit = {"job": job, "tag": tag, "model": m, "observed": {k: v for k, v in o.items() if k != "results"} | (
        {"results": [{x: r[x] for x in ("status", "values", "err")} for r in o["results"]]} if "results" in o else {})}
    if not m["zipok"]:
        if "raised" in o and "ValueError" in o["raised"]["kind"]:
            return False
        return ctx.violation("zip-length-mismatch-not-rejected", wit, f"zip over unequal lengths: {o}")
    exp = m["results"]
    failing = [i for i, r in enumerate(exp) if r["status"] != "completed"]
    if job["map"]["eh"] == "raise" and failing:
        if "raised" not in o:
            return ctx.violation("raise-mode-no-error", wit, f"item {failing[0]} fails but map returned")
        first = exp[failing[0]]
        if o["raised"]["kind"] != "body" or o["raised"]["path"] != first["err"]["path"]:
            return ctx.violation("raise-mode-wrong-error", wit, f"raised {o['raised']}, expected the error of item {failing[0]} ({first['err']})")
        # the failing invocation must belong to the FIRST failing item in input order: its arguments are
        # built from that item's mapped values
        item_vals = [v for name, v in first["inputs"] if name in job["map"]["over"]]
        got_text = json.dumps(o["raised"].get("args", []))
        if not all(v in got_text for v in item_vals):
            return ctx.violation("raise-mode-not-first-failing-item", wit, f"raised the error of an invocation with arguments {o['raised'].get('args')}; first failing item in input order is {item_vals}")
        return False
    if "raised" in o:
        return ctx.violation("unexpected-raise", wit, f"map raised {o['raised']}")
    rs = o["results"]
    if len(rs) != len(exp):
        return ctx.violation("result-count", wit, f"{len(rs)} results for {len(exp)} combinations")
    for i, (r, e) in enumerate(zip(rs, exp)):
        if r["status"] != e["status"] or r["values"] != (e["values"] if isinstance(e["values"], dict) else {}):
            return ctx.violation("result-order-or-value", wit, f"result {i}: {r['status']} {r['values']} expected {e['status']} {e['values']}")
        if e["status"] == "failed" and r["err"]["path"] != e["err"]["path"]:
            return ctx.violation("item-error", wit, f"result {i}: error {r['err']} expected {e['err']}")
    return False


def map_jobs(rng, thorough):
    jobs = []
    kinds = ["single", "chain", "chain2", "multi", "branch"]
    for kind in kinds:
        for mapped in (["x"], ["x", "y"], ["y", "x"]):
            for mode_map in ("zip", "product"):
                lens_opts = [(n,) for n in range(0, 4)] if len(mapped) == 1 else [(a, b) for a in range(0, 4) for b in range(0, 4)]
                for lens in lens_opts:
                    if len(mapped) == 2 and not thorough and rng.random() < 0.6:
                        continue
                    for eh in ("raise", "continue"):
                        fail_opts = [()] + [(i,) for i in range(lens[0])][:2] + ([(0, lens[0] - 1)] if lens[0] >= 2 else [])
                        for fail_idx in fail_opts:
                            branch_idx = (1,) if kind == "branch" and lens[0] >= 2 else ()
                            for runner_mode in ("sync", "async"):
                                prog = inner_graph(kind, mapped, [item_names(mapped[0], lens[0])[i] for i in fail_idx],
                                                   [item_names(mapped[0], lens[0])[i] for i in branch_idx])
                                prog["name"] = "top"
                                seltag = ""
                                if kind in ("multi", "chain") and rng.random() < 0.5:
                                    # the mapped graph carries a graph-level selection: every item returns exactly the selected outputs
                                    prog["selected"] = ["p"] if kind == "multi" else ["q"]
                                    seltag = "/selected"
                                lists, provided = [], [["b", "in.b"]]
                                for p, n in sorted(zip(mapped, lens)):      # the caller's dict lists the names alphabetically, whatever map_over says
                                    items = item_names(p, n)
                                    lists.append([list_text(items), items])
                                    provided.append([p, list_text(items)])
                                j = gen.job(0, prog, provided, mode=runner_mode, lists=lists)
                                j["map"] = {"over": list(mapped), "mode": mode_map, "eh": eh}
                                jobs.append((j, f"runner.map/{kind}/{'+'.join(mapped)}/{mode_map}/{lens}/{eh}/fail{fail_idx}{seltag}"))
    return jobs


def node_jobs(rng, thorough):
    pairs = []
    for kind in ("single", "chain", "chain2", "multi", "branch", "signal"):
        for mapped in (["x"], ["x", "y"], ["y", "x"]):
            for mode_map in ("zip", "product"):
                lens_opts = [(n,) for n in range(0, 4)] if len(mapped) == 1 else [(a, b) for a in range(0, 4) for b in range(0, 4) if mode_map == "product" or a == b]
                for lens in lens_opts:
                    for eh in ("raise", "continue"):
                        fail_opts = [(), (0,)] + ([(1,)] if lens[0] >= 2 else [])
                        for fail_idx in fail_opts:
                            for rename in (False, True):
                                if not thorough and rng.random() < 0.5:
                                    continue
                                branch_idx = (1,) if kind == "branch" and lens[0] >= 2 else ()
                                clone = rng.choice([None, ["~all"], ["b" ]]) if not rename else None
                                j = mapping_job(rng, kind, mapped, lens, mode_map, eh, rng.choice(["sync", "async"]), rename, fail_idx, branch_idx, clone)
                                pairs.append((j, f"map_over/{kind}/{'+'.join(mapped)}/{mode_map}/{lens}/{eh}/fail{fail_idx}/{'ren' if rename else 'id'}"))
    # the mapped list is produced by an upstream (sync / async) generator node
    for kind in ("single", "chain", "chain2", "multi", "branch"):
        for eh in ("raise", "continue"):
            for fail_idx in ((), (0,), (1,)):
                for runner_mode in ("sync", "async"):
                    branch_idx = (1,) if kind == "branch" else ()
                    j = mapping_job(rng, kind, ["x"], (2,), "zip", eh, runner_mode, False, fail_idx, branch_idx, None, gen_source=True)
                    pairs.append((j, f"map_over/{kind}/generated-list/{eh}/fail{fail_idx}"))
    return pairs


# ---------------------------------------------------------------------------------------------
# completion orders of the worker pool (MapPool.tla) replayed on AsyncRunner.map
# ---------------------------------------------------------------------------------------------

def pool_configs(thorough):
    for n in (2, 3):
        for k in (0, 1, 2, 3):
            for raise_ in (False, True):
                fails = [()] + [(i,) for i in range(1, n + 1)] + ([(1, n)] if thorough or n == 3 else [])
                for f in fails:
                    yield n, k, f, raise_


def _pool_tlc(cfgk):
    n, k, fails, raise_ = cfgk
    cfg = f"_c10_pool_{os.getpid()}_{n}_{k}_{'-'.join(map(str, fails))}_{int(raise_)}.cfg"
    path = os.path.join(tlc.SPEC_DIR, cfg)
    with open(path, "w") as f:
        f.write(f'''SPECIFICATION Spec
CONSTANTS
  N = {n}
  K = {k}
  Failing = {{{",".join(map(str, fails))}}}
  Raise = {"TRUE" if raise_ else "FALSE"}
  Bug = "none"
INVARIANT InputOrder
INVARIANT FirstError
INVARIANT NoSpuriousError
INVARIANT ContinueCollectsAll
INVARIANT PoolBound
INVARIANT EmitOrder
PROPERTY Terminates
''')
    try:
        return tlc.run_tlc("MapPool", cfg=cfg, workers=1, heap="1g", check=False)
    finally:
        os.remove(path)


def run_pool(ctx, thorough):
    import concurrent.futures as cf
    n_orders = 0
    cfgs = list(pool_configs(thorough))
    with cf.ThreadPoolExecutor(12) as ex:
        results = list(ex.map(_pool_tlc, cfgs))
    for (n, k, fails, raise_), r in zip(cfgs, results):
        if r.violation or not r.ok:
            raise RuntimeError(f"MapPool model check failed for {(n, k, fails, raise_)}: {r.violation} {r.errors[:2]}")
        ctx.add_tlc(result=r)
        orders = []
        for x in r.results("ORDER"):
            if x not in orders:
                orders.append(x)
        items = item_names("x", n)
        prog = IR.prog("top", [IR.func("F", ["x"], ["p"], is_async=True, fail_args=[items[i - 1] for i in fails])])
        j = gen.job(0, prog, [["x", list_text(items)]], mode="async", lists=[[list_text(items), items]])
        j["map"] = {"over": ["x"], "mode": "zip", "eh": "raise" if raise_ else "continue"}
        for od in orders:
            n_orders += 1
            ctx.count()
            ctx.traces()
            sched = [f"F@{items[i - 1]}" for i in od["collected"]]
            o, rt, ctl = real_map(j, k=k, schedule=sched)
            wit = {"job": j, "k": k, "schedule": sched, "model_final": od["final"], "observed": {x: v for x, v in o.items() if x != "results"}}
            if o.get("deadlock"):
                ctx.violation("pool-deadlock", wit, f"runner.map did not terminate under completion order {sched} (k={k})")
                continue
            fin = od["final"]
            if fin[0] == "error":
                want = items[fin[1] - 1]
                if "raised" not in o or o["raised"]["kind"] != "body" or ["x", want] not in [list(a) for a in o["raised"].get("args", [])]:
                    ctx.violation("pool-first-error", wit, f"expected the error of item {want}, got {o.get('raised', 'no error')}")
                continue
            if "raised" in o:
                ctx.violation("pool-unexpected-raise", wit, f"{o['raised']}")
                continue
            got = [r2["values"].get("p", r2["err"]["path"]) for r2 in o["results"]]
            exp = [f"F.p(x={it})" if (i + 1) not in fails else "F" for i, it in enumerate(items)]
            if got != exp:
                ctx.violation("pool-result-order", wit, f"results {got} expected {exp} under completion order {sched}")
            if k and ctl is not None and ctl.max_inflight > k:
                ctx.violation("pool-bound", wit, f"{ctl.max_inflight} items in flight with max_concurrency={k}")
        ctx.distinct(f"pool/{n}/{k}/{fails}/{raise_}")
    ctx.bump("pool_orders_replayed", n_orders)


def fanout_boundary(ctx):
    """The unbounded fan-out guard of AsyncRunner.map ("keep inputs at <= 10000" without max_concurrency): EXACTLY 10000
    items are one result per item in input order, 10001 are refused before anything runs."""
    n_calls = [0]

    def body(x):
        n_calls[0] += 1
        return x

    from hypergraph.nodes.function import FunctionNode
    g = Graph([FunctionNode(body, name="F", output_name="y")])
    for n, accepted in ((10000, True), (10001, False)):
        n_calls[0] = 0
        try:
            with warnings.catch_warnings():
                warnings.simplefilter("ignore")
                rs = asyncio.run(AsyncRunner().map(g, {"x": list(range(n))}, map_over="x"))
            out = ("returned", len(rs), [r.values.get("y") for r in rs[:2]] + [rs[-1].values.get("y")], sorted({r.status.value for r in rs}))
        except Exception as e:  # noqa: BLE001
            out = ("raised", type(e).__name__, str(e)[:100], n_calls[0])
        ctx.count()
        ctx.traces()
        wit = {"items": n, "max_concurrency": None, "observed": list(map(str, out))}
        if accepted and out != ("returned", n, [0, 1, n - 1], ["completed"]):
            ctx.violation("unbounded-map-at-the-documented-limit", wit, f"map over exactly {n} items without max_concurrency: {out}")
        if not accepted and not (out[0] == "raised" and out[1] == "ValueError" and out[3] == 0):
            ctx.violation("unbounded-map-over-the-limit-not-refused", wit, f"map over {n} items without max_concurrency: {out}")


def map_options(ctx):
    """runner.map passes the per-run options on to every item: item i of map(..., select, on_missing) is exactly
    run(item i, select, on_missing) (the specification of map is one run per combination; what a single run does with
    these options is C16's subject).  Items take different branches, so a selected output is missing for some of them."""
    items = item_names("x", 3)
    sub = inner_graph("branch", ["x"], (), [items[1]])
    n = 0
    for mode in ("sync", "async"):
        for sel in (["n"], ["p"], ["p", "n"]):
            for om in ("ignore", "warn", "error"):
                for eh in ("continue", "raise"):
                    rt = build.Runtime(sub)
                    with warnings.catch_warnings():
                        warnings.simplefilter("ignore")
                        g = build.build_graph(rt, sub)
                    runner = SyncRunner() if mode == "sync" else AsyncRunner()

                    def call(fn, *a, **kw):
                        with warnings.catch_warnings(record=True) as wl:
                            warnings.simplefilter("always")
                            try:
                                r = fn(*a, **kw)
                                if asyncio.iscoroutine(r):
                                    r = asyncio.run(r)
                                return r, None, len([w for w in wl if issubclass(w.category, UserWarning)])
                            except Exception as e:  # noqa: BLE001
                                return None, e, len([w for w in wl if issubclass(w.category, UserWarning)])

                    def obs(r):
                        return {"status": r.status.value, "values": {k: IR.canon(v) for k, v in r.values.items()},
                                "error": type(r.error).__name__ if r.error is not None else None}
                    opts = dict(select=sel, on_missing=om, on_internal_override="ignore")
                    singles = []
                    for it in items:
                        r, e, nw = call(runner.run, g, {"x": it, "b": "in.b"}, error_handling="continue", **opts)
                        singles.append(({"raised": type(e).__name__} if e is not None else obs(r), nw))
                    rs, e, nw = call(runner.map, g, {"x": list(items), "b": "in.b"}, map_over="x", error_handling=eh, **opts)
                    ctx.count()
                    ctx.traces()
                    n += 1
                    wit = {"program": sub, "mode": mode, "select": sel, "on_missing": om, "error_handling": eh, "single_runs": singles}
                    fails = [i for i, (o, _) in enumerate(singles) if o.get("status") == "failed"]
                    if eh == "raise" and fails:
                        if e is None:
                            ctx.violation("map-options:raise-mode-no-error", dict(wit, map=[obs(r) for r in rs]),
                                          f"{mode} map(select={sel}, on_missing={om}, raise): item {fails[0]} fails on its own ({singles[fails[0]][0]}), map returned {[obs(r)['status'] for r in rs]}")
                        continue
                    if e is not None:
                        ctx.violation("map-options:map-raised", dict(wit, raised=type(e).__name__),
                                      f"{mode} map(select={sel}, on_missing={om}, {eh}) raised {type(e).__name__}: {str(e)[:120]}; the single runs give {[o for o, _ in singles]}")
                        continue
                    got = [obs(r) for r in rs]
                    if got != [o for o, _ in singles]:
                        ctx.violation("map-options:item-differs-from-its-run", dict(wit, map=got),
                                      f"{mode} map(select={sel}, on_missing={om}, {eh}): items {got}, the same runs one by one {[o for o, _ in singles]}")
                    elif nw != sum(k for _, k in singles):
                        ctx.violation("map-options:warnings", dict(wit, map_warnings=nw),
                                      f"{mode} map(select={sel}, on_missing={om}, {eh}): {nw} warnings, the single runs give {sum(k for _, k in singles)}")
    ctx.bump("map_option_cases", n)


def run(tier, seed):
    ctx = Ctx(PID, tier, seed, "model_checking")
    rng = random.Random(seed)
    thorough = tier == "thorough"
    # A. mapping nodes
    pairs = node_jobs(rng, thorough)
    for i, (j, _) in enumerate(pairs):
        j["id"] = i + 1
        ctx.distinct(IR.struct_hash([j["prog"], j["provided"], j["mode"]]))
    enginecheck.evaluate(ctx, pairs, "none", compare_node)
    # B. runner.map
    mj = map_jobs(rng, thorough)
    for i, (j, _) in enumerate(mj):
        j["id"] = i + 1
        ctx.distinct(IR.struct_hash([j["prog"], j["provided"], j["mode"], j["map"]]))
    res, stats = predict.model_predict([j for j, _ in mj])
    ctx.add_tlc(stats)
    for j, tag in mj:
        o, rt, _ = real_map(j, k=rng.choice([None, 1, 2, 3]) if j["mode"] == "async" else None)
        ctx.count()
        ctx.traces()
        compare_map(ctx, j, res[j["id"]], o, tag)
    ctx.sample({"mapping_node_case": pairs[len(pairs) // 2][1], "runner_map_case": mj[len(mj) // 2][1],
                "model_results": [{"status": r["status"], "values": r["values"]} for r in res[mj[len(mj) // 2][0]["id"]]["results"]][:3]})
    map_options(ctx)
    fanout_boundary(ctx)
    # C. worker pool completion orders
    run_pool(ctx, thorough)
    ctx.assumptions += ["Combos / list collection are defined in HGEngine.tla (Combos, ExecNode map branch) and evaluated by TLC; runner.map expectations = one RunProg per combination (Predict!ObserveMap)",
                        "MapPool.tla is model-checked (input order restored, first error in input order, pool bound, termination) for every configuration; every completion order TLC enumerates is replayed on AsyncRunner.map by the controlled driver"]
    return ctx.finish(rule="mapping nodes and runner.map over inner graphs {single, chain, multi-output, branching} x 1-2 mapped parameters x zip/product x list lengths 0..3 x raise/continue x failing items (first, second, first+last) x renamed wrappers x clone settings x runner; runner.map with select x on_missing x raise/continue = the single runs of its items; worker pool: N in 2..3, k in 0..3, failing subsets, raise/continue, ALL completion orders (TLC) replayed; distinct = structural hash")


def replay(path):
    w = json.load(open(path))["witness"]
    ctx = Ctx(PID, "quick", 0, "model_checking")
    j = w["job"]
    if j["map"]["over"]:
        res, _ = predict.model_predict([j])
        o, _, _ = real_map(j, k=w.get("k"), schedule=w.get("schedule"))
        compare_map(ctx, j, res[j["id"]], o, w.get("tag", "replay"))
    else:
        enginecheck.evaluate(ctx, [(j, w.get("tag", "replay"))], "none", compare_node)
    return 1 if ctx.violations else 0
