"""C15 max_concurrency bounds all node executions globally and never deadlocks (DESIGN.md 5/C15)."""
from __future__ import annotations

import concurrent.futures as cf
import json
import os
import random
import shutil

from .. import build, gen, plans, predict, sched, tlc
from .. import ir as IR
from ..core import Ctx

PID = "C15"

# (nesting depth, map fan-out, mapped level[, flags]); flags: "sync" = the last leaf of every level is a synchronous
# function, "pool" = the top-level call is runner.map(graph, ..., max_concurrency=k) over the items, "gen" = the last leaf of
# every level is an async generator, "badarity" = every item of the map fails (continue mode) because its first leaf returns too few values
SHAPES_QUICK = [(1, 2, None), (2, 2, None), (2, 2, 1), (2, 2, 2), (3, 2, None), (3, 2, 3),
                (1, 2, None, "sync"), (2, 2, 1, "sync"), (1, 3, 1, "pool"), (2, 2, 1, "pool"), (1, 2, 1, "pool+sync"),
                (1, 2, None, "gen"), (2, 2, 1, "gen"), (1, 3, 1, "badarity"),
                # "allsync": every function is synchronous (nested graphs without any async node); "wrap": the top-level graph
                # is exactly one node, a nested graph holding everything
                (1, 2, None, "allsync"), (2, 2, None, "allsync"), (1, 2, None, "wrap"), (1, 2, 1, "wrap"),
                # "cached": every function is cache=True and the runner has a (cold) cache backend
                (1, 2, None, "cached"), (2, 2, 1, "cached")]
SHAPES_THOROUGH = SHAPES_QUICK + [(2, 3, 1), (2, 3, 2), (3, 2, 2), (3, 3, 3), (3, 2, 1), (3, 3, 2),
                                  (2, 2, None, "sync"), (3, 2, 3, "sync"), (2, 3, 1, "pool"), (2, 3, 1, "pool+sync")]


def flags_of(shape):
    return set(shape[3].split("+")) if len(shape) > 3 else set()


def mc(plan, cfg, timeout=600, workers=4, simulate=None):
    tmp = tlc.scratch_dir("c15-")
    try:
        p = os.path.join(tmp, "plans.json")
        with open(p, "w") as f:
            json.dump([plan], f)
        return tlc.run_tlc("HGSched", cfg=cfg, env={"HG_PLANS": p}, workers=workers, check=False, timeout=timeout, simulate=simulate,
                           extra=("-depth", "600") if simulate else ())
    finally:
        shutil.rmtree(tmp, ignore_errors=True)


def policies(rng, n_random):
    yield "oldest", lambda keys: keys[0]
    yield "newest", lambda keys: keys[-1]
    for i in range(n_random):
        r = random.Random(rng.random())
        yield f"random{i}", (lambda keys, r=r: r.choice(keys))


def run(tier, seed):
    ctx = Ctx(PID, tier, seed, "model_checking")
    rng = random.Random(seed)
    thorough = tier == "thorough"
    shapes = SHAPES_THOROUGH if thorough else SHAPES_QUICK
    jobs = []
    for i, shape in enumerate(shapes):
        depth, fan, map_at = shape[:3]
        fl = flags_of(shape)
        prog, prov, lists = gen.conc_template(depth, fan, map_at=map_at, sync_last="sync" in fl, pool="pool" in fl, gen_last="gen" in fl, bad_arity="badarity" in fl,
                                               async_leaves="allsync" not in fl, wrap="wrap" in fl, cached="cached" in fl)
        jobs.append(gen.job(i + 1, prog, prov, mode="async", lists=lists))
    res, stats = predict.model_predict(jobs)
    ctx.add_tlc(stats)
    # ---- model checking of every (shape, k): bound, permits, all tasks ran, no deadlock (+ liveness on small plans)
    work = []
    for j, shape in zip(jobs, shapes):
        for k in (1, 2, 3):
            work.append((j, shape, k, plans.build_plan(len(work) + 1, j, res[j["id"]], k, root_pool="pool" in flags_of(shape))))

    def check_one(item):
        j, shape, k, plan = item
        try:
            r = mc(plan, "HGSched_mc.cfg", timeout=420 if thorough else 240, workers=2)
        except tlc.TLCError as e:
            if "timeout" not in str(e):
                raise
            # the plan's interleavings do not fit the time box: random behaviours instead (stated in the evidence)
            r = mc(plan, "HGSched_sim.cfg", timeout=300, workers=2, simulate="num=3000")
            r.simulated = True
        live = None
        if len(plan["tasks"]) <= 12:
            live = mc(plan, "HGSched_live.cfg", timeout=240, workers=2)
        return r, live
    with cf.ThreadPoolExecutor(6) as ex:
        results = list(ex.map(check_one, work))
    for (j, shape, k, plan), (r, live) in zip(work, results):
        if r.violation or not r.ok:
            raise RuntimeError(f"HGSched violates {r.violation} on shape {shape} k={k}: {r.counterexample()[:800]}")
        if live is not None and (live.violation or not live.ok):
            raise RuntimeError(f"HGSched liveness violated on shape {shape} k={k}: {live.violation}")
        ctx.add_tlc(result=r)
        if getattr(r, "simulated", False):
            ctx.bump("plans_simulated_not_exhausted")
        if live is not None:
            ctx.add_tlc(result=live)
            ctx.bump("liveness_checked_plans")
        ctx.bump("model_checked_plans")
    # ---- non-vacuity: the classic wrong designs must be caught on these bounds
    j, shape, k, plan = [w for w in work if w[1] == (2, 2, None) and w[2] == 2][0]
    b1 = mc(plan, "HGSched_bug_permit_at_graphnode.cfg")
    b2 = mc(plan, "HGSched_bug_no_permit.cfg")
    if not (b1.violation and b1.violation[0] == "deadlock"):
        raise RuntimeError(f"vacuity guard: permit_at_graphnode not caught: {b1.violation}")
    if not (b2.violation and b2.violation[1] == "Bounded"):
        raise RuntimeError(f"vacuity guard: no_permit not caught: {b2.violation}")
    j, shape, k, plan = [w for w in work if w[1] == (1, 2, None, "sync") and w[2] == 1][0]
    b3 = mc(plan, "HGSched_bug_sync_no_permit.cfg")
    if not (b3.violation and "SyncFits" in str(b3.violation)):
        raise RuntimeError(f"vacuity guard: sync_no_permit not caught: {b3.violation} {b3.out[-600:]}")
    ctx.bump("spec_mutants_caught", 3)
    # ---- replay: adversarial driver on the real AsyncRunner
    enum_plans = [plan for (j, shape, k, plan) in work if len(plan["tasks"]) <= 11 and not any(t["kind"] in ("map", "pool") for t in plan["tasks"])]
    scheds, st2 = sched.enumerate_schedules(enum_plans) if enum_plans else ({}, {"states": 0, "transitions": 0, "violations": []})
    ctx.add_tlc(st2)
    n_runs = 0
    for (j, shape, k, plan) in work:
        is_pool = "pool" in flags_of(shape)
        base, _ = run_with(j, [], None, 0, pool=is_pool)          # unlimited run, default release order
        if base["status"] != "completed":
            raise RuntimeError(f"baseline run failed: {base}")
        cases = [(name, None, pick) for name, pick in policies(rng, 6 if thorough else 2)]
        orders = scheds.get(plan["id"], [])
        for od in (rng.sample(orders, min(len(orders), 12 if thorough else 4))):
            cases.append(("tlc-order", od, None))
        ctx.distinct(f"{shape}/k{k}")
        for name, order, pick in cases:
            n_runs += 1
            ctx.count()
            ctx.traces()
            rt_obs, ctl = run_with(j, order, pick, k, pool=is_pool)
            wit = {"job": j, "shape": shape, "k": k, "policy": name, "schedule": order, "max_inflight": ctl.max_inflight,
                   "released": ctl.released[:40], "status": rt_obs["status"]}
            if rt_obs["status"] == "deadlock":
                ctx.violation("deadlock", wit, f"run did not terminate: shape {shape}, max_concurrency={k}, policy {name}")
                continue
            if ctl.max_inflight > k:
                ctx.violation("bound-exceeded", wit, f"{ctl.max_inflight} node functions executing with max_concurrency={k} (shape {shape}, policy {name})")
                continue
            if rt_obs["status"] != "completed" or rt_obs["values"] != base["values"]:
                ctx.violation("result-differs-from-unlimited", wit, f"status {rt_obs['status']}; values differ from the unlimited run")
                continue
            if ctl.max_inflight < min(k, widest(plan)):
                ctx.divergence("the framework kept fewer bodies in flight than the limit allows", {"shape": shape, "k": k, "max": ctl.max_inflight})
    ctx.bump("adversarial_runs", n_runs)
    # ---- a LOOP under a limit: observers outside the cycle compete with the cycle's nodes for the slots in every step; the
    # limited run must still be the unlimited run (same values, every node invoked on the same arguments), and stay bounded
    loop = IR.prog("top", [IR.func("bump", ["count"], ["count"], is_async=True),
                           IR.route("again", ["count"], ["bump", "END"], [["bump"], ["bump"], ["END"]]),
                           IR.func("obs1", ["count"], ["seen1"], is_async=True), IR.func("obs2", ["count"], ["seen2"], is_async=True),
                           IR.func("obs3", ["count", "k0"], ["seen3"], is_async=True)], max_iter=30)
    lj = gen.job(0, loop, [["count", "in.count"], ["k0", "in.k0"]], mode="async")
    base, bctl = run_with(lj, [], None, 0)
    base_calls = sorted((c["path"], json.dumps(c["args"])) for c in base.get("calls", []))
    for k in (1, 2, 3):
        for name, pick in policies(rng, 2):
            o, ctl = run_with(lj, [], pick, k)
            ctx.count()
            ctx.traces()
            wit = {"job": lj, "shape": "loop+observers", "k": k, "policy": name, "max_inflight": ctl.max_inflight, "status": o["status"],
                   "values": o.get("values"), "unlimited_values": base.get("values")}
            if o["status"] == "deadlock":
                ctx.violation("deadlock", wit, f"loop with observers did not terminate under max_concurrency={k}, policy {name}")
            elif ctl.max_inflight > k:
                ctx.violation("bound-exceeded", wit, f"{ctl.max_inflight} node functions executing with max_concurrency={k} (loop with observers, policy {name})")
            elif o["status"] != base["status"] or o["values"] != base["values"] or sorted((c["path"], json.dumps(c["args"])) for c in o["calls"]) != base_calls:
                ctx.violation("result-differs-from-unlimited", wit, f"loop with observers, max_concurrency={k}, policy {name}: status {o['status']} values {o['values']}; unlimited {base['status']} {base['values']} (or the invocations differ)")
    ctx.bump("loop_runs", 9)
    # ---- call level: TLC-generated histories of top-level calls sharing one context (spec/Limiter.tla)
    from .. import limiter
    caught = limiter.spec_mutants()
    for bug, v in caught.items():
        if not v:
            raise RuntimeError(f"vacuity guard: Limiter.tla does not reject the wrong protocol {bug}")
    ctx.bump("spec_mutants_caught", len(caught))
    hs2, r2 = limiter.histories("Limiter.cfg")
    ctx.add_tlc(result=r2)
    hs = list(hs2)
    hs3, r3 = limiter.histories("Limiter3.cfg")
    ctx.add_tlc(result=r3)
    hs += rng.sample(hs3, min(len(hs3), 1500 if thorough else 150))
    if not thorough:
        hs = rng.sample(hs2, 200) + hs[len(hs2):]
    kinds_seen = set()
    for h in hs:
        name, pick = rng.choice([("oldest", lambda keys: keys[0]), ("newest", lambda keys: keys[-1])])
        obs, ctl = limiter.replay(h, pick)
        ctx.count()
        ctx.traces()
        ctx.distinct("hist/" + "/".join(f"{c['kind']}:{c['k']}" for c in h))
        wit = {"history": h, "policy": name, "observed": obs}
        if obs is None:
            ctx.violation("deadlock", wit, f"a call of the history {[(c['kind'], c['k']) for c in h]} did not terminate")
            continue
        for i, o in enumerate(obs):
            kinds_seen.add(o["kind"])
            if o["outcome"] != limiter.EXPECTED_OUTCOME[o["kind"]]:
                raise RuntimeError(f"harness: call {o['kind']} ended as {o['outcome']}")
            if o["limit"] and o["max_inflight"] > o["limit"]:
                ctx.violation("bound-exceeded-after-history", wit,
                              f"call {i + 1} ({o['kind']}, max_concurrency={o['k']}) had {o['max_inflight']} bodies executing after {[(c['kind'], c['k']) for c in h[:i]]}")
                break
            want = min(o["limit"] or 99, limiter.WIDEST[o["kind"]])
            if o["max_inflight"] < want:
                ctx.divergence("a call was throttled below its own limit", {"history": h, "call": i + 1, "max_inflight": o["max_inflight"], "expected": want})
            if o["limiter_after"] is not None:
                ctx.divergence("a limiter stayed installed after a top-level call returned", {"history": h, "call": i + 1})
    ctx.bump("call_histories_replayed", len(hs))
    # ONE runner object serving histories in successive event loops (a script calling asyncio.run(...) repeatedly): whatever
    # the runner keeps between calls must not be tied to the loop or to the calls it served before
    from hypergraph import AsyncRunner
    reuse = [h for h in hs if any(c["k"] for c in h) and all(limiter.WIDEST[c["kind"]] > 0 for c in h)][: (24 if thorough else 8)]
    shared = AsyncRunner()
    for n_used, h in enumerate(reuse):
        obs, ctl = limiter.replay(h, lambda keys: keys[0], runner=shared)
        ctx.count()
        ctx.traces()
        wit = {"history": h, "runner": f"one AsyncRunner object, {n_used} histories served before in other event loops", "observed": obs}
        if obs is None:
            ctx.violation("deadlock", wit, f"a call of the history {[(c['kind'], c['k']) for c in h]} did not terminate on a runner that served {n_used} histories before")
            break
        bad = [(i, o) for i, o in enumerate(obs) if o["outcome"] != limiter.EXPECTED_OUTCOME[o["kind"]]]
        if bad:
            i, o = bad[0]
            ctx.violation("reused-runner-changes-outcome", wit,
                          f"call {i + 1} ({o['kind']}, max_concurrency={o['k']}) ended as {o['outcome']} on a runner that served {n_used} histories before; on a fresh runner it ends as {limiter.EXPECTED_OUTCOME[o['kind']]}")
            break
        over = [(i, o) for i, o in enumerate(obs) if o["limit"] and o["max_inflight"] > o["limit"]]
        if over:
            i, o = over[0]
            ctx.violation("bound-exceeded-after-history", wit, f"call {i + 1} ({o['kind']}, max_concurrency={o['k']}) had {o['max_inflight']} bodies executing on a reused runner")
            break
    ctx.bump("reused_runner_histories", len(reuse))
    if kinds_seen != set(limiter.EXPECTED_OUTCOME):
        raise RuntimeError(f"call kinds never replayed: {set(limiter.EXPECTED_OUTCOME) - kinds_seen}")
    ctx.sample({"shape(depth,fan,map_at)": shapes[-1], "k": 2, "tasks": len(work[-1][3]["tasks"]), "frames": len(work[-1][3]["frames"])})
    ctx.assumptions += ["HGSched.tla: permits are taken by leaf function nodes only, FIFO; graph and map nodes start child runs without a permit; all interleavings of Begin/Acquire/Complete/StepDone explored by TLC per plan and k",
                        "the driver counts a body as executing from the moment the framework calls it until the driver releases it; a synchronous function body counts at the instant it executes (HGSched SyncFits); sync gate functions run atomically and are not counted",
                        "Limiter.tla: top-level calls made one after the other from one task share the ContextVar; every executing call is bounded by its own max_concurrency (OwnLimit) and leaves no limiter behind (Clean); histories of 2 calls exhaustively, of 3 calls sampled, over 8 call kinds x k in {None,1,3}"]
    return ctx.finish(rule=f"shapes (nesting depth, map fan-out, mapped level) {shapes} x k in 1..3: exhaustive TLC model checking of HGSched (in-flight bound, permit accounting, all tasks ran, deadlock freedom; liveness on plans <= 12 tasks), two wrong designs must be caught; replay: adversarial driver holding every started body, release policies oldest/newest/random + TLC-enumerated completion orders; shapes with synchronous leaves and top-level runner.map worker pools; Limiter.tla call histories replayed in one context; distinct = (shape, k) and call histories")


def widest(plan):
    best = {}
    for t in plan["tasks"]:
        if t["kind"] == "leaf" and t["permit"] and not t["instant"]:
            best[(t["frame"], t["step"])] = best.get((t["frame"], t["step"]), 0) + 1
    return max(best.values()) if best else 0


def run_with(job, order, pick, k, pool=False):
    import warnings
    from hypergraph import AsyncRunner
    from .. import drive
    rt = build.Runtime(job["prog"])
    kw = {"max_concurrency": k} if k else {}
    with warnings.catch_warnings():
        warnings.simplefilter("ignore")
        from hypergraph import InMemoryCache
        cached = any(n.get("cache") for _, n in IR.all_nodes(job["prog"]))
        runner = AsyncRunner(cache=InMemoryCache()) if cached else AsyncRunner()
        if pool:
            # the program's only top-level node is the mapped graph: call runner.map on that graph itself
            gn = job["prog"]["nodes"][0]
            g = build.build_graph(rt, gn["sub"], prefix=gn["name"])
            items = build.provided_dict(job)[gn["map_over"][0]]
            inner = dict(gn["inmap"])[gn["map_over"][0]]
            res, ctl = drive.run_controlled(lambda: runner.map(g, {inner: list(items)}, map_over=inner, error_handling="continue", **kw),
                                            rt, schedule=order, pick=pick)
        else:
            g = build.build_graph(rt, job["prog"])
            res, ctl = drive.run_controlled(lambda: runner.run(g, build.provided_dict(job), error_handling="continue", **kw),
                                            rt, schedule=order, pick=pick)
    if ctl.deadlock:
        return {"status": "deadlock", "values": {}}, ctl
    if isinstance(res, BaseException):
        return {"status": "raised:" + type(res).__name__ + ":" + str(res)[:200], "values": {}}, ctl
    if pool:
        sts = sorted({r.status.value for r in res})
        return {"status": sts[0] if len(sts) == 1 else "mixed:" + ",".join(sts), "values": {str(i): build.values_of(r) for i, r in enumerate(res)}}, ctl
    return build.observe(rt, res), ctl


def replay(path):
    w = json.load(open(path))["witness"]
    pick = {"oldest": lambda keys: keys[0], "newest": lambda keys: keys[-1]}.get(w["policy"], lambda keys: keys[0])
    o, ctl = run_with(w["job"], w.get("schedule"), pick, w["k"])
    print(o["status"], ctl.max_inflight)
    return 1 if (o["status"] != "completed" or ctl.max_inflight > w["k"]) else 0
