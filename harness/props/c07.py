"""C07 Immutability of the derivation algebra (DESIGN.md 5/C07).

TLC explores ALL histories of derivation operations of spec/GraphAlgebra.tla up to a bound (and random
deeper ones with -simulate), checks on the model that the heap is append-only and that every object is a
function of its own derivation chain, and prints every history with the abstract object it creates.
Every printed history is then replayed on the real objects through the public API
(harness/c07_replay.py): receiver unchanged, siblings uninfluenced, new object really new, and the real
object equal to the model's abstract state on the observables the property names.
"""
from __future__ import annotations

import json
import multiprocessing as mp
import os
import random
import time

from .. import c07_replay as R
from .. import tlc
from ..core import Ctx

PID = "C07"
NPROC = min(16, tlc.NCPU)

# scenario plans: what TLC explores per tier.  obs = observe/run are operations of the history
# (they only matter for the lazy replay, where nothing else reads a property).
PLANS = {
    "smoke": [   # not a tier of the CLI: used by throw-away mutation scripts
        dict(name="g0-all-D3", scenario="g0", D=3, ops="all", obs=1, wide=0, lazy=2000),
        dict(name="nodes-D3", scenario="nodes", D=3, ops="node", obs=1, wide=0, lazy=2000),
    ],
    "nest": [    # not a tier of the CLI: the nesting scenario alone (plus the g0 plan the self-tests need)
        dict(name="g0-graph-D2", scenario="g0", D=2, ops="graph", obs=1, wide=0, lazy=500),
        dict(name="nest-D3", scenario="nest", D=3, ops="nest", obs=1, wide=0, lazy=1500),
    ],
    "quick": [
        dict(name="g1-graph-D3", scenario="g1", D=3, ops="graph", obs=1, wide=0, lazy=1500),
        dict(name="nodes-D3", scenario="nodes", D=3, ops="node", obs=1, wide=0, lazy=1500),
        dict(name="g0-graph-D4", scenario="g0", D=4, ops="graph", obs=0, wide=0, lazy=1500),
        # nesting: a graph with a binding, its graph node, (renamed,) wrapped in an outer graph, whose own and
        # INHERITED bindings are bound / unbound (with_inputs -> wrap -> unbind is depth 3)
        dict(name="nest-D3", scenario="nest", D=3, ops="nest", obs=1, wide=0, lazy=1500),
        # an ANONYMOUS graph: as_node(name=...) names the node, never the graph
        dict(name="anon-D3", scenario="anon", D=3, ops="all", obs=1, wide=0, lazy=1500),
        dict(name="all-sim-D6", scenario="all", D=6, ops="all", obs=1, wide=0, simulate=12, lazy=1500),
    ],
    # exhaustive to depth 4 per scenario (depth 5 is 1.3M histories for g0 alone), every operation on the
    # mixed heap to depth 3 with the larger alphabets, random histories of depth 6 (with the complete
    # fan-out of every state on the way) beyond
    "thorough": [
        dict(name="nodes-D4", scenario="nodes", D=4, ops="node", obs=1, wide=0, lazy=10000),
        dict(name="g0-all-D4", scenario="g0", D=4, ops="all", obs=1, wide=0, lazy=10000),
        dict(name="all-D3-wide", scenario="all", D=3, ops="all", obs=1, wide=1, lazy=10000),
        dict(name="g1-graph-D4", scenario="g1", D=4, ops="graph", obs=1, wide=0, lazy=10000),
        dict(name="nest-D4", scenario="nest", D=4, ops="nest", obs=1, wide=0, lazy=10000),
        dict(name="nest-all-D3-wide", scenario="nest", D=3, ops="all", obs=1, wide=1, lazy=10000),
        dict(name="anon-D4", scenario="anon", D=4, ops="all", obs=1, wide=0, lazy=10000),
        dict(name="g0-sim-D6", scenario="g0", D=6, ops="all", obs=1, wide=1, simulate=40, lazy=5000),
        dict(name="g1-sim-D6", scenario="g1", D=6, ops="all", obs=1, wide=1, simulate=40, lazy=5000),
        dict(name="all-sim-D6", scenario="all", D=6, ops="all", obs=1, wide=1, simulate=30, lazy=5000),
    ],
}


# ---------------------------------------------------------------------------------------------
# TLC
# ---------------------------------------------------------------------------------------------
def explore(plan, seed, workers):
    env = {"C07_D": plan["D"], "C07_SCENARIO": plan["scenario"], "C07_OPS": plan["ops"], "C07_OBS": plan["obs"],
           "C07_WIDE": plan["wide"], "C07_EMIT": 1, "C07_FULL": 0 if plan.get("simulate") else plan.get("full", 1)}
    extra, sim = [], None
    if plan.get("simulate"):
        sim = f"num={plan['simulate']}"
        extra = ["-depth", str(plan["D"] + 1), "-seed", str(seed + 1)]
    res = tlc.run_tlc("C07_MC", cfg="C07_MC.cfg", env=env, workers=workers, heap="4g", extra=extra, simulate=sim, check=False)
    if res.violation is not None or res.errors:
        raise RuntimeError(f"GraphAlgebra: the MODEL violates {res.violation or res.errors} in plan {plan['name']}:\n" + res.counterexample())
    if not (res.ok or "Finished in" in res.out or (sim and "The number of states generated" in res.out)):
        raise RuntimeError("TLC did not finish:\n" + res.out[-3000:])
    base = res.results("BASE")
    lines = res.results("HIST")
    if not base or not lines:
        raise RuntimeError("TLC printed no histories:\n" + res.out[-3000:])
    if sim:
        m = __import__("re").search(r"The number of states generated: (\d+)", res.out)
        res.generated = int(m.group(1)) if m else len(lines)
        res.distinct = len({json.dumps(x["ops"]) for x in lines})
    return res, base[0], lines


def _explore_slim(plan, seed, workers):
    res, base, lines = explore(plan, seed, workers)
    return {"distinct": res.distinct, "generated": res.generated, "wall": res.wall}, base, lines


# ---------------------------------------------------------------------------------------------
# Parallel replay (fork: the trie is inherited, tasks are index paths into it)
# ---------------------------------------------------------------------------------------------
_JOB = {}


def _node_at(path):
    node = _JOB["root"]
    nodes = []
    for i in path:
        node = node["ch"][i]
        nodes.append(node)
    return nodes


def _eager_task(path):
    rp = R.Replayer(_JOB["scenario"], _JOB["base"], refs=_JOB["refs"])
    visited = rp.walk(_JOB["root"], _node_at(path))
    return visited, rp.stats, [f.as_dict() for f in rp.findings], rp.divergences


def _lazy_task(paths):
    rp = R.Replayer(_JOB["scenario"], _JOB["base"], refs=True)
    for path in paths:
        hist, objs = R.history_of(_node_at(path))
        rp.linear(hist, objs, lazy=True)
        if len(rp.findings) >= 40:
            break
    return len(paths), rp.stats, [dict(f.as_dict(), mode="lazy") for f in rp.findings], rp.divergences


def _subtree_size(node):
    return 1 + sum(_subtree_size(c) for c in node["ch"])


def _tasks(root):
    """Depth-2 subtrees (and childless depth-1 nodes), largest first."""
    out = []
    for i, c in enumerate(root["ch"]):
        if not c["ch"]:
            out.append(((i,), 1))
        for j, cc in enumerate(c["ch"]):
            out.append(((i, j), _subtree_size(cc)))
    out.sort(key=lambda t: -t[1])
    return [p for p, _ in out]


def _leaves(node, path, out):
    if not node["ch"]:
        out.append(tuple(path))
    for i, c in enumerate(node["ch"]):
        path.append(i)
        _leaves(c, path, out)
        path.pop()


def replay_plan(ctx, plan, base, lines, rng, findings, t_budget=None):
    root, n = R.build_trie(lines)
    _JOB.update(root=root, scenario=plan["scenario"], base=base, refs=plan.get("refs", True))
    tasks = _tasks(root)
    leaves = []
    _leaves(root, [], leaves)
    leaves = [p for p in leaves if p]
    if len(leaves) > plan.get("lazy", 0):
        leaves = rng.sample(leaves, plan.get("lazy", 0))
    chunks = [leaves[i:i + 100] for i in range(0, len(leaves), 100)]
    stats = {}
    visited = lazy_n = 0
    with mp.get_context("fork").Pool(NPROC) as pool:
        r1 = pool.imap_unordered(_eager_task, tasks, chunksize=1)
        r2 = pool.imap_unordered(_lazy_task, chunks, chunksize=1)
        for v, st, fs, dv in r1:
            visited += v
            _merge(ctx, stats, st, fs, dv, findings, plan, "eager")
        for v, st, fs, dv in r2:
            lazy_n += v
            _merge(ctx, stats, st, fs, dv, findings, plan, "lazy")
    depth1 = len(root["ch"])
    # every trie node is visited exactly once as a member of a task subtree; depth-1 nodes are the
    # (re-executed) prefixes of the tasks
    if not findings and visited + sum(1 for c in root["ch"] if c["ch"]) != n:
        raise RuntimeError(f"replay visited {visited} of {n} histories (depth-1: {depth1})")
    return n, lazy_n, stats


def _merge(ctx, stats, st, fs, dv, findings, plan, mode):
    for k, v in st.items():
        stats[k] = stats.get(k, 0) + v
    for f in fs:
        f["plan"] = plan["name"]
        f["scenario"] = plan["scenario"]
        f.setdefault("mode", mode)
        findings.append(f)
    for what, c in dv.items():
        if "divergence:" + what not in ctx.notes:
            ctx.divergence(what, {"first_seen_in_plan": plan["name"]})
        ctx.bump("divergence:" + what, c)


# ---------------------------------------------------------------------------------------------
# Reporting: confirm on fresh objects along the single history, then report (few per class)
# ---------------------------------------------------------------------------------------------
def confirm(scenario, base, hist, objs, klass, lazy):
    rp = R.Replayer(scenario, base)
    rp.linear(hist, objs, lazy=lazy)
    return any(f.klass == klass for f in rp.findings)


def report(ctx, findings, bases):
    """Per witness class: re-execute candidate histories (shortest first) on fresh objects along the single
    history; report up to 3 that reproduce.  A class seen only with shared prefix objects (the culprit
    operation sits in another branch of the trie) is still reported, marked as such."""
    by = {}
    for f in findings:
        by.setdefault(f["class"], []).append(f)
    for klass in sorted(by):
        fs = sorted(by[klass], key=lambda f: (len(f["detail"]["history"]), R.dumps(f["detail"]["history"])))
        ctx.bump("findings:" + klass, len(fs))
        seen, confirmed, unconfirmed = set(), [], []
        for f in fs:
            key = (f["scenario"], f.get("mode"), R.dumps(f["detail"]["history"]))
            if key in seen:
                continue
            seen.add(key)
            if len(seen) > 12 or len(confirmed) >= 3:
                break
            lazy = f.get("mode") == "lazy"
            ok = confirm(f["scenario"], bases[f["plan"]], f["detail"]["history"], f["detail"]["objects"], klass, lazy)
            (confirmed if ok else unconfirmed).append(f)
        for f in confirmed or unconfirmed[:1]:
            lazy = f.get("mode") == "lazy"
            wit = {"scenario": f["scenario"], "plan": f["plan"], "mode": "lazy" if lazy else "eager",
                   "base": bases[f["plan"]], "history": f["detail"]["history"], "objects": f["detail"]["objects"],
                   "finding": f, "confirmed_on_fresh_objects": bool(confirmed)}
            ctx.violation(klass, wit, ("" if confirmed else "[seen only with shared prefix objects] ") + f["summary"])


# ---------------------------------------------------------------------------------------------
# Binding self-tests
# ---------------------------------------------------------------------------------------------
def selftests(ctx, base, lines):
    """(i) deliberately mutating fake operations must be flagged, (ii) a perturbed model projection must
    be flagged, (iii) the unperturbed replay of the same histories is silent."""
    root, _ = R.build_trie(lines)

    def hist_for(*keys):
        node, hist, objs = root, [], []
        for k in keys:
            node = node["_k"][k]
            hist.append(node["op"])
            objs.append(node["obj"])
        return hist, objs

    h1, o1 = hist_for("bind:1:x")
    h2, o2 = hist_for("bind:1:x", "bind:2:a")
    n = 0

    def classes(rp):
        return sorted({f.klass for f in rp.findings})

    # silent on the real operations
    rp = R.Replayer("g0", base)
    rp.linear(h2, o2)
    rp.linear(h2, o2, lazy=True)
    if rp.findings:      # the tree under check is broken: the main replay reports it; the fakes must still be flagged
        ctx.bump("selftest_clean_replay_not_silent")

    # (i-a) bind that also writes the receiver's binding dict in place
    def bind_inplace(cat, op, recv, k):
        new = R.api_apply(cat, op, recv, k)
        if op["op"] == "bind":
            recv._bound[op["arg"][0]] = "bv%d" % k      # scratch object of the self-test only
            recv.__dict__.pop("inputs", None)
        return new
    rp = R.Replayer("g0", base, apply=bind_inplace)
    rp.linear(h1, o1)
    if not any(c.startswith("receiver-changed:bind:") for c in classes(rp)):
        raise RuntimeError(f"self-test: in-place bind not flagged: {classes(rp)}")
    n += 1

    # (i-b) an operation that returns its receiver
    def bind_self(cat, op, recv, k):
        if op["op"] == "bind":
            recv._bound[op["arg"][0]] = "bv%d" % k
            recv.__dict__.pop("inputs", None)
            return recv
        return R.api_apply(cat, op, recv, k)
    rp = R.Replayer("g0", base, apply=bind_self)
    try:
        rp.linear(h1, o1)
    except Exception:  # noqa: BLE001 - the pool is inconsistent after the fake op, the finding is what counts
        pass
    if "not-a-new-object:bind" not in classes(rp):
        raise RuntimeError(f"self-test: op returning self not flagged: {classes(rp)}")
    n += 1

    # (i-c) the second bind also writes into the FIRST object (not its receiver): a sibling is influenced
    def bind_leak(cat, op, recv, k):
        new = R.api_apply(cat, op, recv, k)
        if op["op"] == "bind" and op["tgt"] == 2:
            first = rp.pool.objs[0]
            first._bound[op["arg"][0]] = "bv%d" % k
            first.__dict__.pop("inputs", None)
        return new
    rp = R.Replayer("g0", base, apply=bind_leak)
    rp.linear(h2, o2)
    if "sibling-influenced:bind" not in classes(rp):
        raise RuntimeError(f"self-test: leak into a non-receiver not flagged: {classes(rp)}")
    n += 1

    # (ii) perturbed model projection
    def perturb(o):
        if o["kind"] == "graph" and o["opt"]:
            return dict(o, opt=o["opt"][:-1])
        return o
    rp = R.Replayer("g0", base, project=perturb)
    rp.linear(h1, o1)
    if not any(c.startswith("model-mismatch:") and c.endswith("inputs.optional") for c in classes(rp)):
        raise RuntimeError(f"self-test: perturbed model projection not flagged: {classes(rp)}")
    n += 1

    def perturb2(o):
        return dict(o, bound={k: v + 1 for k, v in o["bound"].items()}) if isinstance(o["bound"], dict) else o
    rp = R.Replayer("g0", base, project=perturb2)
    rp.linear(h1, o1, lazy=True)
    if "model-mismatch:bind:bound" not in classes(rp):
        raise RuntimeError(f"self-test: perturbed bound tag not flagged (lazy): {classes(rp)}")
    n += 1
    ctx.bump("binding_selftests", n)


def selftests_nest(ctx, base, lines):
    """Nesting: an unbind on the OUTER graph that releases an inherited binding in place on the nested graph
    must be flagged (the nested graph and its graph node are live objects of the heap and are re-observed),
    in the eager and in the lazy replay; the real operations are silent on the same history."""
    root, _ = R.build_trie(lines)
    node, hist, objs = root, [], []
    for k in ("with_inputs:2:x,u", "wrap:3:O", "unbind:4:u"):
        node = node["_k"][k]
        hist.append(node["op"])
        objs.append(node["obj"])
    if not (objs[1]["kind"] == "outer" and "u" in objs[1]["ibound"] and not objs[1]["bound"] and objs[2]["ibound"] == objs[1]["ibound"]):
        raise RuntimeError(f"self-test: the nesting history does not unbind an inherited binding: {objs}")

    def unbind_inner(cat, op, recv, k):
        new = R.api_apply(cat, op, recv, k)
        if op["op"] == "unbind":
            for n in recv.nodes.values():
                inner = n.graph                             # scratch objects of the self-test only
                for name in n.map_inputs_to_params({op["arg"][0]: None}):
                    if inner._bound.pop(name, None) is not None:
                        inner.__dict__.pop("inputs", None)
        return new

    n = 0
    for lazy in (False, True):
        rp = R.Replayer("nest", base)
        rp.linear(hist, objs, lazy=lazy)
        if rp.findings:
            ctx.bump("selftest_clean_replay_not_silent")
        rp = R.Replayer("nest", base, apply=unbind_inner)
        rp.linear(hist, objs, lazy=lazy)
        if "sibling-influenced:unbind" not in {f.klass for f in rp.findings}:
            raise RuntimeError(f"self-test: in-place release of an inherited binding on the nested graph not flagged "
                               f"(lazy={lazy}): {sorted({f.klass for f in rp.findings})}")
        n += 1
    ctx.bump("binding_selftests", n)


# ---------------------------------------------------------------------------------------------
def run(tier, seed):
    ctx = Ctx(PID, tier, seed, "model_checking")
    rng = random.Random(seed)
    plans = PLANS[tier]
    # TLC: up to 4 plans concurrently (separate JVMs, started from forked helper processes so that the
    # replay of a finished plan overlaps with the exploration of the next ones)
    per = max(2, NPROC // min(len(plans), 4))
    findings, bases, details = [], {}, []
    did_selftest = did_nest_selftest = False
    sample = None
    with mp.get_context("fork").Pool(min(len(plans), 4)) as tlc_pool:
        futs = [tlc_pool.apply_async(_explore_slim, (p, seed, per)) for p in plans]
        for plan, fut in zip(plans, futs):
            st, base, lines = fut.get()
            ctx.add_tlc(stats={"states": st["distinct"], "transitions": st["generated"]})
            ctx.bump("tlc_wall_s_sum", round(st["wall"], 1))
            if plan["scenario"] == "g0" and not did_selftest:
                selftests(ctx, base, lines)
                did_selftest = True
            if plan["scenario"] == "nest" and plan["ops"] == "nest" and not did_nest_selftest:
                selftests_nest(ctx, base, lines)
                did_nest_selftest = True
            t1 = time.time()
            n, lazy_n, stats = replay_plan(ctx, plan, base, lines, rng, findings)
            bases[plan["name"]] = base
            ctx.count(n)
            ctx.traces(n + lazy_n)
            for x in lines:
                if len(x["ops"]) >= 2:
                    ctx.distinct(plan["scenario"] + "|" + "|".join(R.opkey(o) for o in x["ops"]))
            for k, v in stats.items():
                ctx.bump(k, v)
            ctx.bump("lazy_histories", lazy_n)
            details.append({"plan": plan["name"], "tlc_distinct_states": st["distinct"], "tlc_wall_s": round(st["wall"], 1),
                            "histories": n, "lazy_histories": lazy_n, "replay_wall_s": round(time.time() - t1, 1),
                            "simulate": bool(plan.get("simulate")), "depth_bound": plan["D"]})
            if sample is None:
                mid = [x for x in lines if len(x["ops"]) == 3]
                if mid:
                    sample = {"history": mid[len(mid) // 2]["ops"], "object_created": mid[len(mid) // 2]["obj"]}
            del lines
    if not did_selftest:
        raise RuntimeError("no g0 plan: binding self-tests did not run")
    if sample:
        ctx.sample(sample)
    _JOB.clear()
    report(ctx, findings, bases)
    ctx.assumptions += [
        "node bodies are harness-generated pure string functions; the catalogue (G0: 3-node DAG with a default, G1: 2-node cycle with a route gate and a tail, F: 2-input function node, extras Z, W; GB = G0 with x bound before the history starts) is the same in GraphAlgebra.tla and c07_replay.py",
        "nesting: wrap = Graph([graph_node], name='O') only for graph nodes none of whose inputs is one of its own outputs; an outer graph admits bind / unbind (own or only-inherited names) / select / as_node / observe / run; bindings of the wrapped graph are inherited under the names the graph node exposes, own bindings take precedence",
        "TLC checked on the model: AppendOnly (action property), Independent (object = function of its derivation chain), OneNew, WellFormed",
        "a container handed out by an object that writes through to THAT SAME object (InputSpec.bound / .entrypoints, GraphNode.map_config[0], FunctionNode.defaults) involves no derivation operation: recorded as divergence, never a verdict; writing through to ANOTHER object is a violation",
        "model comparison on sets for inputs (order differences are divergences)",
    ]
    exhaustive_plans = [p["name"] for p in plans if not p.get("simulate")]
    return ctx.finish(
        rule="every history (sequence of derivation operations, each applied to ANY object created so far, "
             "interleaved with observe/run) that TLC reaches in GraphAlgebra.tla within the plan's depth bound "
             f"(exhaustive plans: {exhaustive_plans}; -simulate beyond), replayed on the real objects with every live "
             "object observed after every step (eager) and a sample replayed with cold caches (lazy); "
             "distinct = distinct history of >= 2 operations",
        exhaustive=False, extra={"plans": details})


def replay(path):
    w = json.load(open(path))["witness"]
    rp = R.Replayer(w["scenario"], w["base"])
    rp.linear(w["history"], w["objects"], lazy=w.get("mode") == "lazy")
    klass = w["finding"]["class"]
    hit = [f for f in rp.findings if f.klass == klass]
    for f in rp.findings:
        print(f"  {f.klass}: {f.summary[:300]}")
    if hit:
        print(f"VIOLATION property={PID} replay={path}")
        return 1
    print(f"[{PID}] replay: {klass} not reproduced")
    return 0
