"""C02 Determinism: results independent of runner, schedule, concurrency, node order (DESIGN.md 5/C02)."""
from __future__ import annotations

import collections
import copy
import itertools
import json
import random

from .. import build, enginecheck, gen, plans, predict, sched
from .. import ir as IR
from ..core import Ctx

PID = "C02"


def multiset(calls):
    return collections.Counter((c["path"], json.dumps(c["args"])) for c in calls)


def outcome_diff(a, b, what):
    """a, b observations of non-failing / failing runs.  Returns text or None."""
    if a["status"] != b["status"]:
        return f"{what}: status {a['status']} vs {b['status']}"
    if a["err"]["kind"] != b["err"]["kind"] or a["err"]["path"] != b["err"]["path"]:
        return f"{what}: error {a['err']} vs {b['err']}"
    if a["status"] == "completed":
        if a["values"] != b["values"]:
            return f"{what}: values differ {dict_diff(a['values'], b['values'])}"
        if multiset(a["calls"]) != multiset(b["calls"]):
            return f"{what}: invocation multisets differ"
    return None


def schedule_space(plan):
    """Rough size of the completion-order space: product of factorials of the step widths,
    times an interleaving factor for concurrently active frames."""
    import math
    widths = {}
    for t in plan["tasks"]:
        if t["kind"] == "leaf" and not t["instant"]:
            widths[(t["frame"], t["step"])] = widths.get((t["frame"], t["step"]), 0) + 1
    size = 1
    for w in widths.values():
        size *= math.factorial(w)
    nested = len(plan["frames"]) - 1
    leaves = sum(widths.values())
    if nested and leaves > 8:
        return 10 ** 9          # frames run concurrently with their siblings: interleavings explode
    return size * (4 ** nested)


def dict_diff(a, b):
    return {k: (a.get(k), b.get(k)) for k in set(a) | set(b) if a.get(k) != b.get(k)}


def base_programs(rng, n):
    out = []
    tries = 0
    while len(out) < n and tries < 50000:
        tries += 1
        r = rng.random()
        if r < 0.4:
            prog, _ = gen.random_flat(rng, n_nodes=(3, 5), cyclic=0.0, gate=0.0, multi_out=0.3, defaults=0.2, bound=0.2, fail=0.08, gens=0.2)
            subs = list(gen.convex_subsets(prog))
            if subs and rng.random() < 0.5:
                S = rng.choice(subs)
                prog = gen.nest(prog, S, pos=rng.randint(0, len(prog["nodes"]) - len(S)))
            kind = "dag"
        else:
            prog, _ = gen.random_flat(rng, n_nodes=(2, 5), cyclic=0.35, gate=0.6, multi_out=0.2, defaults=0.2, bound=0.1, emit=0.2, fail=0.08, max_iter=8, gens=0.15)
            kind = "gated"
        try:
            prov = build.suggest_inputs(prog, rng)
        except Exception:  # noqa: BLE001
            continue
        j = gen.job(0, prog, prov, mode="sync")
        o, _, _ = predict.try_real(j)
        if "rejected" in o:
            continue
        out.append((prog, prov, kind, o))
    return out


def run(tier, seed):
    ctx = Ctx(PID, tier, seed, "model_checking")
    rng = random.Random(seed)
    thorough = tier == "thorough"
    bases = base_programs(rng, 300 if thorough else 150)
    cap = 24 if thorough else 6
    ks = (0, 1, 2, 3) if thorough else (0, 2)
    # --- model: sync and async predictions (L2 |= determinism clauses are checked in HGSched / Predict)
    jobs = []
    for i, (prog, prov, kind, o_sync) in enumerate(bases):
        jobs.append(gen.job(2 * i + 1, prog, prov, mode="sync"))
        jobs.append(gen.job(2 * i + 2, sched.asyncify(prog), prov, mode="async"))
    res, stats = predict.model_predict(jobs, prop="none")
    ctx.add_tlc(stats)
    # --- TLC enumerates the completion orders of every step under every concurrency limit
    plan_list, plan_of, big = [], {}, []
    for i, (prog, prov, kind, o_sync) in enumerate(bases):
        ja = jobs[2 * i + 1]
        for k in ks:
            pid = len(plan_of) + 1
            plan = plans.build_plan(pid, ja, res[ja["id"]], k)
            plan_of[pid] = (i, k)
            if schedule_space(plan) <= 200:
                plan_list.append(plan)
            else:
                big.append(pid)      # too many completion orders to enumerate: sampled with random release policies
    scheds, st2 = sched.enumerate_schedules(plan_list)
    ctx.add_tlc(st2)
    if st2["violations"]:
        raise RuntimeError(f"HGSched invariant violated on the model: {st2['violations'][:1]}")
    for pid in big:
        scheds[pid] = [None] * cap
    ctx.bump("plans_enumerated_exhaustively", len(plan_list))
    ctx.bump("plans_sampled", len(big))
    n_sched = 0
    for pid, orders in sorted(scheds.items()):
        i, k = plan_of[pid]
        prog, prov, kind, o_sync = bases[i]
        ja, ms, ma = jobs[2 * i + 1], res[jobs[2 * i]["id"]], res[jobs[2 * i + 1]["id"]]
        if len(orders) > cap:
            orders = rng.sample(orders, cap)
        pick_r = random.Random(rng.random())
        ctx.distinct(IR.struct_hash([prog, prov]))
        for order in orders:
            n_sched += 1
            ctx.count()
            ctx.traces()
            o, ctl = sched.run_schedule(ja, order or [], k, pick=(None if order is not None else (lambda keys: pick_r.choice(keys))))
            wit = {"job": ja, "k": k, "schedule": order, "sync": {x: o_sync[x] for x in ("status", "values", "err")},
                   "async": {x: o[x] for x in ("status", "values", "err")}, "kind": kind}
            if o["status"] == "deadlock":
                ctx.violation("deadlock", wit, f"run did not terminate under schedule {order} with max_concurrency={k}")
                continue
            d = outcome_diff(o_sync, o, "sync vs async schedule")
            if d:
                ctx.violation("runner-or-schedule-dependent", wit, d)
                continue
            if o["status"] == "failed":
                # every partial value the sync runner returns is returned identically by the async runner
                # ... except where a sibling that only the async runner still completed in the failing
                # step (sync stops at the first failure in list order) has produced that name anew
                extra = multiset(o["calls"]) - multiset(o_sync["calls"])
                nodes_by = {n["name"]: n for n in prog["nodes"]}
                renewed = {x for (p, _a) in extra for x in nodes_by.get(p.split("/")[0], {"outputs": []})["outputs"]}
                bad = {k2: (v, o["values"].get(k2)) for k2, v in o_sync["values"].items() if o["values"].get(k2) != v and k2 not in renewed}
                if bad:
                    ctx.violation("partial-values", wit, f"sync partial values not returned identically by async: {bad}")
                    continue
            # nodes of one step never observe each other's outputs: per-node argument sequences = model's
            if predict.per_node(o["calls"]) != predict.per_node(ma["calls"]) and o["status"] == "completed":
                ctx.violation("same-step-visibility", wit, "per-node argument sequences differ from the model's (a node read a value written in its own step?)")
                continue
        ctx.sample({"program_kind": kind, "k": k, "schedules": orders[:2]}, limit=2)
    # --- node list permutations (unique output names)
    n_perm = 0
    for i, (prog, prov, kind, o_sync) in enumerate(bases):
        outs = [o for n in prog["nodes"] for o in n["outputs"]]
        if len(outs) != len(set(outs)) or len(prog["nodes"]) > 5:
            continue
        perms = list(itertools.permutations(range(len(prog["nodes"]))))
        for perm in rng.sample(perms, min(len(perms), 6 if thorough else 2)):
            p2 = dict(prog, nodes=[prog["nodes"][x] for x in perm])
            for mode in ("sync", "async"):
                j2 = gen.job(0, p2, prov, mode=mode)
                o2, _, _ = predict.try_real(j2)
                n_perm += 1
                ctx.count()
                if "rejected" in o2:
                    ctx.violation("order-dependent-rejection", {"job": j2}, f"permuted node list rejected: {o2}")
                    continue
                # a failing run may stop at a different node of the same step in a different list order: compare non-failing runs
                if o_sync["status"] == "completed" or o2["status"] == "completed":
                    d = outcome_diff(o_sync, o2, f"node order {perm} ({mode})")
                    if d:
                        ctx.violation("node-order-dependent", {"job": j2, "perm": perm, "base": {x: o_sync[x] for x in ("status", "values", "err")},
                                                               "permuted": {x: o2[x] for x in ("status", "values", "err")}}, d)
    ctx.bump("schedules_replayed", n_sched)
    ctx.bump("permutation_runs", n_perm)
    ctx.assumptions += ["completion orders are enumerated by TLC on HGSched.tla over the plan tree derived from the engine model; each is replayed on the real AsyncRunner by a controlled driver that releases parked bodies one at a time",
                        "interrupts are excluded (C14)"]
    return ctx.finish(rule=f"seeded random DAG (optionally with one nested graph) and gated/cyclic programs incl. failing nodes; for each, every completion order of every superstep under max_concurrency in {list(ks)} as enumerated by TLC (at most {cap} per program and limit, sampled beyond), replayed on AsyncRunner and compared with the SyncRunner run; plus node-list permutations when output names are unique; distinct = structural hash of (program, provided)")


def replay(path):
    w = json.load(open(path))["witness"]
    if "schedule" not in w:
        return 0
    o, ctl = sched.run_schedule(w["job"], w["schedule"], w["k"])
    js = gen.job(0, sched.asyncify(w["job"]["prog"], False), w["job"]["provided"], mode="sync")
    os_, _, _ = predict.try_real(js)
    d = outcome_diff(os_, o, "sync vs async schedule")
    print(d or "no difference")
    return 1 if d else 0
