"""C12 Events of every terminated run form a complete, well-nested span tree (DESIGN.md 5/C12)."""
from __future__ import annotations

import asyncio
import copy
import json
import random
import warnings

from hypergraph import AsyncRunner, InMemoryCache, SyncRunner

from .. import build, events, gen, predict, sched
from .. import ir as IR
from ..core import Ctx
from . import c10

PID = "C12"


def programs(rng, n):
    out = []
    tries = 0
    while len(out) < n and tries < 20000:
        tries += 1
        prog, _ = gen.random_flat(rng, n_nodes=(2, 5), cyclic=0.25, gate=0.45, multi_out=0.2, fail=0.0, emit=0.2, defaults=0.2)
        plain = all(x["kind"] == "func" for x in prog["nodes"]) and not any(x["wait_for"] for x in prog["nodes"])
        kind = "flat"
        if plain:
            subs = list(gen.convex_subsets(prog))
            if subs and rng.random() < 0.7:
                try:
                    prog = gen.nest(prog, rng.choice(subs))
                    kind = "nested"
                    inner = [x for x in prog["nodes"] if x["kind"] == "graph"][0]
                    s2 = list(gen.convex_subsets(inner["sub"]))
                    if s2 and rng.random() < 0.4:
                        inner["sub"] = gen.nest(inner["sub"], rng.choice(s2), name="deep")
                        inner["sub"]["max_iter"] = 1000
                        kind = "nested2"
                except Exception:  # noqa: BLE001
                    continue
        try:
            prov = build.suggest_inputs(prog, rng)
        except Exception:  # noqa: BLE001
            continue
        out.append((prog, prov, kind))
    return out


def sibling_graph_programs():
    """Two or three nested graphs that become ready in the same superstep (their runs overlap under
    the async runner), optionally a third one downstream."""
    out = []
    for n in (2, 3):
        nodes = []
        for i in range(n):
            inner = IR.prog(f"g{i}", [IR.func(f"I{i}a", ["x"], [f"u{i}"], is_async=True), IR.func(f"I{i}b", [f"u{i}"], [f"v{i}"], is_async=True)], max_iter=1000)
            nodes.append(IR.graph_node(inner, name=f"node_{i}", inputs=["x"], outputs=[f"u{i}", f"v{i}"]))
        nodes.append(IR.func("J", [f"v{i}" for i in range(n)], ["j"]))
        out.append((IR.prog("top", nodes), [["x", "in.x"]], f"siblings{n}"))
    return out


def record(job, rec, cache=None, eh="continue", om=None):
    o, rt, r = predict.try_real(job, event_processors=[rec], cache=cache, error_handling=eh, on_missing=om)
    if "rejected" in o:
        return None
    status = "failed" if o["status"] in ("failed", "raised") else o["status"]
    return {"status": status, "events": rec.events, "graphnodes": events.graph_node_names(job["prog"])}


def run(tier, seed):
    ctx = Ctx(PID, tier, seed, "model_checking")
    rng = random.Random(seed)
    thorough = tier == "thorough"
    traces, meta = [], {}

    def add(tr, tag, job=None):
        if tr is None or tr["status"] == "paused":
            return
        tr["id"] = len(traces) + 1
        traces.append(tr)
        meta[tr["id"]] = (tag, job)
        ctx.distinct(IR.struct_hash([tag.split("#")[0], [(e["t"], e["node"], e["graph"]) for e in tr["events"]]]))

    # 1. flat / nested programs, each function or gate node failing in turn, both runners, both processor kinds
    for prog, prov, kind in programs(rng, 220 if thorough else 70):
        paths = [None] + [p for p, n in IR.all_nodes(prog) if n["kind"] in ("func", "route", "ifelse")]
        if not thorough:
            paths = [None] + rng.sample(paths[1:], min(2, len(paths) - 1))
        for fp in paths:
            p2 = copy.deepcopy(prog)
            if fp:
                dict(IR.all_nodes(p2))[fp]["fail_at"] = [rng.choice([1, 1, 2])]
            for mode in ("sync", "async"):
                rec = events.Recorder() if (mode == "sync" or rng.random() < 0.4) else events.AsyncRecorder(yields=rng.choice([1, 2]))
                eh = rng.choice(["continue", "raise"])
                j = gen.job(0, sched.asyncify(p2) if mode == "async" and rng.random() < 0.5 else p2, prov, mode=mode)
                add(record(j, rec, eh=eh), f"{kind}/fail={fp}/{mode}/{type(rec).__name__}/{eh}", j)
    # 1b. sibling nested graphs in one superstep, suspending processors
    for prog, prov, kind in sibling_graph_programs():
        for rep in range(4 if thorough else 2):
            for y in (1, 2, 3):
                add(record(gen.job(0, prog, prov, mode="async"), events.AsyncRecorder(yields=y)), f"{kind}/async/yields{y}")
        add(record(gen.job(0, prog, prov, mode="sync"), events.Recorder()), f"{kind}/sync")
    # 1c. a selected output that is never produced, with on_missing=error / warn (the run fails while every node succeeded)
    for dopen in (False, True):
        g = IR.route("G", ["x"], ["A", "B"], [["A"]], default_open=dopen)
        prog = IR.prog("top", [g, IR.func("A", ["x"], ["a"]), IR.func("B", ["x"], ["b"])])
        for mode in ("sync", "async"):
            for om in ("error", "warn", "ignore"):
                for eh in ("raise", "continue"):
                    j = gen.job(0, prog, [["x", "in.x"]], mode=mode, select=["b"])
                    rec = events.Recorder() if mode == "sync" else events.AsyncRecorder()
                    add(record(j, rec, eh=eh, om=om), f"missing-selected/{mode}/{om}/{eh}/open{dopen}")
    # 1d. runner.map worker pool with controlled completion orders (a failing item while siblings are in flight)
    for n, k, fails, raise_ in c10.pool_configs(False):
        if k == 0 and not thorough:
            continue
        items = c10.item_names("x", n)
        prog = IR.prog("top", [IR.func("F", ["x"], ["p"], is_async=True, fail_args=[items[i - 1] for i in fails])])
        j = gen.job(0, prog, [["x", c10.list_text(items)]], mode="async", lists=[[c10.list_text(items), items]])
        j["map"] = {"over": ["x"], "mode": "zip", "eh": "raise" if raise_ else "continue"}
        orders = [list(range(1, n + 1)), list(range(n, 0, -1))] + ([[2, 1, 3][:n]] if n == 3 else [])
        for od in orders:
            rec = events.AsyncRecorder(yields=rng.choice([1, 2]))
            o, rt2, ctl = c10.real_map(j, k=k, schedule=[f"F@{items[i - 1]}" for i in od], event_processors=[rec])
            if o.get("deadlock"):
                continue
            add({"status": "failed" if "raised" in o else "completed", "events": rec.events, "graphnodes": []}, f"pool/n{n}/k{k}/fail{fails}/{'raise' if raise_ else 'continue'}/{od}")
    # 2. cached nodes: a second run on a shared cache emits CacheHit inside the node span
    for prog, prov, kind in programs(rng, 60 if thorough else 20):
        p2 = copy.deepcopy(prog)
        for _, n in IR.all_nodes(p2):
            if n["kind"] in ("func", "route", "ifelse") and rng.random() < 0.7:
                n["cache"] = True
        cache = InMemoryCache()
        for rep in range(2):
            for mode in ("sync", "async"):
                rec = events.Recorder() if mode == "sync" else events.AsyncRecorder()
                add(record(gen.job(0, p2, prov, mode=mode), rec, cache=cache), f"cached/{kind}/{mode}/rep{rep}")
    # 2b. a cache backend that FAILS: set() raises on its k-th call (the node's run fails there), get() on its k-th call
    class FaultyCache(InMemoryCache):
        def __init__(self, fail_set=0, fail_get=0):
            super().__init__()
            self.ns = self.ng = 0
            self.fail_set, self.fail_get = fail_set, fail_get

        def set(self, key, value):
            self.ns += 1
            if self.ns == self.fail_set:
                raise OSError("cache backend: write failed")
            return super().set(key, value)

        def get(self, key):
            self.ng += 1
            if self.ng == self.fail_get:
                raise OSError("cache backend: read failed")
            return super().get(key)
    for prog, prov, kind in programs(rng, 20 if thorough else 8):
        p2 = copy.deepcopy(prog)
        for _, n in IR.all_nodes(p2):
            if n["kind"] in ("func", "route", "ifelse"):
                n["cache"] = True
        for mode in ("sync", "async"):
            for fs, fg in ((1, 0), (2, 0), (0, 2)):
                rec = events.Recorder()
                add(record(gen.job(0, p2, prov, mode=mode), rec, cache=FaultyCache(fs, fg), eh=rng.choice(["continue", "raise"])),
                    f"faulty-cache/{kind}/{mode}/set{fs}/get{fg}")
    # 3. mapping nodes and runner.map (C10's family)
    pairs = c10.node_jobs(rng, thorough)
    rng.shuffle(pairs)
    for j, tag in pairs[: (400 if thorough else 80)]:
        rec = events.Recorder() if j["mode"] == "sync" else events.AsyncRecorder()
        add(record(j, rec), "mapnode/" + tag)
    mj = c10.map_jobs(rng, thorough)
    rng.shuffle(mj)
    for j, tag in mj[: (400 if thorough else 80)]:
        tr = record_map(j, rng)
        add(tr, tag)
    # 4. completion orders: controlled schedules with suspending processors
    n_sched = 0
    for prog, prov, kind in programs(rng, 60 if thorough else 15):
        pa = sched.asyncify(prog)
        ja = gen.job(0, pa, prov, mode="async")
        for rep in range(3 if thorough else 2):
            rec = events.AsyncRecorder(yields=rng.choice([1, 2, 3]))
            pick_r = random.Random(rng.random())
            o, ctl = run_sched(ja, rec, rng.choice([0, 1, 2]), lambda keys: pick_r.choice(keys))
            if o is None:
                continue
            n_sched += 1
            add({"status": "failed" if o["status"] in ("failed", "raised") else o["status"], "events": rec.events,
                 "graphnodes": events.graph_node_names(pa)}, f"schedule/{kind}/rep{rep}")
    ctx.bump("controlled_schedules", n_sched)
    # 5. rejected calls: the accepted stream is the empty one
    nrej = 0
    for tr, tag, how in rejected_calls():
        add(tr, tag)
        nrej += 1
        ctx.count()
        if how["raised"] is None or how["bodies_run"]:
            ctx.violation("rejected-call-executed", {"case": tag, **how},
                          f"{tag}: a call the contract rejects {'returned normally' if how['raised'] is None else 'raised'} after running {how['bodies_run']}")
    ctx.bump("rejected_calls", nrej)
    # ---- trace validation by TLC
    res, stats = events.validate_streams(traces)
    ctx.add_tlc(stats)
    for tr in traces:
        ctx.count()
        ctx.traces()
        v = res[tr["id"]]
        if not v["accepted"]:
            tag, job = meta[tr["id"]]
            nxt = v["next"]
            klass = "rejected-at:" + (nxt["t"] if nxt else "end-not-closed")
            ctx.violation(klass, {"case": tag, "job": job, "status": tr["status"], "matched": v["reached"], "of": v["total"], "next_event": nxt,
                                  "events": [(e["t"], e["node"] or e["graph"], e["span"][-4:], e["parent"][-4:]) for e in tr["events"]]},
                          f"{tag}: stream rejected after {v['reached']} of {v['total']} events; next = {nxt}")
    selftest(ctx, traces)
    ctx.bump("events_validated", sum(len(t["events"]) for t in traces))
    mid = traces[len(traces) // 2]
    ctx.sample({"case": meta[mid["id"]][0], "status": mid["status"], "events": [(e["t"], e["node"] or e["graph"]) for e in mid["events"]][:25]})
    ctx.assumptions += ["events are recorded through the public EventProcessor / AsyncEventProcessor API (the async recorder suspends on every event)",
                        "SpanTree.tla is a trace specification: one action per event type, enabled only if legal in the current span tree; TLC consumes every recorded stream"]
    return ctx.finish(rule="recorded event streams of terminated runs: flat / nested (depth <= 2) / gated / cyclic programs with each node failing in turn, both runners, sync and suspending async processors, raise and continue modes; cached re-runs; cache backends whose set()/get() raise; mapping nodes and runner.map (C10 family); controlled completion orders under max_concurrency; rejected calls (invalid options, missing inputs, incompatible runner, bad map arguments: the stream must be empty); distinct = hash of the event-type/name sequence per case kind")


def rejected_calls():
    """Calls the runner REJECTS (documented contract: invalid option value, unknown selected output, missing
    required input, a provided internal value under on_internal_override="error", a sync runner given an async
    node, map over an unknown parameter / unequal zip lengths / unknown map mode / invalid error_handling).  Such a call
    raises before any node body runs and the recorded stream is EMPTY (no event, no shutdown)."""
    flat = IR.prog("top", [IR.func("A", ["x"], ["a"]), IR.func("B", ["a", "k"], ["b"], defaults=["k"])])
    inner = IR.prog("inner", [IR.func("A", ["x"], ["a"])], max_iter=1000)
    nested = IR.prog("top", [IR.graph_node(inner, name="inner", inputs=["x"], outputs=["a"]), IR.func("B", ["a", "k"], ["b"], defaults=["k"])])
    aflat = IR.prog("top", [IR.func("A", ["x"], ["a"], is_async=True), IR.func("B", ["a", "k"], ["b"], defaults=["k"])])
    hitl = IR.prog("top", [IR.func("A", ["x"], ["a"]), IR.interrupt("I", ["a"], ["d"], pause_at=[1]), IR.func("B", ["d", "k"], ["b"], defaults=["k"])])
    # (an interrupt inside a NESTED graph is not part of this family: `has_interrupts` looks at the graph's own nodes, so
    # such a call is not rejected -- under SyncRunner it starts and fails at the nested graph node; see DESIGN.md 7)
    X = {"x": "in.x"}
    calls = [
        ("run", "missing-input", {}, {}),
        ("run", "bad-on_missing", X, {"on_missing": "raise"}),
        ("run", "bad-error_handling", X, {"error_handling": "stop"}),
        ("run", "bad-select", X, {"select": ["nope"]}),
        ("run", "bad-select-string", X, {"select": "nope"}),           # the single-string shorthand names an output too
        ("run", "select-names-an-input", X, {"select": "x"}),
        ("run", "bad-override-policy", X, {"on_internal_override": "boom"}),
        ("run", "internal-override-error", {"x": "in.x", "a": "in.a"}, {"on_internal_override": "error"}),
        ("run", "input-given-twice", X, {"x": "again"}),   # the same key in the values dict and as a keyword argument
        ("map", "map-input-given-twice", {"x": ["1", "2"]}, {"map_over": "x", "x": ["3", "4"]}),
        ("run", "sync-runner-async-node", X, {}),        # only where the runner cannot run the graph
        ("map", "map-unknown-param", {"x": ["1", "2"]}, {"map_over": "y"}),
        ("map", "map-unequal-zip", {"x": ["1", "2"], "k": ["1"]}, {"map_over": ["x", "k"]}),
        ("map", "map-bad-mode", {"x": ["1", "2"]}, {"map_over": "x", "map_mode": "zap"}),
        ("map", "map-bad-error_handling", {"x": ["1", "2"]}, {"map_over": "x", "error_handling": "stop"}),
        ("map", "map-sync-runner-async-node", {"x": ["1", "2"]}, {"map_over": "x"}),
        ("map", "map-too-many-items-unbounded", {"x": [str(i) for i in range(10001)]}, {"map_over": "x"}),   # AsyncRunner only
        ("run", "sync-runner-interrupt", X, {}),                       # only SyncRunner: interrupts need the async runner
        ("map", "map-with-interrupt", {"x": ["1", "2"]}, {"map_over": "x"}),   # interrupts are incompatible with map
        # NOT in the list: what only an ITEM's run rejects (a missing input, an invalid on_missing): by design (and by the
        # suite's test_map_continue_handles_item_exceptions) that is a failure of the item inside a map that did start
    ]
    out = []
    for pname, prog in (("flat", flat), ("nested", nested), ("async-node", aflat), ("interrupt", hitl)):
        for mode in ("sync", "async"):
            for asyncrec in (False, True):
                for what, name, vals, kw in calls:
                    if name.endswith("sync-runner-async-node") and not (mode == "sync" and pname == "async-node"):
                        continue
                    if mode == "sync" and pname == "async-node" and not name.endswith("sync-runner-async-node"):
                        continue            # one reason per call
                    if pname.endswith("interrupt") != (name in ("sync-runner-interrupt", "map-with-interrupt")):
                        continue
                    if name == "sync-runner-interrupt" and mode != "sync":
                        continue
                    if name == "map-too-many-items-unbounded" and (mode != "async" or pname != "flat"):
                        continue
                    rt = build.Runtime(prog)
                    with warnings.catch_warnings():
                        warnings.simplefilter("ignore")
                        g = build.build_graph(rt, prog)
                        rec = events.AsyncRecorder() if asyncrec else events.Recorder()
                        runner = SyncRunner() if mode == "sync" else AsyncRunner()
                        raised = None
                        try:
                            r = getattr(runner, what)(g, dict(vals), event_processors=[rec], **kw)
                            if asyncio.iscoroutine(r):
                                r = asyncio.run(r)
                        except Exception as e:  # noqa: BLE001
                            raised = e
                    tag = f"rejected-call/{pname}/{mode}/{'async' if asyncrec else 'sync'}-processor/{what}:{name}/{type(raised).__name__}"
                    out.append(({"status": "rejected", "events": rec.events, "graphnodes": events.graph_node_names(prog)}, tag,
                                {"raised": type(raised).__name__ if raised is not None else None, "bodies_run": [c["path"] for c in rt.log]}))
    return out


def record_map(j, rng):
    rt = build.Runtime(j["prog"])
    with warnings.catch_warnings():
        warnings.simplefilter("ignore")
        g = build.build_graph(rt, j["prog"])
    rec = events.Recorder() if j["mode"] == "sync" else events.AsyncRecorder()
    kw = dict(map_over=list(j["map"]["over"]), map_mode=j["map"]["mode"], error_handling=j["map"]["eh"], on_internal_override="ignore",
              event_processors=[rec])
    status = "completed"
    with warnings.catch_warnings():
        warnings.simplefilter("ignore")
        try:
            if j["mode"] == "sync":
                rs = SyncRunner().map(g, build.provided_dict(j), **kw)
            else:
                k = rng.choice([None, 1, 2])
                if k:
                    kw["max_concurrency"] = k
                rs = asyncio.run(AsyncRunner().map(g, build.provided_dict(j), **kw))
        except Exception:  # noqa: BLE001
            status = "failed"
    if not rec.events:
        return None
    return {"status": status, "events": rec.events, "graphnodes": events.graph_node_names(j["prog"])}


def run_sched(job, rec, k, pick):
    from .. import drive
    rt = build.Runtime(job["prog"])
    with warnings.catch_warnings():
        warnings.simplefilter("ignore")
        try:
            g = build.build_graph(rt, job["prog"])
        except Exception:  # noqa: BLE001
            return None, None
        kw = dict(error_handling="continue", max_iterations=job["prog"]["max_iter"], on_internal_override="ignore", event_processors=[rec])
        if k:
            kw["max_concurrency"] = k
        runner = AsyncRunner()
        res, ctl = drive.run_controlled(lambda: runner.run(g, build.provided_dict(job), **kw), rt, pick=pick)
    if ctl.deadlock or isinstance(res, BaseException):
        return None, ctl
    return build.observe(rt, res), ctl


def selftest(ctx, traces):
    """Corrupt accepted streams (wrong parent span, dropped NodeEnd, flipped status, duplicated
    shutdown, event after shutdown) and require rejection."""
    good = [t for t in traces if len(t["events"]) >= 8][:12]
    bad = []
    for k, t in enumerate(good):
        b = copy.deepcopy(t)
        b["id"] = 10**6 + k
        ev = b["events"]
        m = k % 5
        if m == 0:
            idx = [i for i, e in enumerate(ev) if e["t"] == "NodeEnd"]
            if not idx:
                continue
            del ev[idx[0]]
        elif m == 1:
            b["status"] = "failed" if b["status"] == "completed" else "completed"
        elif m == 2:
            ev.append(dict(events.SHUTDOWN))
        elif m == 3:
            idx = [i for i, e in enumerate(ev) if e["t"] == "NodeStart"]
            if not idx:
                continue
            ev[idx[-1]]["parent"] = "span-bogus"
        else:
            ns = [e for e in ev if e["t"] == "NodeStart"]
            if not ns:
                continue
            ev.append(dict(ns[0]))
        bad.append(b)
    res, _ = events.validate_streams(bad)
    wrongly = [b["id"] for b in bad if res[b["id"]]["accepted"]]
    if wrongly or not bad:
        raise RuntimeError(f"binding self-test failed: corrupted streams accepted {wrongly}")
    ctx.bump("binding_selftests", len(bad))


def replay(path):
    w = json.load(open(path))["witness"]
    j = w.get("job")
    if not j:
        return 0
    rec = events.AsyncRecorder() if j["mode"] == "async" else events.Recorder()
    tr = record(j, rec)
    tr["id"] = 1
    res, _ = events.validate_streams([tr])
    print(res[1])
    return 0 if res[1]["accepted"] else 1
