"""C03 Gate routing (DESIGN.md 5/C03)."""
from __future__ import annotations

import copy
import json
import random

from .. import enginecheck, gen, predict
from .. import ir as IR
from ..core import Ctx

PID = "C03"


def gate_pairs(prog, prefix=""):
    """(gate path, target path) for every gate of every (nested) graph."""
    for n in prog["nodes"]:
        if n["kind"] in ("route", "ifelse"):
            for t in n["targets"]:
                if t != "END":
                    yield prefix + n["name"], prefix + t
        if n["kind"] == "graph":
            yield from gate_pairs(n["sub"], prefix + n["name"] + "/")


def compare(ctx, job, m, o, tag, failed):
    wit = enginecheck.witness(job, tag, m, o, failed_clauses=failed)
    if "rejected" in o:
        return False   # input contract is C08's subject; rejected runs are filtered by the generator
    if failed:
        return ctx.violation("monitor:" + "+".join(sorted(failed)), wit,
                             f"TLC rejected the recorded call log: clause {failed} of the routing monitor")
    mm = enginecheck.common_mismatch(m, o)
    if mm:
        return ctx.violation("outcome", wit, mm)
    ran_m, ran_o = predict.per_node(m["calls"]), predict.per_node(o["calls"])
    if set(ran_m) != set(ran_o):
        return ctx.violation("executed-set", wit, f"executed {sorted(ran_o)} model {sorted(ran_m)}")
    if set(m["values"]) != set(o["values"]):
        return ctx.violation("output-keys", wit, f"outputs {sorted(o['values'])} model {sorted(m['values'])}")
    for g, t in gate_pairs(job["prog"]):
        pm, po = predict.projection(m["calls"], g, t), predict.projection(o["calls"], g, t)
        if pm != po:
            return ctx.violation("gate-target-order", wit, f"({g},{t}) projection {po} model {pm}")
    dm = [c["dec"] for c in m["calls"] if c["dec"] != ["~nodec"]]
    do = [c["dec"] for c in o["calls"] if c["dec"] != ["~nodec"]]
    if sorted(map(str, dm)) != sorted(map(str, do)):
        return ctx.violation("decisions", wit, f"decisions {do} model {dm}")
    if [(c["path"], c["args"]) for c in m["calls"]] != [(c["path"], c["args"]) for c in o["calls"]] and job["mode"] == "sync":
        ctx.divergence("call sequence differs from L2 model", {"job": job["id"]})
    return False


def make_pairs(tier, rng):
    thorough = tier == "thorough"
    pairs = []
    stride = 1 if thorough else 6
    for cyc in (False, True):
        for prog, prov, tag in gen.enum_gated(cyclic=cyc, stride=stride, offset=rng.randrange(stride)):
            for mode in (("sync", "async") if thorough else (rng.choice(["sync", "async"]),)):
                p2 = prog
                if rng.random() < 0.5:
                    # the SAME gate with its targets listed in the opposite order (END first): routing is by name, not position
                    p2 = copy.deepcopy(prog)
                    for n in p2["nodes"]:
                        if n["kind"] in ("route", "ifelse"):
                            n["targets"] = n["targets"][::-1]
                if rng.random() < 0.5:      # node names that contain one another (decisions are compared by name)
                    p2 = gen.rename_nodes(prog, {"A": "step", "B": "step_b", "C": "b"})
                pairs.append((gen.job(0, p2, prov, mode=mode), ("cyc/" if cyc else "dag/") + tag))
    # a gated gate INSIDE a cycle: outer(count) -> inner | finish, inner(count) -> work | END, work(count) -> count.  Once outer
    # selects finish, inner's old decision is stale and it never decides again: work must not start any more
    for n_iter in (1, 2):
        for order in (0, 1):
            for dopen in (True, False):
                outer = IR.route("outer", ["count"], ["inner", "finish"], [["inner"]] * n_iter + [["finish"]], default_open=dopen)
                inner = IR.route("inner", ["count"], ["work", "END"], [["work"]] * 4, default_open=dopen)
                work, fin = IR.func("work", ["count"], ["count"]), IR.func("finish", ["count"], ["result"])
                nodes = [outer, inner, work, fin] if order == 0 else [fin, work, inner, outer]
                for mode in ("sync", "async"):
                    pairs.append((gen.job(0, IR.prog("top", copy.deepcopy(nodes), max_iter=25), [["count", "in.count"]], mode=mode),
                                  f"gated-gate-in-cycle/N{n_iter}/{'open' if dopen else 'closed'}/o{order}"))
    # a route gate whose FALLBACK is not among its listed targets: it is a target all the same (held back / closed like them)
    for dopen in (True, False):
        for dec in ([IR.NONE], ["A"]):
            for order in (0, 1):
                for gname in ("G", "gate", "pick"):          # (list or dict form of the targets depends on the name)
                    G = IR.route(gname, ["x"], ["A", "B"], [dec], fallback="B", default_open=dopen, ctor_targets=["A"])
                    na, nb, up = IR.func("A", ["x", "u"], ["a"]), IR.func("B", ["x"], ["b"]), IR.func("U", ["x"], ["u"])
                    nodes = [G, na, nb, up] if order == 0 else [nb, up, na, G]
                    for mode in ("sync", "async"):
                        pairs.append((gen.job(0, IR.prog("top", copy.deepcopy(nodes), max_iter=10), [["x", "in.x"]], mode=mode),
                                      f"fallback-outside-targets/{gname}/{'open' if dopen else 'closed'}/{dec[0]}/o{order}"))
    # CHAINED gates: a gate that is itself the target of another gate; everything is runnable at once, so whatever holds a
    # gate's targets back until it has decided must hold the targets of a held-back gate back as well
    for dopen_o in (True, False):
        for dopen_i in (True, False):
            for od in (["outer"], ["inner"], ["END"]):
                for idc in (["work"], ["skip"]):
                    for order in (0, 1, 2):
                        outer = IR.route("outer", ["x"], ["inner", "END"], [od], default_open=dopen_o)
                        inner = IR.route("inner", ["x"], ["work", "skip"], [idc], default_open=dopen_i)
                        if od == ["outer"]:
                            continue
                        work, skip = IR.func("work", ["x"], ["w"]), IR.func("skip", ["x"], ["s"])
                        nodes = [[outer, inner, work, skip], [work, skip, inner, outer], [inner, work, outer, skip]][order]
                        for mode in ("sync", "async"):
                            pairs.append((gen.job(0, IR.prog("top", copy.deepcopy(nodes), max_iter=10), [["x", "in.x"]], mode=mode),
                                          f"chained-gates/{'open' if dopen_o else 'closed'}-{'open' if dopen_i else 'closed'}/{od[0]}/{idc[0]}/o{order}"))
    # the same gated programs with a DECLARED topology: the inferred data edges plus (legal, if discouraged) explicit
    # gate -> target pairs; routing must not depend on how the topology was stated
    declared = []
    for j, tag in pairs:
        if not thorough and rng.random() < 0.75:
            continue
        ed = gen.inferred_edges(j["prog"]) or []
        for n in j["prog"]["nodes"]:
            if n["kind"] in ("route", "ifelse"):
                ed += [[n["name"], t] for t in n["targets"] if t != "END" and [n["name"], t] not in ed]
        if ed:
            declared.append((gen.job(0, dict(copy.deepcopy(j["prog"]), edges=ed), j["provided"], mode=j["mode"]), "declared-edges/" + tag))
    # the same gated programs INSIDE a nested graph (gate and targets live in the inner frame)
    nested = []
    for j, tag in pairs:
        if not tag.startswith("dag/") or (not thorough and rng.random() < 0.8):
            continue
        inner = copy.deepcopy(j["prog"])
        inner["name"] = "inner"
        inner["max_iter"] = 1000
        outs = [o for n in inner["nodes"] for o in n["outputs"]]
        gn = IR.graph_node(inner, name="inner", inputs=["x"], outputs=outs)
        outer = IR.prog("top", [IR.func("P", ["u"], ["x"]), gn, IR.func("Q", [outs[-1]], ["q"])], max_iter=10)
        nested.append((gen.job(0, outer, [["u", "in.u"]], mode=j["mode"]), "nested/" + tag))
        # ... and with the wrapper's outputs RENAMED: an output of a branch that was not taken is still absent
        wout = [o + "_w" for o in outs]
        gn = IR.graph_node(copy.deepcopy(inner), name="inner", inputs=["x"], outputs=wout, outmap=[[o, w] for o, w in zip(outs, wout)])
        outer = IR.prog("top", [IR.func("P", ["u"], ["x"]), gn, IR.func("Q", [wout[-1]], ["q"])], max_iter=10)
        nested.append((gen.job(0, outer, [["u", "in.u"]], mode=j["mode"]), "nested-renamed/" + tag))
    pairs += nested + declared
    n_rand = 4000 if thorough else 700
    tries = 0
    while n_rand > 0 and tries < 60000:
        tries += 1
        prog, prov = gen.random_flat(rng, gate=1.0, cyclic=0.3, n_nodes=(2, 5), defaults=0.2, bound=0.1)
        if not any(n["kind"] in ("route", "ifelse") for n in prog["nodes"]):
            continue
        j = gen.job(0, prog, prov, mode=rng.choice(["sync", "async"]))
        o, _, _ = predict.try_real(j)
        if "rejected" in o:
            continue
        pairs.append((j, "random"))
        n_rand -= 1
    for i, (j, _) in enumerate(pairs):
        j["id"] = i + 1
    return pairs


def run_explored(ctx, tier, rng):
    """Every behaviour TLC finds for each gated program (ALL decision sequences within the budget,
    optionally one injected failure) is replayed on the real runners."""
    from .. import steps
    thorough = tier == "thorough"
    jobs = []
    stride = 2 if thorough else 12
    for cyc in (False, True):
        for prog, prov, tag in gen.enum_gated(cyclic=cyc, stride=stride, offset=rng.randrange(stride)):
            for n in prog["nodes"]:
                if n["kind"] in ("route", "ifelse"):
                    n["script"] = [["END"]] if "END" in n["targets"] else ([[n["targets"][0]]] if n["kind"] == "ifelse" else [[IR.NONE]])
                elif thorough and rng.random() < 0.3:
                    n["mayfail"] = True
            j = gen.job(len(jobs) + 1, prog, prov, mode=rng.choice(["sync", "async"]))
            j["dbudget"] = 4 if thorough else 3
            j["fbudget"] = 1 if thorough else 0
            j["badopt"] = len(jobs) % 3 == 0          # in a third of the programs gates may also return an invalid target
            j["_tag"] = ("cyc/" if cyc else "dag/") + tag
            jobs.append(j)
    behs, stats = steps.explore([{k: v for k, v in j.items() if not k.startswith("_")} for j in jobs])
    ctx.add_tlc(stats)
    n = steps.replay_explored(ctx, jobs, behs)
    ctx.bump("tlc_explored_behaviours_replayed", n)


def selftest(ctx, pairs):
    """Corrupt one recorded log (move a target start in front of its gate's decision) and
    require TLC's monitor to reject it; perturb a projection and require the comparator to flag it."""
    cand = None
    for j, tag in pairs:
        if "closed" in tag and "route" in tag:
            o, _, _ = predict.try_real(j)
            if "rejected" in o:
                continue
            gated = {t for _, t in gate_pairs(j["prog"])}
            idx = [k for k, c in enumerate(o["calls"]) if c["node"] in gated]
            if idx and idx[0] > 0:
                cand = (j, o, idx[0])
                break
    if cand is None:
        raise RuntimeError("self-test: no suitable run found")
    j, o, k = cand
    bad = copy.deepcopy(o)
    c = bad["calls"].pop(k)
    bad["calls"].insert(0, c)          # the target now starts before any decision of its closed gate
    good_item, bad_item = predict.trace_item(j, o), predict.trace_item(dict(j, id=j["id"] + 10**6), bad)
    failed, _ = predict.trace_l1([good_item, bad_item], PID)
    if failed[good_item["id"]] or not failed[bad_item["id"]]:
        raise RuntimeError(f"binding self-test failed: {failed}")
    ctx.bump("binding_selftests", 2)


def run(tier, seed):
    ctx = Ctx(PID, tier, seed, "model_checking")
    rng = random.Random(seed)
    pairs = make_pairs(tier, rng)
    selftest(ctx, pairs)
    for j, _ in pairs:
        ctx.distinct(IR.struct_hash([j["prog"], j["provided"], j["mode"]]))
    res, reals = enginecheck.evaluate(ctx, pairs, PID, compare, trace_prop=PID, min_accepted=len(pairs) // 2)
    run_explored(ctx, tier, rng)
    mid = pairs[len(pairs) // 3][0]
    ctx.sample({"job": mid, "observed_calls": [(c["path"], c["dec"]) for c in reals[mid["id"]].get("calls", [])]})
    ctx.assumptions += ["gate decisions are scripted by invocation index, so routing is decoupled from value wiring",
                        "L1 monitor (HGProps!Justified/GateFirst/exact) is checked by TLC on the model's runs (INVARIANT L1Holds) and on every recorded real call log (TraceL1)",
                        "HGSteps.tla: the engine as a transition system (Plan/Exec/Commit); TLC explores every decision sequence within the budget (and an injected failure in thorough), checks the monitors in every reachable state, and every terminal behaviour is replayed on the real runners"]
    return ctx.finish(
        rule="gated small-scope family: chain A->B->C (DAG and cyclic), one gate over every input choice {x,a,b}, target set, kind (route/multi/ifelse, END, None), default_open, list position, all decision scripts of length 2"
             + (" (all instances, both runners)" if tier == "thorough" else " (1/6 stride, random offset)")
             + "; plus seeded random gated programs (1-2 gates, cycles, fallback); distinct = structural hash of (program, provided, runner)")


def replay(path):
    w = json.load(open(path))["witness"]
    ctx = Ctx(PID, "quick", 0, "model_checking")
    enginecheck.evaluate(ctx, [(w["job"], w.get("tag", "replay"))], PID, compare, trace_prop=PID)
    return 1 if ctx.violations else 0
