"""C19 Construction-time validation (DESIGN.md 5/C19).

Two TLA+ oracles evaluated by TLC and bound to the code by replay:

* spec/Validate.tla (driver C19_Validate): structural validity of a graph description.  Every valid
  base program x every single injected flaw at every position (also inside nested graphs), node-list
  permutations, plus seeded random small programs, are judged by TLC; the same descriptions are built
  with the real constructors.  The constructor must raise GraphConfigError (or a documented
  ValueError/TypeError of a node constructor) exactly when the specification says "invalid", at the
  level the specification names, and must accept otherwise; every base ("repaired") program must be
  accepted.  A raw library error escaping the constructor is a violation.
* spec/TypeCompat.tla (driver C19_Types): the documented compatibility rules, evaluated by TLC on all
  ordered pairs of a closed universe of type terms; Python builds the same typing objects (both
  typing.Union and the | operator) and calls hypergraph._typing.is_type_compatible.
"""
from __future__ import annotations

import concurrent.futures as cf
import copy
import json
import os
import random
import shutil
import tempfile

from .. import c19_gen as G
from .. import tlc
from ..core import Ctx

PID = "C19"
KNOWN_NX = "gate-unknown-target-raw-networkx-error"
MAX_WITNESSES_PER_CLASS = 4


# =============================================================================================
# structural part
# =============================================================================================
def enumerate_jobs(tier, seed):
    """[(job, meta)]: job = {id, prog}; meta = {tag, flaw, perm}."""
    rng = random.Random(seed)
    quick = tier != "thorough"
    out, seen = [], set()

    def add(p, meta):
        fp = G.finalize(p)
        h = G.struct_hash(fp)
        if h in seen:
            return
        seen.add(h)
        out.append(({"id": len(out) + 1, "prog": fp}, dict(meta, hash=h)))

    for tag, base in G.base_programs():
        n = len(base["nodes"])
        limit = 2 if quick else (24 if n <= 4 else 10)
        for perm, bp in G.permutations_of(base, limit, rng):
            add(bp, {"tag": tag, "perm": perm, "flaw": {"kind": "none"}})
            for path in G.levels(bp):
                for flaw, q in G.flaws_at(bp, path, quick):
                    add(q, {"tag": tag, "perm": perm, "flaw": flaw})
    for tag, pp in G.probe_programs():
        add(pp, {"tag": "probe:" + tag, "perm": [], "flaw": {"kind": "probe"}})
    for _ in range(1500 if quick else 20000):
        add(G.random_program(rng), {"tag": "random", "perm": [], "flaw": {"kind": "random"}})
    return out


def judge(jobs, procs=None):
    """TLC: Validate.tla verdict for every job."""
    res, stats = tlc.run_batch("C19_Validate", jobs, "C19_JOBS", cfg="C19_Validate.cfg", procs=procs)
    return res, stats


def _level_at(prog, where):
    """The level named by a path string such as "/outer_node/inner_node"."""
    p = prog
    for name in [s for s in where.split("/") if s]:
        p = next(n for n in p["nodes"] if n["kind"] == "graph" and n["name"] == name)["sub"][0]
    return p


def _unknown_target_gate_str_targets(job, where):
    """Largest number of string targets of a gate that has an unknown target, at level `where` (-1: none)."""
    try:
        lv = _level_at(job["prog"], where)
    except StopIteration:
        return -1
    names = {n["name"] for n in lv["nodes"]}
    best = -1
    for n in lv["nodes"]:
        strs = [t for t in n["targets"] if t != "END"]
        if n["kind"] in ("route", "ifelse") and any(t not in names for t in strs):
            best = max(best, len(strs))
    return best


def classify(job, meta, m, o):
    """Compare the specification's verdict m with the observed construction outcome o.
    Returns None when they agree, else (witness class, summary)."""
    kind = meta["flaw"].get("kind", "")
    if o["how"] == "raw-error":
        # narrow class of the known defect: NetworkXError AND the flaw is an unknown gate target (injected, or
        # drawn by the random generator: the specification rejects for exactly that reason) AND >= 2 string targets
        if (o["exc"].endswith("NetworkXError") and not m["valid"] and m["reason"] == "gate-unknown-target"
                and kind in ("gate-unknown-target", "random") and o["where"] == m["where"]
                and _unknown_target_gate_str_targets(job, o["where"]) >= 2):
            return KNOWN_NX, (f"gate with an unknown target and >= 2 string targets: raw {o['exc']} escapes "
                              f"{o['stage']} instead of a configuration error")
        return (f"raw-error/{o['exc'].rsplit('.', 1)[-1]}/{m['reason']}",
                f"{o['exc']} escapes {o['stage']} at '{o['where']}' (specification: {m['reason']})")
    rejected = not o["accepted"]
    if m["valid"] != rejected and (m["valid"] or o["where"] == m["where"]):
        return None
    # disagreement: does the code behave like the implementation-shaped reading?
    follows_impl = (m["ivalid"] == o["accepted"]) and (m["ivalid"] or o["where"] == m["iwhere"])
    if m["valid"] and rejected:
        if follows_impl and m["ireason"] == "missing-annotation":
            return ("strict-ordering-edge-typechecked",
                    "valid strict_types graph rejected: an emit/wait_for ordering edge is type-checked as if it carried data")
        if follows_impl and m["ireason"] == "duplicate-producer":
            return ("duplicate-producer-exclusive-branches-rejected",
                    "producers in different branches of one exclusive gate are rejected as duplicate producers")
        return (f"rejected-valid/{o['how']}", f"valid graph rejected with {o['exc']} at '{o['where']}'")
    if not m["valid"] and o["accepted"]:
        if follows_impl and m["reason"] == "duplicate-producer":
            return ("duplicate-producer-accepted",
                    "two producers that are neither in exclusive gate branches nor ordered are accepted")
        if follows_impl and m["reason"] in ("type-mismatch", "missing-annotation"):
            return ("strict-later-producer-unchecked",
                    f"strict_types accepts a {m['reason']} on a data edge from a producer that is not the first producer of the value")
        return (f"accepted-invalid/{m['reason']}", f"invalid graph ({m['reason']} at '{m['where']}') accepted by the constructor")
    return (f"rejected-at-wrong-level/{m['reason']}",
            f"specification rejects at '{m['where']}' ({m['reason']}), constructor raised {o['exc']} at '{o['where']}'")


ORDER_PROBED = ("duplicate-producer-exclusive-branches-rejected", "duplicate-producer-accepted", "strict-later-producer-unchecked")


def refine(klass, summary, job, m, o):
    """For the disagreements that follow the first-producer reading, ask the real constructor whether its
    verdict depends on the order of the node list (then it is wrong for one of the orders whatever the rule)."""
    extra = {}
    if klass in ORDER_PROBED:
        where = m["where"] if not m["valid"] else o["where"]
        dep, acc, rej = G.order_dependent(job["prog"], where)
        extra = {"order_dependent": dep, "accepted_order": acc, "rejected_order": rej}
        if klass.startswith("duplicate-producer"):
            if dep:
                klass = "duplicate-producer-verdict-depends-on-node-order"
                summary += f"; the verdict depends on the node order: accepted for {acc}, rejected for {rej}"
            elif klass == "duplicate-producer-exclusive-branches-rejected":
                klass = "duplicate-producer-exclusive-targets-in-cycle-rejected"
                summary += "; rejected for every node order (the targets reach each other through a cycle)"
        elif dep:
            summary += f"; the verdict depends on the node order: accepted for {acc}, rejected for {rej}"
    return klass, summary, extra


def check_programs(ctx, pairs, res, report=True):
    """Build every job with the real constructors and compare.  Returns the list of mismatches."""
    per_class, reasons, flaw_kinds, mism = {}, {}, {}, []
    for job, meta in pairs:
        m = res[job["id"]]
        # a third of the strict programs spell their annotations as STRINGS (forward references)
        o = G.observe(job["prog"], form="S" if job["prog"]["strict"] and job["id"] % 3 == 0 else "U")
        ctx.count()
        ctx.traces()
        if len(job["prog"]["nodes"]) >= 2:
            ctx.distinct("P:" + meta["hash"])
        reasons[m["reason"]] = reasons.get(m["reason"], 0) + 1
        k = meta["flaw"].get("kind", "")
        flaw_kinds[k] = flaw_kinds.get(k, 0) + 1
        # the repaired (base) program must be valid for the specification as well
        if k == "none" and not m["valid"]:
            raise RuntimeError(f"generator: base program {meta['tag']} is invalid for Validate.tla: {m}")
        if job["id"] % 5 == 0 and not job["prog"]["explicit"] and len(job["prog"]["nodes"]) >= 2 and o["stage"] != "node-ctor" and o["where"] == "":
            # the same node list assembled in two steps (prefix graph, then add_nodes): same outcome as at once
            og = G.observe(job["prog"], grow=True)
            if og is not None:
                ctx.count()
                ctx.bump("construction_histories")
                if og["accepted"] != o["accepted"] or (not og["accepted"] and og["how"] != o["how"]):
                    ctx.violation("outcome-depends-on-construction-history",
                                  {"kind": "program", "job": job, "meta": meta, "at_once": o, "prefix_then_add_nodes": og},
                                  f"[{meta['tag']} flaw={meta['flaw']}] Graph(all nodes): {o['how']}; Graph(prefix).add_nodes(rest): {og['how']}")
        c = classify(job, meta, m, o)
        if c is None:
            continue
        o2 = G.observe(job["prog"], form="B")      # re-execute once before reporting
        if classify(job, meta, m, o2) is None:
            ctx.divergence("construction outcome differs between two builds of the same description", {"job": job["id"]})
            continue
        klass, summary, extra = refine(c[0], c[1], job, m, o)
        mism.append((klass, job, meta))
        per_class[klass] = per_class.get(klass, 0) + 1
        if report and per_class[klass] <= MAX_WITNESSES_PER_CLASS:
            ctx.violation(klass, {"kind": "program", "job": job, "meta": meta, "model": m, "observed": o, **extra},
                          f"[{meta['tag']} flaw={meta['flaw']}] {summary}")
    if report:
        for kk, v in sorted(reasons.items()):
            ctx.bump("verdict:" + kk, v)
        for kk, v in sorted(flaw_kinds.items()):
            ctx.bump("flaw:" + kk, v)
        for kk, v in sorted(per_class.items()):
            ctx.bump("mismatch:" + kk, v)
    return mism


# =============================================================================================
# type part
# =============================================================================================
def judge_types(universe, tmp):
    up = os.path.join(tmp, "universe.json")
    with open(up, "w") as f:
        json.dump(universe, f)
    rows = [{"id": i + 1} for i in range(len(universe))]
    res, stats = tlc.run_batch("C19_Types", rows, "C19_ROWS", cfg="C19_Types.cfg", env={"C19_UNIVERSE": up},
                               procs=min(4, max(1, len(rows) // 40)))
    return {i: res[i]["row"] for i in res}, stats


def type_verdict_code(o, i, forms=("U", "B")):
    """is_type_compatible on the real typing objects, for both spellings of unions."""
    import warnings

    from hypergraph._typing import is_type_compatible
    out = []
    with warnings.catch_warnings():
        warnings.simplefilter("ignore")
        for fo in forms:
            for fi in forms:
                out.append(bool(is_type_compatible(G.to_py(o, fo), G.to_py(i, fi))))
    return out


def check_types(ctx, universe, rows, report=True):
    import warnings

    from hypergraph._typing import is_type_compatible
    objs = {f: [G.to_py(t, f) for t in universe] for f in ("U", "B")}
    n, mism, shown = len(universe), [], 0
    texts = [G.term_text(t) for t in universe]
    with warnings.catch_warnings():
        warnings.simplefilter("ignore")
        for a in range(n):
            row = rows[a + 1]
            for b in range(n):
                want = bool(row[b])
                got = [bool(is_type_compatible(objs[fa][a], objs[fb][b])) for fa, fb in (("U", "U"), ("B", "B"), ("U", "B"))]
                ctx.count()
                if all(g == want for g in got):
                    continue
                mism.append((a, b))
                if report and shown < MAX_WITNESSES_PER_CLASS:
                    shown += 1
                    ctx.violation("type-compat/" + ("code-accepts" if not want else "code-rejects"),
                                  {"kind": "type", "out": universe[a], "in": universe[b], "model": want, "observed": got},
                                  f"is_type_compatible({texts[a]}, {texts[b]}) = {got} but the documented rules give {want}")
    if report:
        ctx.traces(n * n)
        for a in range(n):
            for b in range(n):
                if a != b:
                    ctx.distinct(f"T:{texts[a]}->{texts[b]}")
        ctx.bump("type_terms", n)
        ctx.bump("type_pairs", n * n)
        ctx.bump("type_pairs_compatible", sum(1 for a in range(n) for b in range(n) if rows[a + 1][b]))
        if mism:
            ctx.bump("mismatch:type-compat", len(mism))
    return mism


# =============================================================================================
# binding self-test
# =============================================================================================
def selftest(ctx, pairs, res, universe, rows):
    """Flip TLC verdicts / perturb observations and require the comparators to flag them."""
    probe = Ctx(PID, ctx.tier, ctx.seed, ctx.level)
    probe.violation = lambda *a, **k: True
    n = 0
    # (1) flip the verdict of one accepted and one rejected program
    def first_agreeing(valid):
        for j, me in pairs:
            if res[j["id"]]["valid"] == valid and classify(j, me, res[j["id"]], G.observe(j["prog"])) is None:
                return j, me
        return None

    acc, rej = first_agreeing(True), first_agreeing(False)
    for x in (acc, rej):
        if x is None:
            raise RuntimeError("binding self-test: no agreeing accepted/rejected program to perturb")
        j, me = x
        m = dict(res[j["id"]])
        m["valid"] = not m["valid"]
        m["ivalid"] = m["valid"]
        m["reason"] = m["ireason"] = "ok" if m["valid"] else "flipped"
        if classify(j, me, m, G.observe(j["prog"])) is None:
            raise RuntimeError("binding self-test failed: flipped TLC verdict was not flagged")
        n += 1
    # (2) perturb the observation: a raw error and a rejection at another level must be flagged
    j, me = rej
    o = G.observe(j["prog"])
    raw = dict(o, how="raw-error", exc="builtins.KeyError")
    moved = dict(o, where=o["where"] + "/elsewhere")
    for bad in (raw, moved, {"accepted": True, "how": "accepted", "exc": "", "stage": "", "where": ""}):
        if classify(j, me, res[j["id"]], bad) is None:
            raise RuntimeError("binding self-test failed: perturbed observation was accepted")
        n += 1
    # (3) flip one entry of the compatibility relation
    rows2 = {k: list(rows[k]) for k in (1, 2, 3)}
    rows2[1][0] = not rows2[1][0]
    if not check_types(probe, universe[:3], {k: v[:3] for k, v in rows2.items()}, report=False):
        raise RuntimeError("binding self-test failed: flipped compatibility verdict was not flagged")
    n += 1
    ctx.bump("binding_selftests", n)


# =============================================================================================
# entry points
# =============================================================================================
def run(tier, seed):
    ctx = Ctx(PID, tier, seed, "model_checking")
    tmp = tempfile.mkdtemp(prefix="c19-")
    try:
        pairs = enumerate_jobs(tier, seed)
        universe = G.type_universe(tier, seed)
        with cf.ThreadPoolExecutor(2) as ex:
            fut_t = ex.submit(judge_types, universe, tmp)
            fut_p = ex.submit(judge, [j for j, _ in pairs], None)
            rows, st_t = fut_t.result()
            res, st_p = fut_p.result()
        ctx.add_tlc(st_t)
        ctx.add_tlc(st_p)
        selftest(ctx, pairs, res, universe, rows)
        check_programs(ctx, pairs, res)
        check_types(ctx, universe, rows)
        mid = pairs[len(pairs) // 3]
        ctx.sample({"program": mid[0]["prog"], "flaw": mid[1]["flaw"], "model": res[mid[0]["id"]],
                    "observed": G.observe(mid[0]["prog"])})
        a, b = len(universe) // 2, len(universe) - 1
        ctx.sample({"out": G.term_text(universe[a]), "in": G.term_text(universe[b]), "model": rows[a + 1][b],
                    "code": type_verdict_code(universe[a], universe[b])})
        ctx.bump("base_programs", len(G.base_programs()))
        ctx.bump("programs_judged", len(pairs))
    finally:
        shutil.rmtree(tmp, ignore_errors=True)
    ctx.assumptions += [
        "node bodies are harness-generated functions whose signatures / defaults / annotations are set from the IR",
        "the interface (inputs/outputs/types) of a nested graph node is derived by the generator and asserted against the real GraphNode",
        "identifier legality is decided in TLA+ over names spelled as character lists (ASCII alphabet)",
        "type universe: documented constructors over {int,bool,str,A,B<:A,Any,None}, depth <= 2; TypeVar, Annotated, Literal and forward references are out of scope",
        "combinations the documentation does not settle (Any on the incoming side, unparameterised generic on the incoming side) follow the code and are marked S1/S2 in TypeCompat.tla",
    ]
    return ctx.finish(
        rule="programs: " + str(len(G.base_programs())) + " valid base programs (chains, multi-output, ifelse/route gates with END, multi-target, "
             "branch reachability, emit/wait_for, defaults, nested graphs to depth 2, explicit edges, strict types) x node-list permutations "
             "x every single injected flaw at every position of every level (unknown / self gate target by replacement and addition, duplicate "
             "and illegal node / output / graph names, every rename of an output to another produced name, default dropped / changed / added, "
             "wait_for on an unproduced name, explicit edge with unknown node / value, consumer / producer type changed or removed, strict flag "
             "switched on, multi_target flipped) + seeded random flat programs of 2-5 nodes; types: all ordered pairs of the universe, unions "
             "built with typing.Union and with |; distinct = structural hash of the finalised program (>= 2 nodes) / ordered pair of distinct terms",
        exhaustive=False)


def replay(path):
    """Re-judge the witness with TLC, rebuild it with the real constructors; exit 1 iff it still disagrees."""
    with open(path) as f:
        doc = json.load(f)
    w = doc["witness"]
    ctx = Ctx(PID, "quick", 0, "model_checking")
    tmp = tempfile.mkdtemp(prefix="c19-")
    try:
        if w["kind"] == "program":
            job = copy.deepcopy(w["job"])
            res, _ = judge([job], procs=1)
            mism = [k for k, _, _ in check_programs(ctx, [(job, w["meta"])], res, report=False)]
            detail = {"model": res[job["id"]], "observed": G.observe(job["prog"])}
        else:
            universe = [w["out"], w["in"]]
            rows, _ = judge_types(universe, tmp)
            mism = ["type-compat"] if (0, 1) in check_types(ctx, universe, rows, report=False) else []
            detail = {"model": rows[1][1], "observed": type_verdict_code(w["out"], w["in"])}
    finally:
        shutil.rmtree(tmp, ignore_errors=True)
    print(f"[{PID}] replay {path}: {json.dumps(detail)}")
    if mism:
        print(f"VIOLATION property={PID} replay={path}")
        print(f"  class={mism[0]} (recorded class: {doc.get('class')}) reproduces")
        return 1
    print(f"[{PID}] replay does not reproduce")
    return 0
