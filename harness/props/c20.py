"""C20 Visualisation: every rendering (interactive view per expansion state and output mode,
render_graph's initial view per depth, Mermaid per depth and mode) is self-consistent and a
faithful drawing of the declared program; to_flat_graph lists every nested node once under its
parent (DESIGN.md 5/C20).

Translation validation: harness/c20_gen.py generates programs from plain descriptions, derives
the DECLARED hierarchy and leaf-level dependencies from the description alone, builds the real
hypergraph objects and records what the public entry points emit.  spec/Viz.tla (TLC) evaluates
the clauses SelfConsistent / Once / Complete / Sound per rendering and FlatOK / Keys /
Exhaustive per graph.  Python only generates, translates and names the witness class.
"""
from __future__ import annotations

import copy
import json
import random

from .. import c20_gen as G
from .. import tlc
from ..core import Ctx

PID = "C20"

K_FIRST_CONSUMER = "expanded-container-edge-only-first-internal-consumer"
K_MUTEX = "mutex-output-edge-only-first-producer"
K_HIDDEN_PRODUCER = "expanded-container-edge-dropped-when-inner-producer-hidden"
K_RENAMED_IN = "renamed-input-edge-routed-to-entrypoint"
K_RENAMED_OUT = "renamed-output-edge-not-drawn-from-expanded-container"
K_MM_RENAMED_OUT = "mermaid-renamed-output-edge-from-undeclared-data-node"
K_SCOPE = "same-name-in-renamed-scope-taken-for-the-value"
K_SIBLING_NAME = "separate-outputs-same-output-name-in-sibling-containers"


# ---------------------------------------------------------------------------------------------
# naming the witness class (no verdict is taken here: TLC already said which clause failed)
# ---------------------------------------------------------------------------------------------

class _View:
    """Hierarchy helpers over the declared structure, for one expansion state."""

    def __init__(self, decl, expanded):
        self.par = {n["id"]: n["parent"] for n in decl["nodes"]}
        self.kind = {n["id"]: n["kind"] for n in decl["nodes"]}
        self.exp = set(expanded)
        self.order = {n["id"]: i for i, n in enumerate(decl["nodes"])}
        self.ins = {n["id"]: set(n["ins"]) for n in decl["nodes"]}
        self.outs = {n["id"]: set(n["outs"]) for n in decl["nodes"]}

    def anc(self, n):
        # ids the declared structure does not know (a rendering may invent them) have no ancestors
        out = []
        n = self.par.get(n, G.NONE)
        while n != G.NONE:
            out.append(n)
            n = self.par.get(n, G.NONE)
        return out

    def visible(self, n):
        return all(a in self.exp for a in self.anc(n))

    def rep(self, n):
        while not self.visible(n):
            n = self.par[n]
        return n

    def inside(self, n, c):
        return n == c or c in self.anc(n)


def classify_missing(decl, view, missing_idx):
    """Witness class of every dependency that TLC reports as not drawn."""
    deps = decl["deps"]
    miss = set(missing_idx)
    out = []

    def needed(k):
        d = deps[k]
        return view.rep(d["p"]) != view.rep(d["c"])

    def hidden_in_open(e):
        """The producer sits in a collapsed container inside its expanded level-container."""
        return view.kind[e["src"]] == "graph" and e["src"] in view.exp and view.visible(e["src"]) and not view.visible(e["p"])

    def drawn(k):
        return k not in miss and needed(k)

    for k in sorted(miss):
        d = deps[k]
        eff = d
        if d["kind"] == "ordering":
            # an ordering dependency that rides on a data edge between the same nodes
            same = [e for e in deps if e["kind"] == "data" and e["p"] == d["p"] and e["c"] == d["c"]]
            if same:
                eff = same[0]
        klass = f"complete:{d['kind']}"
        if eff["kind"] == "data":
            grp = [j for j, e in enumerate(deps) if e["kind"] == "data" and e["grp"] == eff["grp"]]
            src_open = view.kind[eff["src"]] == "graph" and eff["src"] in view.exp and view.visible(eff["src"])
            via_open = view.kind[eff["via"]] == "graph" and eff["via"] in view.exp and view.visible(eff["via"])
            rc, rp = view.rep(eff["c"]), view.rep(eff["p"])
            same_via = [j for j in grp if deps[j]["via"] == eff["via"]]
            reaches_rc = any(drawn(j) and view.rep(deps[j]["c"]) == rc for j in same_via)
            other_rc = any(drawn(j) and view.rep(deps[j]["c"]) != rc for j in same_via)
            # the renderer lists consumers in declaration order: the FIRST one is the one it draws to
            first_rc = min((view.rep(deps[j]["c"]) for j in same_via), key=view.order.__getitem__)
            first_drawn = other_rc and any(drawn(j) and view.rep(deps[j]["c"]) == first_rc for j in same_via)
            to_c = [j for j in grp if view.rep(deps[j]["c"]) == rc]
            leaves_rp = any(drawn(j) and view.rep(deps[j]["p"]) == rp for j in to_c)
            other_rp = any(drawn(j) and view.rep(deps[j]["p"]) != rp for j in to_c)
            chosen_hidden = any(hidden_in_open(deps[j]) for j in to_c if deps[j]["src"] == eff["src"])
            # a leaf inside the expanded container that uses the same NAME for another value
            # (the name is rebound by a wrapper rename between the container and the leaf)
            cons, prods = {deps[j]["c"] for j in grp}, {deps[j]["p"] for j in grp}
            shadow_c = via_open and any(
                m != eff["via"] and view.inside(m, eff["via"]) and view.visible(m) and eff["val"] in view.ins[m]
                and not any(view.inside(c, m) for c in cons) for m in view.par)
            shadow_p = src_open and any(
                m != eff["src"] and view.inside(m, eff["src"]) and eff["val"] in view.outs[m]
                and not any(view.inside(q, m) for q in prods) for m in view.par)
            if eff["rin"] and via_open:
                klass = K_RENAMED_IN
            elif eff["rout"] and src_open:
                klass = K_RENAMED_OUT
            elif shadow_c or shadow_p:
                klass = K_SCOPE
            elif hidden_in_open(eff):
                klass = K_HIDDEN_PRODUCER
            elif via_open and not reaches_rc and first_drawn and rc != first_rc:
                klass = K_FIRST_CONSUMER
            elif not leaves_rp and (other_rp or chosen_hidden) and len({deps[j]["p"] for j in to_c}) >= 2:
                klass = K_MUTEX
        out.append((klass, d))
    return out


def classify_unsound(decl, view, s, t):
    """Witness class of a drawn connection s -> t that TLC reports as following no dependency."""
    data = [d for d in decl["deps"] if d["kind"] == "data"]

    def is_open(c):
        return view.kind[c] == "graph" and c in view.exp and view.visible(c)

    for d in data:
        grp = [e for e in data if e["grp"] == d["grp"]]
        # the edge leaves a representative of the producer and ends inside the consumer's container
        if is_open(d["via"]) and view.inside(t, d["via"]) and (s == view.rep(d["p"]) or s in view.anc(d["p"])):
            if d["rin"]:
                return K_RENAMED_IN          # the renamed value is routed to an entry point, not to its consumer
            cons = {e["c"] for e in grp}
            if any(view.inside(m, t) and d["val"] in view.ins[m] and not any(view.inside(c, m) for c in cons) for m in view.par):
                return K_SCOPE               # t uses the same name for another value
        # the edge ends at a representative of the consumer and starts inside the producer's container
        if is_open(d["src"]) and view.inside(s, d["src"]) and (t == view.rep(d["c"]) or t in view.anc(d["c"])):
            prods = {e["p"] for e in grp}
            if any(view.inside(m, s) and d["val"] in view.outs[m] and not any(view.inside(q, m) for q in prods) for m in view.par):
                return K_SCOPE
    return "sound"


def classify(rec, rd, res):
    """[(class, detail)] for one failing rendering result."""
    decl = rec["decl"]
    view = _View(decl, rd["expanded"])
    det = res["detail"]
    found = []
    missing = [m - 1 for m in det["missing"]]
    cm = classify_missing(decl, view, missing)
    found += [(k, {"missing": d}) for k, d in cm]
    for s, t in det["unsound"]:
        found.append((classify_unsound(decl, view, s, t), {"unsound": [s, t]}))
    for e in det["badEndpoint"]:
        klass = "self-consistent:undeclared-endpoint"
        if rd["src"] == "mm" and rd["sep"] == 1 and any(
                d["rout"] and d["src"] in view.exp and view.visible(d["src"]) and e[0].startswith("data_") for d in decl["deps"]):
            klass = K_MM_RENAMED_OUT
        found.append((klass, {"edge": e}))
    for e in det["hiddenEnd"]:
        found.append(("self-consistent:hidden-endpoint", {"edge": e}))
    for n in det["once"]:
        found.append(("once", {"node": n}))
    for n in det.get("endMissing", []):
        found.append(("complete:gate-to-END", {"gate": n}))
    if "ValidState" in res["failed"]:
        found.append(("state:invalid-expansion-state", {"expanded": rd["expanded"]}))
    if rd["sep"] == 1:
        # narrow class of a known defect: in SEPARATE-outputs mode, an output NAME produced by leaf nodes of two different
        # containers (one sub-graph used twice): the edge to the consumer starts at the other container's producer
        def leaf_producers(v):
            return {n for n in view.par if v in view.outs[n] and not any(view.par.get(m) == n for m in view.par)}
        def twice(v):
            cs = {view.par.get(n) for n in leaf_producers(v)}
            return len(cs) >= 2 and G.NONE not in cs and None not in cs
        out = []
        for k, d in found:
            if k == "complete:data" and twice(d["missing"]["val"]) and d["missing"]["src"] in view.exp:
                k = K_SIBLING_NAME
            elif k == "sound" and any(v in view.outs.get(d["unsound"][0], ()) and twice(v) for v in view.ins.get(d["unsound"][1], ())):
                k = K_SIBLING_NAME
            out.append((k, d))
        found = out
    return found


# ---------------------------------------------------------------------------------------------
# evaluation
# ---------------------------------------------------------------------------------------------

def tlc_eval(recs):
    items = [G.tlc_item(r) for r in recs]
    return tlc.run_batch("Viz", items, "C20_JOBS", cfg="Viz.cfg", workers=2, procs=max(1, min(tlc.NCPU // 2, (len(items) + 7) // 8)))


def findings_of(rec, out):
    """{class: [(rendering, detail)]} for one graph from TLC's results."""
    by = {}
    g = out[rec["id"]]
    if not g["ok"]:
        for f in g["failed"]:
            klass = {"FlatOK": "flat", "Keys": "self-consistent:state-keys", "Exhaustive": "state:not-exhaustive"}[f]
            by.setdefault(klass, []).append((None, g["detail"]))
    for i, rd in enumerate(rec["rends"]):
        r = out[f"{rec['id']}:{i + 1}"]
        if r["ok"]:
            continue
        for klass, det in classify(rec, rd, r):
            by.setdefault(klass, []).append((rd, det))
    return by


MAX_NEW_PER_CLASS = 8      # replay files written per witness class that is not a known finding


def _is_known(ctx, klass):
    return any(k.get("status", "open") == "open" and k["class"] == klass for k in getattr(ctx, "_known", []))


def _reproduced(pending):
    """Re-execute witnesses from their descriptions (fresh objects, fresh recordings, one fresh
    TLC run): [(class, witness, summary)] -> the same list with a flag 'still fails that way'."""
    if not pending:
        return []
    recs = {}
    for _klass, wit, _s in pending:
        key = json.dumps(wit["desc"], sort_keys=True)
        if key not in recs:
            recs[key] = G.record(wit["desc"], len(recs) + 1)
    out, _ = tlc_eval(list(recs.values()))
    return [(klass, wit, summary, klass in findings_of(recs[json.dumps(wit["desc"], sort_keys=True)], out))
            for klass, wit, summary in pending]


def evaluate(ctx, pairs, report=True):
    """TLC evaluates every recorded rendering; failing clauses are reported per (graph, class)."""
    recs = [r for r, _ in pairs]
    out, stats = tlc_eval(recs)
    ctx.add_tlc(stats)
    found, pending = [], []
    for rec, tag in pairs:
        ctx.count(len(rec["rends"]) + 1)
        ctx.traces(len(rec["rends"]) + 1)
        ctx.bump("graphs")
        ctx.bump("expansion_states", len(rec["keys"]["expected"]) // 2)
        ctx.bump("renderings_interactive", sum(1 for r in rec["rends"] if r["src"] != "mm"))
        ctx.bump("renderings_mermaid", sum(1 for r in rec["rends"] if r["src"] == "mm"))
        ctx.bump("dependencies", len(rec["decl"]["deps"]))
        if len(rec["decl"]["nodes"]) >= 2:
            ctx.distinct([rec["desc"]])
        by = findings_of(rec, out)
        for klass, hits in sorted(by.items()):
            rd, det = hits[0]
            wit = {"desc": rec["desc"], "tag": tag, "class": klass,
                   "rendering": None if rd is None else {"src": rd["src"], "key": rd["key"], "expanded": rd["expanded"],
                                                          "nodes": rd["nodes"], "edges": rd["edges"]},
                   "detail": det, "renderings_failing": len(hits),
                   "where": sorted({f"{r['src']}:{r['key']}" for r, _ in hits if r})[:12]}
            summary = f"{tag}: {klass} in {len(hits)} rendering(s), first {wit['where'][:1]} {json.dumps(det, sort_keys=True)[:240]}"
            ctx.bump("findings:" + klass)
            found.append((klass, wit, summary))
            if not report:
                continue
            if _is_known(ctx, klass):
                ctx.violation(klass, wit, summary)          # counted as a hit of the known finding
            elif ctx.notes.get("reported:" + klass, 0) + sum(1 for k, _, _ in pending if k == klass) >= MAX_NEW_PER_CLASS:
                ctx.bump("further_witnesses_not_written:" + klass)
            else:
                pending.append((klass, wit, summary))
    # every new violation is re-executed from its witness before it is reported
    for klass, wit, summary, again in _reproduced(pending):
        if not again:
            ctx.divergence("finding not reproduced on re-execution", {"class": klass, "tag": wit["tag"]})
            continue
        ctx.bump("reported:" + klass)
        ctx.violation(klass, wit, summary)
    return out, found


# ---------------------------------------------------------------------------------------------
# binding self-test: corrupt a recorded, accepted rendering and require TLC to flag it
# ---------------------------------------------------------------------------------------------

def _fc(rd):
    return {n["id"] for n in rd["nodes"] if n["ty"] in ("function", "container", "branch") and not n["hidden"]}


def selftest(ctx):
    desc = [G.fn("p", ["x"], ["a"]), G.sub("A", [G.fn("h", ["a", "y"], ["b"]), G.sub("B", [G.fn("i", ["b"], ["c"])])]),
            G.gate("g", ["b"], ["k1", "k2"]), G.fn("k1", ["b"], ["d"], emit=["S"]), G.fn("k2", ["x"], ["e"], wait=["S"])]
    base = G.record(desc, 1)
    out, _ = tlc_eval([base])
    bad = [k for k, v in out.items() if not v["ok"]]
    if bad:
        raise RuntimeError(f"self-test base program is not accepted: {[(k, out[k]['failed']) for k in bad][:3]}")

    def rend(src, sep, expanded=None, depth=None):
        for i, r in enumerate(base["rends"]):
            if r["src"] == src and r["sep"] == sep and (expanded is None or r["expanded"] == expanded) and (depth is None or r["depth"] == depth):
                return i
        raise KeyError((src, sep, expanded, depth))

    muts = []          # (name, mutated record, rendering index or None, clause expected to fail)

    def mutate(name, idx, clause, f):
        m = copy.deepcopy(base)
        m["id"] = len(muts) + 2
        f(m if idx is None else m["rends"][idx], m)
        muts.append((name, m, idx, clause))

    def drop_edge(pred):
        def f(rd, _m):
            k = next(i for i, e in enumerate(rd["edges"]) if pred(rd, e))
            del rd["edges"][k]
        return f

    def omit_node(rd, _m):
        rd["nodes"][:] = [n for n in rd["nodes"] if n["id"] != "k2"]
        rd["edges"][:] = [e for e in rd["edges"] if "k2" not in e]

    fc_edge = lambda rd, e: e[0] in _fc(rd) and e[1] in _fc(rd)            # noqa: E731
    data_out = lambda rd, e: e[0].startswith("data_") and e[1] in _fc(rd)  # noqa: E731
    full = ["A", "A/B"]
    for src, label in (("rf", "interactive"), ("mm", "mermaid"), ("rf0", "initial")):
        kw = {"expanded": full} if src == "rf" else {"depth": 3}
        i0, i1 = rend(src, 0, **kw), rend(src, 1, **kw)
        mutate(f"{label}: drop a function->function edge", i0, "Complete", drop_edge(fc_edge))
        mutate(f"{label}: drop a DATA->consumer edge", i1, "Complete", drop_edge(data_out))
        mutate(f"{label}: add an edge that follows no dependency", i0, "Sound", lambda rd, m: rd["edges"].append(["k2", "p"]))
        mutate(f"{label}: edge to the wrong container", i0, "Sound", lambda rd, m: rd["edges"].append(["p", "A/B"]))
        mutate(f"{label}: duplicate a node", i0, "Once", lambda rd, m: rd["nodes"].append(dict(next(n for n in rd["nodes"] if n["id"] == "A/h"))))
        mutate(f"{label}: omit a visible node", i0, "Once", omit_node)
        mutate(f"{label}: node under the wrong parent", i0, "Once", lambda rd, m: next(n for n in rd["nodes"] if n["id"] == "A/h").__setitem__("parent", "A/B"))
        mutate(f"{label}: edge endpoint that is not a node of the state", i0, "SelfConsistent", lambda rd, m: rd["edges"].append(["p", "ghost"]))
    ic = rend("rf", 0, expanded=[])
    mutate("interactive: show a node of a collapsed container", ic, "Once",
           lambda rd, m: next(n for n in rd["nodes"] if n["id"] == "A/h").__setitem__("hidden", 0))
    mutate("flat graph: drop a nested node", None, "FlatOK", lambda g, m: g["flat"].remove(next(n for n in g["flat"] if n["id"] == "A/B/i")))
    mutate("flat graph: nested node under the wrong parent", None, "FlatOK", lambda g, m: next(n for n in g["flat"] if n["id"] == "A/B/i").__setitem__("parent", "A"))
    mutate("state without edges", None, "Keys", lambda g, m: g["keys"]["edges"].pop())
    mutate("a valid expansion state is not rendered", None, "Exhaustive", lambda g, m: g["rends"].pop(rend("rf", 1, expanded=["A"])))

    out, stats = tlc_eval([m for _, m, _, _ in muts])
    ctx.add_tlc(stats)
    for name, m, idx, clause in muts:
        key = m["id"] if idx is None else f"{m['id']}:{idx + 1}"
        if clause not in out[key]["failed"]:
            raise RuntimeError(f"binding self-test failed: '{name}' was not flagged as {clause}: {out[key]}")
    ctx.bump("binding_selftests", len(muts))


# ---------------------------------------------------------------------------------------------
# entry points
# ---------------------------------------------------------------------------------------------

RENAME_RATE = 0.3


def programs(tier, seed):
    """(description, tag) of every program of the tier."""
    rng = random.Random(seed)
    thorough = tier == "thorough"
    for fam in G.FAMILIES:
        yield from fam()
    n = 3600 if thorough else 150
    plain = G.RandomPrograms(rng, renames=0.0)
    renaming = G.RandomPrograms(rng, renames=RENAME_RATE)
    for i in range(n):
        d = (i % 4) if i < 40 else rng.choice([0, 1, 1, 2, 2, 3, 3])
        gen = renaming if i % 3 == 2 else plain
        yield gen.program(d), f"random/seed{seed}/{i}/depth{d}" + ("/renames" if gen is renaming else "")


def _record_one(desc):
    try:
        return G.record(desc, 0)
    except G.MermaidFormatError:
        raise
    except Exception as ex:  # noqa: BLE001 - Graph(...) rejected the description (such programs belong to C19)
        from hypergraph import GraphConfigError
        if isinstance(ex, (GraphConfigError, ValueError)):
            return None
        raise


def record_all(ctx, progs):
    todo, seen = [], set()
    for desc, tag in progs:
        key = json.dumps(desc, sort_keys=True)
        if key not in seen:
            seen.add(key)
            todo.append((desc, tag))
    if len(todo) > 100:
        import concurrent.futures as cf
        import multiprocessing as mp
        with cf.ProcessPoolExecutor(max_workers=min(tlc.NCPU, 12), mp_context=mp.get_context("fork")) as ex:
            recs = list(ex.map(_record_one, [d for d, _ in todo], chunksize=16))
    else:
        recs = [_record_one(d) for d, _ in todo]
    pairs = []
    for rec, (_, tag) in zip(recs, todo):
        if rec is None:
            ctx.bump("programs_rejected_by_Graph")
            continue
        rec["id"] = len(pairs) + 1
        pairs.append((rec, tag))
    return pairs


def run(tier, seed):
    ctx = Ctx(PID, tier, seed, "translation_validation")
    selftest(ctx)
    pairs = record_all(ctx, programs(tier, seed))
    for lvl in range(4):
        ctx.bump(f"graphs_nesting_{lvl}", sum(1 for r, _ in pairs if G.max_nesting(r["desc"]) == lvl))
    chunk = 480
    for i in range(0, len(pairs), chunk):
        evaluate(ctx, pairs[i:i + chunk])
    if pairs:
        rec = pairs[min(3, len(pairs) - 1)][0]
        ctx.sample({"desc": rec["desc"], "decl": rec["decl"], "states": rec["keys"]["expected"]})
    ctx.assumptions += [
        "dependencies are derived from the generator's own description by name matching per level (producer leaf x consumer leaf through wrapper inputs/outputs and their renames), never from hypergraph",
        "a dependency is drawn when some edge (or a two-edge path through a DATA node) joins a visible ancestor-or-self of the producer to a visible ancestor-or-self of the consumer (for a gate whose target is a container: or a visible node inside the target), excluding containers that enclose both ends; edge kinds are not distinguished",
        "an ordering dependency between two nodes of a level that a data or control dependency already links is not demanded separately (graph/core.py: ordering edges are only added if no data or control edge exists between the pair)",
        "edges from INPUT / INPUT_GROUP nodes, edges to END and DATA nodes without consumers are checked for self-consistency only; an input edge whose INPUT node is hidden is accepted (the front end filters it)",
        "the interactive front end draws an edge only when both endpoints are non-hidden nodes of the state",
    ]
    return ctx.finish(
        rule="families: an outer value consumed by 1-3 nodes at every combination of depths of a 1-3 deep container chain; mutually exclusive producers flat / nested; gates targeting functions, containers, END; emit/wait_for pairs with the emitter 0-3 containers deep; shared and container-owned inputs; renamed wrapper inputs/outputs; plus seeded random programs (<= 11 nodes, nesting 0..3, gates, mutex outputs, ordering pairs, shared inputs, one third with boundary renames) -- each x ALL valid expansion states x both output modes (nodesByState/edgesByState), x depth 0..3 x both modes for render_graph's initial view and for Mermaid; distinct = program description, non-trivial = >= 2 nodes",
        exhaustive=False)


def replay(path):
    w = json.load(open(path))["witness"]
    ctx = Ctx(PID, "quick", 0, "translation_validation")
    rec = G.record(w["desc"], 1)
    _, found = evaluate(ctx, [(rec, w.get("tag", "replay"))], report=False)
    for klass, _wit, summary in found:
        print(f"  class={klass} {summary[:300]}")
    hit = any(klass == w["class"] for klass, _, _ in found)
    print(f"[C20] replay: {'still violated' if hit else 'not reproduced'} class={w['class']}")
    return 1 if hit else 0
