"""C09 Caching is transparent, even with eviction, corruption or a torn write (DESIGN.md 5/C09)."""
from __future__ import annotations

import asyncio
import copy
import json
import os
import random
import shutil
import tempfile
import warnings

from hypergraph import AsyncRunner, InMemoryCache, SyncRunner
from hypergraph.cache import DiskCache

from .. import build, cachestore, gen, predict, tlc
from .. import ir as IR
from ..core import Ctx

PID = "C09"


# ---------------------------------------------------------------------------------------------
# store level
# ---------------------------------------------------------------------------------------------

def _cfg(name, text):
    path = os.path.join(tlc.SPEC_DIR, name)
    with open(path, "w") as f:
        f.write(text)
    return name


def store_model(maxops, bug="none", emit=True):
    name = f"_c09_store_{os.getpid()}_{maxops}_{bug}.cfg"
    _cfg(name, f'''SPECIFICATION Spec
CONSTANTS
  Keys = {{"k1", "k2"}}
  Vals = {{"v1", "v2"}}
  MaxOps = {maxops}
  Bug = "{bug}"
INVARIANT GetOK
INVARIANT Serves
INVARIANT NoUnverifiedUnpickle
{"INVARIANT Emit" if emit else ""}
CHECK_DEADLOCK FALSE
''')
    try:
        return tlc.run_tlc("CacheStore", cfg=name, workers=8, check=False, timeout=900)
    finally:
        os.remove(os.path.join(tlc.SPEC_DIR, name))


def lru_model(cap, maxops):
    name = f"_c09_lru_{os.getpid()}_{cap}.cfg"
    _cfg(name, f'''SPECIFICATION Spec
CONSTANTS
  Keys = {{"k1", "k2", "k3"}}
  Vals = {{"v1", "v2"}}
  Cap = {cap}
  MaxOps = {maxops}
INVARIANT Bounded
INVARIANT HitIsLastSet
INVARIANT Emit
CHECK_DEADLOCK FALSE
''')
    try:
        return tlc.run_tlc("LRUCache", cfg=name, workers=8, check=False, timeout=900)
    finally:
        os.remove(os.path.join(tlc.SPEC_DIR, name))


def key_files(ctx):
    """The per-directory signing key is 32 RANDOM bytes: any byte value may stand first or last (also ASCII whitespace).
    A second DiskCache opened on the directory must read the same key back: retained entries stay hits."""
    for key in (b" " + b"k" * 31, b"k" * 31 + b"\n", b"\t" + b"k" * 30 + b"\r", b"\x0b" + b"k" * 30 + b"\x0c", b"k" * 32):
        d = tempfile.mkdtemp(prefix="hgverif-c09-key-")
        try:
            with open(os.path.join(d, ".hypergraph_hmac_key"), "wb") as f:
                f.write(key)
            c1 = DiskCache(d)
            c1.set("entry", {"p": "value"})
            c2 = DiskCache(d)
            got = c2.get("entry")
            with open(os.path.join(d, ".hypergraph_hmac_key"), "rb") as f:
                after = f.read()
            ctx.count()
            ctx.traces()
            wit = {"key_first_byte": key[0], "key_last_byte": key[-1], "second_instance_get": repr(got), "key_file_rewritten": after != key}
            if got != (True, {"p": "value"}) or after != key:
                ctx.violation("disk:retained-entry-lost-on-reopen", wit,
                              f"a 32-byte key starting with {key[:1]!r} / ending with {key[-1:]!r}: the second DiskCache on the directory got {got} (key file rewritten: {after != key})")
        finally:
            shutil.rmtree(d, ignore_errors=True)


def run_store(ctx, thorough, rng):
    key_files(ctx)
    r = store_model(4 if thorough else 3)
    if r.violation or not r.ok:
        raise RuntimeError(f"CacheStore.tla violated {r.violation}")
    ctx.add_tlc(result=r)
    hists = r.results("HIST")
    if not thorough:
        r4 = store_model(4)
        ctx.add_tlc(result=r4)
        h4 = r4.results("HIST")
        hists += rng.sample(h4, min(len(h4), 4000))
    for bug, inv in (("unpickle_before_verify", "NoUnverifiedUnpickle"), ("skip_verify", "GetOK"), ("accept_missing_sig", "GetOK")):
        b = store_model(3, bug=bug, emit=False)
        if not (b.violation and b.violation[0] == "invariant"):
            raise RuntimeError(f"vacuity guard: spec mutant {bug} not caught ({b.violation})")
        ctx.bump("spec_mutants_caught")
    d = cachestore.DiskReplayer()
    try:
        for h in hists:
            ctx.count()
            ctx.traces()
            if any(op[0] in ("torn", "corrupt") for op in h):
                ctx.distinct("disk:" + json.dumps(h))
            for i, klass, msg in d.replay(h):
                ctx.violation("disk:" + klass, {"history": h, "at": i}, f"history {h}: op {i}: {msg}")
    finally:
        d.close()
    ctx.bump("disk_histories_replayed", len(hists))
    n = 0
    for cap in (1, 2, 3, 0):
        # capacity 2 needs five operations to tell a refreshed entry from a stale one (set a, set b, set a, set c, get a)
        r = lru_model(cap, 5 if thorough or cap == 2 else 4)
        if r.violation or not r.ok:
            raise RuntimeError(f"LRUCache.tla violated {r.violation}")
        ctx.add_tlc(result=r)
        for h in r.results("HIST"):
            n += 1
            ctx.count()
            ctx.traces()
            for i, klass, msg in cachestore.replay_lru(h, cap):
                ctx.violation("memory:" + klass, {"history": h, "cap": cap, "at": i}, f"cap={cap} history {h}: op {i}: {msg}")
    ctx.bump("lru_histories_replayed", n)


# ---------------------------------------------------------------------------------------------
# engine level
# ---------------------------------------------------------------------------------------------

def shared_function_programs():
    """Nodes that wrap the SAME function object but differ in output names or in which current
    input feeds which underlying parameter: an entry of one must never be served to the other."""
    out = []
    # different output names
    a = IR.func("A", ["x"], ["p"], cache=True, fid="shared_f", tname="F", olabels=["r1"])
    b = IR.func("B", ["x"], ["q"], cache=True, fid="shared_f", tname="F", olabels=["r1"])
    c = IR.func("C", ["p", "q"], ["c"])
    out.append((IR.prog("top", [a, b, c]), [["x", "in.x"]], "shared-func/different-outputs"))
    # same current input names, exchanged underlying parameters (swap rename on one of them)
    a = IR.func("A", ["x", "y"], ["p"], cache=True, fid="shared_g", tname="G", olabels=["r1"])
    b = IR.func("B", ["y", "x"], ["q"], cache=True, fid="shared_g", tname="G", olabels=["r1"])
    b["pmap"] = [["y", "x"], ["x", "y"]]      # current y feeds parameter x and vice versa (one with_inputs swap)
    out.append((IR.prog("top", [a, b]), [["x", "in.x"], ["y", "in.y"]], "shared-func/swapped-inputs"))
    # a cached WAITER in a counting loop: the signal is produced once, the waiter's data input keeps changing; whether its
    # one start is a real execution or a cache hit, it has consumed the signal and must not start again
    setup = IR.normalize_node(dict(name="setup", kind="func", inputs=["seed"], outputs=["cfg", "ready"], ndata=1))
    inc = IR.func("inc", ["count"], ["count"])
    c2 = "inc.count(count=inc.count(count=in.count))"
    check = IR.route("check", ["count"], ["inc", "END"], [["inc"]], dec_args=[[c2, ["END"]]])
    snap = IR.normalize_node(dict(name="snapshot", kind="func", inputs=["count"], outputs=["snap"], wait_for=["ready"], cache=True))
    for nodes in ([setup, inc, check, snap], [snap, check, inc, setup]):
        out.append((IR.prog("top", [copy.deepcopy(n) for n in nodes], max_iter=12), [["seed", "in.seed"], ["count", "in.count"]], "cached-waiter-in-loop"))
    # a cached node whose signal was renamed after construction (with_outputs), with a waiter and a persistent cache
    p1 = IR.normalize_node(dict(name="P", kind="func", inputs=["x"], outputs=["p", "ready"], ndata=1, cache=True, emit_renamed=True))
    w1 = IR.normalize_node(dict(name="W", kind="func", inputs=["y"], outputs=["w"], wait_for=["ready"]))
    out.append((IR.prog("top", [p1, w1]), [["x", "in.x"], ["y", "in.y"]], "renamed-signal-of-cached-node"))
    # a cached GATE that also emits a signal: on a cache hit its decision is restored AND its signal is produced
    for kind in ("route", "ifelse"):
        if kind == "route":
            G = IR.route("G", ["x"], ["A", "END"], [["A"]], cache=True, pure=True)
        else:
            G = IR.ifelse("G", ["x"], "A", "END", [["A"]], cache=True, pure=True)
        G["outputs"] = ["gs", "gs2"]
        A1 = IR.func("A", ["x"], ["a"])
        W1 = IR.normalize_node(dict(name="W", kind="func", inputs=["y"], outputs=["w"], wait_for=["gs"]))
        W2 = IR.normalize_node(dict(name="V", kind="func", inputs=["y"], outputs=["v"], wait_for=["gs2"]))
        out.append((IR.prog("top", [G, A1, W1, W2]), [["x", "in.x"], ["y", "in.y"]], f"cached-gate-with-signals/{kind}"))
    # an argument with a reference cycle (a list that contains itself): cacheable like any other picklable value
    out.append((IR.prog("top", [IR.func("A", ["x", "y"], ["p"], cache=True), IR.func("D", ["p"], ["d"], cache=True)]),
                [["x", "~cyc"], ["y", "in.y"]], "self-referential-argument"))
    # same function, same outputs, same arguments in two graphs' worth of nodes: sharing an entry is fine
    a = IR.func("A", ["x"], ["p"], cache=True)
    out.append((IR.prog("top", [a, IR.func("D", ["p"], ["d"], cache=True)]), [["x", "in.x"]], "plain"))
    return out


def cross_graph_cases():
    """Two GRAPHS sharing one cache and one function object: (alt program, tag)."""
    out = []
    # the same two-output function exposed under permuted output names
    a = IR.func("A", ["x"], ["p", "q"], cache=True, fid="shared_h", tname="H", olabels=["r1", "r2"])
    b = IR.func("A", ["x"], ["q", "p"], cache=True, fid="shared_h", tname="H", olabels=["r1", "r2"])
    out.append((IR.prog("top", [a]), IR.prog("top", [b]), [["x", "in.x"]], "shared-func/permuted-outputs"))
    # the same function and the same output name, inputs exchanged by ONE with_inputs() call in the second graph:
    # both nodes are fed {x: in.x, y: in.y}, but the underlying parameters receive them the other way round
    a = IR.func("A", ["x", "y"], ["p"], cache=True, fid="shared_sw", tname="SW", olabels=["r1"])
    b = IR.func("A", ["y", "x"], ["p"], cache=True, fid="shared_sw", tname="SW", olabels=["r1"])
    b["pmap"] = [["y", "x"], ["x", "y"]]
    out.append((IR.prog("top", [a]), IR.prog("top", [b]), [["x", "in.x"], ["y", "in.y"]], "shared-func/swapped-inputs-across-graphs"))
    # ... and a rotation that re-uses the names (x->y, y->z, z->x)
    a = IR.func("A", ["x", "y", "z"], ["p"], cache=True, fid="shared_rot", tname="ROT", olabels=["r1"])
    b = IR.func("A", ["y", "z", "x"], ["p"], cache=True, fid="shared_rot", tname="ROT", olabels=["r1"])
    b["pmap"] = [["y", "x"], ["z", "y"], ["x", "z"]]
    out.append((IR.prog("top", [a]), IR.prog("top", [b]), [["x", "in.x"], ["y", "in.y"], ["z", "in.z"]], "shared-func/rotated-inputs-across-graphs"))
    # the same routing function in two if/else gates with exchanged targets
    def gate(t, f):
        return IR.ifelse("G", ["x"], t, f, [[t]], cache=True, fid="shared_dec", tname="DEC", pure=True)
    g1 = gate("A", "B")
    g2 = gate("B", "A")
    g2["script"] = [["B"]]           # the function returns the same boolean: True selects the gate's OWN when_true
    na, nb = IR.func("A", ["x"], ["a"]), IR.func("B", ["x"], ["b"])
    out.append((IR.prog("top", [g1, na, nb]), IR.prog("top", [g2, na, nb]), [["x", "in.x"]], "shared-func/gate-swapped-targets"))
    # the same routing function (it returns None) in two route gates with the same targets but different FALLBACKS
    def fgate(fb):
        return IR.route("G", ["x"], ["A", "B"], [[IR.NONE]], cache=True, fid="shared_fb", tname="FB", fallback=fb)
    out.append((IR.prog("top", [fgate("A"), na, nb]), IR.prog("top", [fgate("B"), na, nb]), [["x", "in.x"]], "shared-func/gate-different-fallback"))
    # arguments of different TYPES with the same text form (the integer 1 and the string "1") are different arguments
    a = IR.func("A", ["x"], ["p"], cache=True, fid="shared_scalar", tname="SC")
    b = IR.func("A", ["y"], ["p"], cache=True, fid="shared_scalar", tname="SC", pmap=[["y", "x"]])
    out.append((IR.prog("top", [a]), IR.prog("top", [b]), [["x", "1"], ["y", "~s1"]], "shared-func/int-and-str-arguments"))
    g1 = IR.ifelse("G", ["x"], "A", "B", [["A"]], cache=True, fid="shared_scalar_gate", tname="SG", pure=True)
    g2 = IR.ifelse("G", ["y"], "A", "B", [["A"]], cache=True, fid="shared_scalar_gate", tname="SG", pure=True, pmap=[["y", "x"]])
    na2, nb2 = IR.func("A", ["k"], ["a"]), IR.func("B", ["k"], ["b"])
    out.append((IR.prog("top", [g1, na2, nb2]), IR.prog("top", [g2, na2, nb2]), [["x", "1"], ["y", "~s1"], ["k", "in.k"]], "shared-func/int-and-str-gate-arguments"))
    # ... and closures of one factory that capture different OBJECTS whose repr is the default one (with an address)
    a = IR.func("A", ["x"], ["p"], cache=True, fid="clo_obj_1", tname="CLO1", closure=["cell", "~newobj"])
    b = IR.func("A", ["x"], ["p"], cache=True, fid="clo_obj_2", tname="CLO2", closure=["cell", "~newobj"])
    out.append((IR.prog("top", [a]), IR.prog("top", [b]), [["x", "in.x"]], "same-source/captured-object-differs"))
    # equal arguments, one of them holding the SAME inner object twice ([w, w]), the other two equal objects ([w1, w2])
    a = IR.func("A", ["x"], ["p"], cache=True, fid="shared_alias", tname="AL")
    b = IR.func("A", ["y"], ["p"], cache=True, fid="shared_alias", tname="AL", pmap=[["y", "x"]])
    out.append((IR.prog("top", [a]), IR.prog("top", [b]), [["x", "[[w];[w]]"], ["y", "[[w];[w]]"]], "shared-func/aliased-inside-one-argument"))
    # ONE function behind a function node and behind an interrupt (same output name): its None is an ordinary value of
    # the function node, but makes the interrupt pause -- a cached {p: None} must not resolve the interrupt
    a = IR.func("A", ["x"], ["p"], cache=True, fid="shared_kind", tname="ID", fn="id")
    b = IR.interrupt("A", ["x"], ["p"], cache=True, fid="shared_kind", tname="ID", fn="id", pause_at=[1, 2, 3])
    out.append((IR.prog("top", [a]), IR.prog("top", [b]), [["x", "~none"]], "shared-func/function-node-and-interrupt"))
    # two definitions with the SAME source text that capture different values (a closure cell / a default evaluated
    # at definition time): functions returned by one file-defined factory
    for kind in ("cell", "default"):
        a = IR.func("A", ["x"], ["p"], cache=True, fid=f"clo_{kind}_1", tname="CLO1", closure=[kind, "k1"])
        b = IR.func("A", ["x"], ["p"], cache=True, fid=f"clo_{kind}_2", tname="CLO2", closure=[kind, "k2"])
        out.append((IR.prog("top", [a]), IR.prog("top", [b]), [["x", "in.x"]], f"same-source/captured-{kind}-differs"))
    return out


def engine_programs(rng, n):
    out = []
    tries = 0
    while len(out) < n and tries < 20000:
        tries += 1
        prog, _ = gen.random_flat(rng, n_nodes=(2, 5), cyclic=0.3, gate=0.5, multi_out=0.25, defaults=0.2, bound=0.15, emit=0.15, fail=0.0, fn_mix=True)
        any_c = False
        for x in prog["nodes"]:
            if x["kind"] in ("route", "ifelse"):
                x["pure"] = True          # caching presupposes functions of their arguments: no invocation-indexed scripts
        for x in prog["nodes"]:
            if x["kind"] in ("func", "route", "ifelse") and rng.random() < 0.6:
                x["cache"] = True
                any_c = True
            if x["kind"] == "func" and len(x["outputs"]) > x["ndata"] and rng.random() < 0.5:
                x["emit_renamed"] = True       # the signal got its name through with_outputs()
        if not any_c:
            continue
        try:
            prov = build.suggest_inputs(prog, rng)
        except Exception:  # noqa: BLE001
            continue
        j = gen.job(0, prog, prov)
        o, _, _ = predict.try_real(j)
        if "rejected" in o:
            continue
        out.append((prog, prov, "random"))
    return out


def definition_churn(ctx, n, mode):
    """History: n DIFFERENT definitions of a cacheable node with the same name, output name and arguments are
    created, run against ONE shared cache and dropped (all references released) one after the other.  Every run
    must invoke its own function exactly once and return its own value: an entry is never served to another
    definition, however the interpreter recycles the dropped function objects."""
    import gc
    backend = InMemoryCache()
    for i in range(n):
        nd = IR.func("F", ["x"], ["r"], cache=True, tname=f"F{i}", deftag=f"definition {i}")
        prog = IR.prog("top", [nd])
        rt = build.Runtime(prog)
        with warnings.catch_warnings():
            warnings.simplefilter("ignore")
            g = build.build_graph(rt, prog)
            kw = dict(error_handling="continue", on_internal_override="ignore")
            if mode == "sync":
                r = SyncRunner(cache=backend).run(g, {"x": "in.x"}, **kw)
            else:
                r = asyncio.run(AsyncRunner(cache=backend).run(g, {"x": "in.x"}, **kw))
        ctx.count()
        ctx.traces()
        want = f"F{i}.r(x=in.x)"
        got = r.values.get("r")
        wit = {"history": "definition-churn", "index": i, "mode": mode, "expected": want, "observed": got, "invocations": len(rt.log)}
        if got != want:
            ctx.violation("entry-served-to-other-node:recycled-function-object", wit,
                          f"definition {i} (created after earlier definitions were dropped) returned {got}, its own function returns {want}")
            return
        if len(rt.log) != 1:
            ctx.violation("invocations-of-new-definition", wit, f"definition {i} was invoked {len(rt.log)} times on its first run")
            return
        del g, rt, r, nd, prog
        gc.collect()
    ctx.bump("definition_churn_runs", n)


def real_seq(job, backend):
    """Run the job's sequence on the real runners sharing `backend`.  One graph object per program (the
    alternative program `alt` shares the Runtime, hence function objects), fresh call log per run."""
    both = IR.prog("both", [])
    both["nodes"] = list(job["prog"]["nodes"]) + [n for n in job["alt"]["nodes"] if n["name"] not in {m["name"] for m in job["prog"]["nodes"]}]
    rt = build.Runtime(both)
    with warnings.catch_warnings():
        warnings.simplefilter("ignore")
        g1 = build.build_graph(rt, job["prog"])
        g2 = build.build_graph(rt, job["alt"]) if job["alt"]["nodes"] else None
    outs = []
    for entry in job["seq"]:
        mode = entry.split("@")[0]
        g = g2 if entry.endswith("@2") else g1
        rt.reset()
        kw = dict(error_handling="continue", max_iterations=job["prog"]["max_iter"], on_internal_override="ignore")
        with warnings.catch_warnings():
            warnings.simplefilter("ignore")
            try:
                if mode == "sync":
                    r = SyncRunner(cache=backend).run(g, build.provided_dict(job), **kw)
                else:
                    r = asyncio.run(AsyncRunner(cache=backend).run(g, build.provided_dict(job), **kw))
            except Exception as e:  # noqa: BLE001
                outs.append({"rejected": type(e).__name__, "msg": str(e)[:200]})
                continue
        outs.append(build.observe(rt, r))
    return outs


def fn_counts(calls, prog):
    """Invocations per wrapped function (nodes sharing a function are counted together)."""
    nodes = dict(IR.all_nodes(prog))
    d = {}
    for c in calls:
        p = c["path"]
        key = p if p.startswith("fid:") else ("fid:" + nodes[p]["fid"] if nodes[p]["fid"] != nodes[p]["name"] and not nodes[p]["fid"].startswith("path:") else p)
        d[key] = d.get(key, 0) + 1
    return d


def run_engine(ctx, thorough, rng):
    cases = shared_function_programs() + engine_programs(rng, 260 if thorough else 70)
    jobs = []
    for prog, alt, prov, tag in cross_graph_cases():
        seqs = (["sync", "sync@2"], ["async@2", "sync"], ["sync", "async@2", "sync"])
        if "interrupt" in tag:           # interrupts need the async runner
            seqs = (["sync", "async@2"], ["async", "async@2", "async"], ["async@2", "sync", "async@2"])
        for seq in seqs:
            j = gen.job(len(jobs) + 1, prog, prov)
            j["alt"] = alt
            if "aliased-inside" in tag:
                j["alias"] = {"x": "alias", "y": "distinct"}
            j["seq"] = seq
            j["cap"] = 0
            j["_tag"] = tag
            jobs.append(j)
    for prog, prov, tag in cases:
        for cap in ((0, 1, 2, 3) if thorough else (0, rng.choice([1, 2]))):
            j = gen.job(len(jobs) + 1, prog, prov)
            j["seq"] = [rng.choice(["sync", "async"]) for _ in range(rng.randint(2, 3))]
            j["cap"] = cap
            j["_tag"] = tag
            jobs.append(j)
    clean = [{k: v for k, v in j.items() if not k.startswith("_")} for j in jobs]
    res, stats = predict.model_predict(clean, prop=PID)
    ctx.add_tlc(stats)
    tmp = tempfile.mkdtemp(prefix="hgverif-c09-")
    try:
        for j, jc in zip(jobs, clean):
            m = res[j["id"]]
            backends = [("memory", InMemoryCache(max_size=j["cap"] or None))]
            if j["cap"] == 0 and (thorough or rng.random() < 0.3):
                backends.append(("disk", DiskCache(os.path.join(tmp, f"d{j['id']}"))))
            # real uncached reference
            un = copy.deepcopy(jc)
            for _, nd in list(IR.all_nodes(un["prog"])) + list(IR.all_nodes(un["alt"])):
                nd["cache"] = False
            ref = real_seq(un, None)
            ctx.distinct(IR.struct_hash([jc["prog"], jc["provided"], jc["seq"], jc["cap"]]))
            for bname, backend in backends:
                outs = real_seq(jc, backend)
                ctx.count()
                ctx.traces()
                for k, (o, mr, rf) in enumerate(zip(outs, m["runs"], ref)):
                    wit = {"job": jc, "backend": bname, "run": k, "tag": j["_tag"],
                           "model": {x: mr[x] for x in ("status", "values", "err")}, "uncached": {x: rf.get(x) for x in ("status", "values", "err")},
                           "observed": o if "rejected" in o else {x: o[x] for x in ("status", "values", "err")}}
                    if "rejected" in o or "rejected" in rf:
                        if ("rejected" in o) != ("rejected" in rf):
                            ctx.violation("cached-run-rejected", wit, f"{o}")
                        break
                    if o["status"] != rf["status"] or o["values"] != rf["values"] or o["err"]["kind"] != rf["err"]["kind"]:
                        klass = "not-transparent"
                        if any("object object" in str(v) for v in o["values"].values()):
                            klass = "sentinel-leaks-from-cache"
                        elif "shared-func" in j["_tag"] or "same-source" in j["_tag"]:
                            klass = "entry-served-to-other-node:" + j["_tag"].split("/")[1]
                        ctx.violation(klass, wit, f"run {k} on {bname} cache: status/values {o['status']} {o['values']} differ from the uncached run {rf['status']} {rf['values']}")
                        break
                    if o["values"] != mr["values"] or o["status"] != mr["status"]:
                        ctx.violation("values-vs-model", wit, f"run {k}: {o['values']} model {mr['values']}")
                        break
                    if bname == "memory":
                        # invocation counts per function = the specification's (not invoked again while retained; re-invoked after eviction)
                        which = jc["alt"] if jc["seq"][k].endswith("@2") else jc["prog"]        # the graph this run used
                        cm, co = fn_counts(mr["calls"], which), fn_counts(o["calls"], which)
                        cm = {k2.replace("path:", ""): v for k2, v in cm.items()}
                        if cm != co:
                            klass = "invoked-again-while-retained" if any(co.get(x, 0) > cm.get(x, 0) for x in co) else "served-without-entry"
                            ctx.violation(klass, wit, f"run {k}: invocations per function {co}, specification {cm}")
                            break
    finally:
        shutil.rmtree(tmp, ignore_errors=True)
    mid = clean[len(clean) // 2]
    ctx.sample({"seq": mid["seq"], "cap": mid["cap"], "cacheable": [n["name"] for n in mid["prog"]["nodes"] if n["cache"]],
                "model_invocations_per_run": [len(r["calls"]) for r in res[mid["id"]]["runs"]]})


def run(tier, seed):
    ctx = Ctx(PID, tier, seed, "model_checking")
    rng = random.Random(seed)
    thorough = tier == "thorough"
    run_store(ctx, thorough, rng)
    run_engine(ctx, thorough, rng)
    for mode in ("sync", "async"):
        definition_churn(ctx, 400 if thorough else 120, mode)
    ctx.assumptions += ["CacheStore.tla: a disk entry is two writes (payload, HMAC); crash between them, bit flip, truncation, type change, missing signature / payload are environment actions; every history of the bounded model is replayed on a real DiskCache (tampering through a second diskcache handle; pickle.loads spied)",
                        "LRUCache.tla histories are replayed on InMemoryCache(max_size)",
                        "engine level: HGEngine.tla keys an entry by (function definition, output names, arguments by original parameter); TLC checks transparency and at-most-once against the uncached model run (HGProps!C09)"]
    return ctx.finish(rule="store: all operation histories (set, torn set, 6 corruption classes, get) of length 3 (quick; + sampled length 4) / 4 (thorough) over 2 keys x 2 values on DiskCache; all set/get histories of length 4-5 over 3 keys for LRU capacities 1,2,3,unbounded; engine: random gated/cyclic programs with random cacheable subsets + shared-function programs x run sequences of length 2-3 mixing runners x capacities; definition churn: 120/400 different definitions of one node created, run against one cache and dropped in turn; distinct = structural hash / history")


def replay(path):
    w = json.load(open(path))["witness"]
    if "history" in w and "cap" not in w:
        d = cachestore.DiskReplayer()
        try:
            mm = d.replay(w["history"])
        finally:
            d.close()
        print(mm)
        return 1 if mm else 0
    if "history" in w:
        mm = cachestore.replay_lru(w["history"], w["cap"])
        print(mm)
        return 1 if mm else 0
    jc = w["job"]
    un = copy.deepcopy(jc)
    for _, nd in IR.all_nodes(un["prog"]):
        nd["cache"] = False
    ref = real_seq(un, None)
    outs = real_seq(jc, InMemoryCache(max_size=jc["cap"] or None))
    bad = any(("rejected" in o) != ("rejected" in r) or ("rejected" not in o and (o["status"] != r["status"] or o["values"] != r["values"])) for o, r in zip(outs, ref))
    print("differs" if bad else "same")
    return 1 if bad else 0
