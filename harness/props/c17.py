"""C17 Ordering signals: a waiting node runs after, and once per, each production (DESIGN.md 5/C17)."""
from __future__ import annotations

import copy
import json
import random

from .. import enginecheck, gen, predict
from .. import ir as IR
from ..core import Ctx

PID = "C17"


def waiter_pairs(prog):
    prods = {}
    for n in prog["nodes"]:
        for o in n["outputs"]:
            prods.setdefault(o, []).append(n["name"])
    for n in prog["nodes"]:
        for w in n["wait_for"]:
            for p in prods.get(w, []):
                if p != n["name"]:
                    yield p, n["name"]


def compare(ctx, job, m, o, tag, failed):
    wit = enginecheck.witness(job, tag, m, o, failed_clauses=failed)
    if "rejected" in o:
        return False
    if failed:
        return ctx.violation("monitor:" + "+".join(sorted(failed)), wit, f"TLC rejected the recorded call log: clause {failed} of the signal monitor")
    waiters = {n["name"] for n in job["prog"]["nodes"] if n["wait_for"]}
    cm, co = predict.per_node(m["calls"]), predict.per_node(o["calls"])
    for p, w in waiter_pairs(job["prog"]):
        pm, po = predict.projection(m["calls"], p, w), predict.projection(o["calls"], p, w)
        if pm != po:
            k = "signal-not-fresh-after-second-emission" if (len(co.get(w, [])) < len(cm.get(w, [])) and len(co.get(w, [])) >= 1 and len(co.get(p, [])) >= 2) else "producer-waiter-order"
            return ctx.violation(k, wit, f"({p},{w}) projection {po} model {pm}")
    for w in waiters:
        if len(cm.get(w, [])) != len(co.get(w, [])):
            return ctx.violation("waiter-count", wit, f"waiter {w} ran {len(co.get(w, []))} times, model {len(cm.get(w, []))}")
    mm = enginecheck.common_mismatch(m, o)
    if mm:
        return ctx.violation("outcome", wit, mm)
    if cm != co:
        ctx.divergence("per-node call sequences differ from the L2 model", {"job": job["id"]})
    return False


def templates(rng, thorough):
    """Hand-shaped signal programs: DAG pair, several waiters, gate / data-name producers, cycle."""
    out = []
    for order in (0, 1):
        for kind in ("sig", "data"):
            for nw in (1, 2):
                P = IR.normalize_node(dict(name="P", kind="func", inputs=["x"], outputs=["p"] + (["s1"] if kind == "sig" else []), ndata=1))
                name = "s1" if kind == "sig" else "p"
                ws = [IR.normalize_node(dict(name=f"W{i}", kind="func", inputs=["y"], outputs=[f"w{i}"], wait_for=[name])) for i in range(nw)]
                nodes = ([P] + ws) if order == 0 else (ws + [P])
                out.append((IR.prog("top", nodes), [["x", "in.x"], ["y", "in.y"]], f"dag/{kind}/w{nw}/o{order}"))
    # a waiter (function, gate) WITHOUT any data parameter: the signal is all it waits for
    for order in (0, 1):
        A0 = IR.func("load", ["x"], ["rows"])                      # the producer itself only becomes ready in the second step
        P = IR.normalize_node(dict(name="P", kind="func", inputs=["rows"], outputs=["p", "saved"], ndata=1))
        N = IR.normalize_node(dict(name="notify", kind="func", inputs=[], outputs=["note"], wait_for=["saved"]))
        nodes = [A0, P, N] if order == 0 else [N, P, A0]
        out.append((IR.prog("top", nodes), [["x", "in.x"]], f"dag/parameterless-waiter/o{order}"))
        G = IR.route("G", [], ["B", "END"], [["B"]], wait_for=["saved"])
        B = IR.func("B", ["p"], ["b"])
        nodes = [A0, P, G, B] if order == 0 else [G, B, P, A0]
        out.append((IR.prog("top", nodes), [["x", "in.x"]], f"dag/parameterless-gate-waiter/o{order}"))
    # the producer got its signal's name through a RENAME (one generic node with emit="done" re-used as several stages):
    # the early node's OLD signal name is the name the late node's signal was renamed to
    for order in (0, 1):
        E = IR.normalize_node(dict(name="early", kind="func", inputs=["x"], outputs=["e", "s_early"], ndata=1, emit_renamed=True))
        M = IR.func("middle", ["e"], ["m"])
        L = IR.normalize_node(dict(name="late", kind="func", inputs=["m"], outputs=["l", "s_early_0"], ndata=1, emit_renamed=True))
        W = IR.normalize_node(dict(name="W", kind="func", inputs=["x"], outputs=["w"], wait_for=["s_early_0"]))
        nodes = [E, M, L, W] if order == 0 else [W, L, M, E]
        out.append((IR.prog("top", nodes), [["x", "in.x"]], f"dag/renamed-signals-cross/o{order}"))
    # SEVERAL waiters of one signal whose data input first appears in the second loop iteration, together with the value that
    # makes the producer ready again (the signal of the first iteration is still there): all of them are held back
    for nw in (2, 3):
        for order in (0, 1):
            C = IR.normalize_node(dict(name="compute", kind="func", inputs=["x"], outputs=["y", "computed"], ndata=1))
            M = IR.route("more", ["y"], ["bump", "END"], [["bump"], ["bump"], ["END"]])
            Bm = IR.func("bump", ["y"], ["x", "z"])
            ws = [IR.normalize_node(dict(name=f"audit{i}", kind="func", inputs=["z"], outputs=[f"au{i}"], wait_for=["computed"])) for i in range(nw)]
            nodes = (ws + [C, M, Bm]) if order == 0 else ([C, M, Bm] + ws)
            out.append((IR.prog("top", nodes, max_iter=30), [["x", "in.x"]], f"late-waiters-loop/w{nw}/o{order}"))
    # a gate that emits, a waiter on it
    for dopen in (True, False):
        A = IR.func("A", ["x"], ["a"])
        G = IR.route("G", ["a"], ["B", "END"], [["B"], ["END"]], default_open=dopen)
        G["outputs"] = ["gs"]
        B = IR.func("B", ["a"], ["b"])
        W = IR.normalize_node(dict(name="W", kind="func", inputs=["x"], outputs=["w"], wait_for=["gs"]))
        out.append((IR.prog("top", [W, A, G, B]), [["x", "in.x"]], f"gate-emits/{'open' if dopen else 'closed'}"))
    # an INTERRUPT that emits the signal: answered by its handler, or answered by the caller (resume path)
    for pos in (0, 1):
        I = IR.interrupt("I", ["x"], ["ans", "asked"], ndata=1)
        W = IR.normalize_node(dict(name="W", kind="func", inputs=["y"], outputs=["w"], wait_for=["asked"]))
        nodes = [I, W] if pos == 0 else [W, I]
        out.append((IR.prog("top", nodes), [["x", "in.x"], ["y", "in.y"]], f"interrupt-emits/handler/o{pos}"))
        out.append((IR.prog("top", nodes), [["x", "in.x"], ["y", "in.y"], ["ans", "ans.I.ans"]], f"interrupt-emits/resumed/o{pos}"))
    # one signal with SEVERAL producers: two exclusive gate targets of a counting loop both emit `worked`; the
    # waiter's data input arrives through a chain, so that it becomes eligible exactly when a producer is about to run again
    for chain in (1, 2, 3):
        for first in (False, True):
            script = [["work_a"], ["work_b"], ["work_a"], ["END"]]
            D = IR.route("decide", ["n"], ["work_a", "work_b", "END"], script)
            A = IR.normalize_node(dict(name="work_a", kind="func", inputs=["n"], outputs=["n", "worked"], ndata=1))
            B = IR.normalize_node(dict(name="work_b", kind="func", inputs=["n"], outputs=["n", "worked"], ndata=1))
            ch, prev = [], "n"
            for i in range(chain):
                ch.append(IR.func(f"stage{i}", [prev], [f"s{i}"]))
                prev = f"s{i}"
            R = IR.normalize_node(dict(name="report", kind="func", inputs=[prev], outputs=["reported"], wait_for=["worked"]))
            nodes = ([R] if first else []) + [D, A, B] + ch + ([] if first else [R])
            out.append((IR.prog("top", nodes, max_iter=30), [["n", "in.n"]], f"two-producers/chain{chain}/{'waiter-first' if first else 'waiter-last'}"))
    # chat-loop shape: waiter is the gate (liveness half), n continue decisions
    for n in range(0, 5 if thorough else 4):
        for m in (1, 2):
            prog, prov, meta = gen.loop_template(m, "dowhile", "route", False, n)
            out.append((prog, prov, f"loop/m{m}/N{n}"))
    return out


def make_pairs(tier, rng):
    thorough = tier == "thorough"
    pairs = []
    for prog, prov, tag in templates(rng, thorough):
        for mode in ("sync", "async"):
            pairs.append((gen.job(0, copy.deepcopy(prog), prov, mode=mode), tag))
    n_rand = 5000 if thorough else 900
    tries = 0
    while n_rand > 0 and tries < 100000:
        tries += 1
        prog, prov = gen.random_flat(rng, gate=0.5, cyclic=0.3, n_nodes=(2, 5), defaults=0.15, bound=0.1, emit=0.9)
        for n in prog["nodes"]:
            if n["kind"] == "func" and len(n["outputs"]) > n["ndata"] and rng.random() < 0.3:
                n["emit_renamed"] = True          # the signal got its name through with_outputs()
        if not any(n["wait_for"] for n in prog["nodes"]):
            continue
        j = gen.job(0, prog, prov, mode=rng.choice(["sync", "async"]))
        o, _, _ = predict.try_real(j)
        if "rejected" in o:
            continue
        pairs.append((j, "random"))
        n_rand -= 1
    for i, (j, _) in enumerate(pairs):
        j["id"] = i + 1
    return pairs


def run_explored(ctx, tier, rng):
    """HGSteps.tla: for small signal programs TLC takes EVERY combination of gate decisions (within a
    budget) and injected failures, with the signal monitor as an invariant of every reachable state; each
    terminal behaviour is replayed on the real runners (producer/waiter projections included)."""
    from .. import steps
    thorough = tier == "thorough"
    jobs = []
    for prog, prov, tag in templates(rng, thorough):
        if tag.startswith("loop/") and int(tag.rsplit("N", 1)[1]) != 2:
            continue
        jobs.append((copy.deepcopy(prog), prov, "tpl/" + tag))
    want = 60 if thorough else 16
    tries = 0
    while want > 0 and tries < 20000:
        tries += 1
        prog, prov = gen.random_flat(rng, gate=0.7, cyclic=0.4, n_nodes=(2, 4), defaults=0.1, bound=0.0, emit=0.9)
        if not any(n["wait_for"] for n in prog["nodes"]) or not any(n["kind"] in ("route", "ifelse") for n in prog["nodes"]):
            continue
        o, _, _ = predict.try_real(gen.job(0, prog, prov, mode="sync"))
        if "rejected" in o:
            continue
        jobs.append((prog, prov, "random"))
        want -= 1
    sjobs = []
    for prog, prov, tag in jobs:
        prog["max_iter"] = min(prog["max_iter"], 8)
        for n in prog["nodes"]:
            if n["kind"] == "func" and rng.random() < (0.3 if thorough else 0.15):
                n["mayfail"] = True
        j = gen.job(len(sjobs) + 1, prog, prov, mode=rng.choice(["sync", "async"]))
        j["dbudget"] = 4 if thorough else 3
        j["fbudget"] = 1
        j["_tag"] = tag
        sjobs.append(j)
    behs, stats = steps.explore([{k: v for k, v in j.items() if not k.startswith("_")} for j in sjobs])
    ctx.add_tlc(stats)

    def extra(ctx, job, m, o, wit):
        for p, w in waiter_pairs(job["prog"]):
            pm, po = predict.projection(m["calls"], p, w), predict.projection(o["calls"], p, w)
            if pm != po:
                ctx.violation("explored:producer-waiter-order", wit, f"({p},{w}) projection {po}, explored behaviour {pm}")
                return
    n = steps.replay_explored(ctx, sjobs, behs, extra=extra)
    ctx.bump("tlc_explored_behaviours_replayed", n)


def run_policies(ctx, tier, rng, pairs, res):
    """All completion orders: async jobs re-run under the controlled driver with adversarial release policies
    (oldest / newest / random) -- supersteps are barriers, so producer/waiter order and waiter counts must not move."""
    from .. import sched
    cand = [(j, t) for j, t in pairs if j["mode"] == "async" and not any(n["kind"] == "interrupt" for n in j["prog"]["nodes"])]
    rng.shuffle(cand)
    n = 0
    for j, tag in cand[: (400 if tier == "thorough" else 60)]:
        m = res[j["id"]]
        ja = dict(j, prog=sched.asyncify(j["prog"]))
        for name, pick in (("oldest", lambda keys: keys[0]), ("newest", lambda keys: keys[-1]), ("random", lambda keys, r=random.Random(rng.random()): r.choice(keys))):
            o, ctl = sched.run_schedule(ja, [], 0, pick=pick)
            ctx.count()
            ctx.traces()
            n += 1
            wit = {"job": ja, "tag": tag, "policy": name, "released": ctl.released[:30], "observed": {"status": o["status"], "calls": [c["path"] for c in o["calls"]]}}
            if o["status"] == "deadlock":
                ctx.violation("policy:deadlock", wit, f"run did not terminate under release policy {name}")
                break
            bad = False
            for p, w in waiter_pairs(j["prog"]):
                pm, po = predict.projection(m["calls"], p, w), predict.projection(o["calls"], p, w)
                if pm != po:
                    ctx.violation("policy:producer-waiter-order", wit, f"({p},{w}) projection {po} under policy {name}, model {pm}")
                    bad = True
                    break
            if bad:
                break
    ctx.bump("adversarial_policy_runs", n)


def selftest(ctx, pairs):
    """Move a waiter's start in front of its producer in a recorded log: TLC must reject it."""
    for j, tag in pairs:
        if tag.startswith("dag/sig/w1/o0"):
            o, _, _ = predict.try_real(j)
            bad = copy.deepcopy(o)
            bad["calls"].reverse()
            good_item, bad_item = predict.trace_item(j, o), predict.trace_item(dict(j, id=10**6), bad)
            failed, _ = predict.trace_l1([good_item, bad_item], PID)
            if failed[good_item["id"]] or not failed[bad_item["id"]]:
                raise RuntimeError(f"binding self-test failed: {failed}")
            ctx.bump("binding_selftests", 2)
            return
    raise RuntimeError("self-test: template not found")


def run(tier, seed):
    ctx = Ctx(PID, tier, seed, "model_checking")
    rng = random.Random(seed)
    pairs = make_pairs(tier, rng)
    selftest(ctx, pairs)
    for j, _ in pairs:
        ctx.distinct(IR.struct_hash([j["prog"], j["provided"], j["mode"]]))
    res, reals = enginecheck.evaluate(ctx, pairs, PID, compare, trace_prop=PID, min_accepted=len(pairs) // 2)
    run_explored(ctx, tier, rng)
    run_policies(ctx, tier, rng, pairs, res)
    mid = pairs[len(pairs) // 2][0]
    ctx.sample({"job": mid, "observed_calls": [c["path"] for c in reals[mid["id"]].get("calls", [])]})
    ctx.assumptions += ["a production is a completed invocation of a node that lists the awaited name among its outputs",
                        "safety half: TLC monitor on model runs (invariant) and on recorded real call logs (TraceL1); liveness half: waiter invocation counts and (producer, waiter) order projections equal the engine model's, loop templates as in C04"]
    return ctx.finish(rule="signal templates (producer/waiter in either list order, signal or data name, 1-2 waiters, emitting gate, emitting interrupt answered by handler / by the caller, a signal with two exclusive producers in a counting loop, documented chat loop with 0..4 iterations) on both runners + seeded random programs with emit/wait_for pairs, gates and cycles; async programs re-run under adversarial release policies (oldest / newest / random completion); HGSteps: every gate-decision / failure combination of small signal programs explored by TLC with the monitor as invariant, every terminal behaviour replayed; distinct = structural hash of (program, provided, runner)")


def replay(path):
    w = json.load(open(path))["witness"]
    ctx = Ctx(PID, "quick", 0, "model_checking")
    enginecheck.evaluate(ctx, [(w["job"], w.get("tag", "replay"))], PID, compare, trace_prop=PID)
    return 1 if ctx.violations else 0
