"""C05 Composition: a nested graph behaves exactly like its nodes inlined (DESIGN.md 5/C05)."""
from __future__ import annotations

import copy
import json
import random

from .. import build, enginecheck, gen, predict, specs
from .. import ir as IR
from ..core import Ctx

PID = "C05"


def leaf_args(calls):
    d = {}
    for c in calls:
        d.setdefault(c["path"].rsplit("/", 1)[-1], []).append(c["args"])
    return d


def classify(job, detail):
    return None


def compare(ctx, job, m, o, tag, failed):
    """o = real NESTED run; job['_flat_obs'] = real FLAT run; m = model of the nested run (TLC checked
    it against the model of the flat run: HGProps!C05)."""
    of = job["_flat_obs"]
    wit = enginecheck.witness({k: v for k, v in job.items() if not k.startswith("_")}, tag, m, o, flat_observed=of)
    if "rejected" in of:
        return False
    if "rejected" in o:
        if job["flat"]["selected"] != IR.UNSET and o["rejected"] == "MissingInputError":
            return False     # under a graph-level select the nested graph (narrowed as a unit) may need inputs the flat one does not
        return ctx.violation("nested-rejected", wit, f"nested variant rejected while the flat graph runs: {o}")
    if o["status"] != of["status"]:
        return ctx.violation("status", wit, f"nested {o['status']} flat {of['status']}")
    if o["status"] != "completed":
        return False
    hidden = set(job["hidden"])
    for k, v in o["values"].items():
        if of["values"].get(k) != v:
            return ctx.violation("value", wit, f"{k}: nested {v} flat {of['values'].get(k)}")
    for k in of["values"]:
        if job["flat"]["selected"] != IR.UNSET:
            break      # see HGProps!C05 `exposed`
        if k not in hidden and k not in o["values"]:
            return ctx.violation("missing-output", wit, f"{k} returned by the flat graph is not exposed by the nesting")
    for k in o["values"]:
        if k in hidden:
            return ctx.violation("hidden-output-exposed", wit, f"{k} is not selected by the nested graph but is returned")
    # "a nested graph receives exactly the values addressed to its inputs": the functions INSIDE nested graphs
    inner_names = {c["path"].rsplit("/", 1)[-1] for c in o["calls"] if "/" in c["path"]} | \
                  {n2["name"] for p2, n2 in IR.all_nodes(job["prog"]) if "/" in p2 and n2["kind"] != "graph"}
    an = {k: v for k, v in leaf_args(o["calls"]).items() if k in inner_names}
    af = {k: v for k, v in leaf_args(of["calls"]).items() if k in inner_names}
    if job["flat"]["selected"] != IR.UNSET:
        # under a graph-level select, nodes the selection does not need run only if their inputs happen to be
        # available (an inner binding of a wrapper outside the selection is not surfaced to outer consumers):
        # whether such a nested function runs at all is not the property's business, what it receives when it runs is
        both = set(an) & set(af)
        an, af = {k: v for k, v in an.items() if k in both}, {k: v for k, v in af.items() if k in both}
    if an != af:
        bad = sorted(n for n in set(an) | set(af) if an.get(n) != af.get(n))
        return ctx.violation("inner-arguments", wit, f"functions {bad} received different arguments in the nested graph: {[an.get(b) for b in bad]} vs {[af.get(b) for b in bad]}")
    if m["values"] != o["values"]:
        return ctx.violation("values-vs-model", wit, f"nested values differ from the specification: {o['values']} vs {m['values']}")
    return False


def variants(rng, prog, thorough):
    """Nestings of a flat DAG: every convex subset (capped), local renames, binding placement, depth, sibling nested graphs."""
    subs = list(gen.convex_subsets(prog))
    rng.shuffle(subs)
    cap = 12 if thorough else 4
    outs = {o for n in prog["nodes"] for o in n["outputs"]}
    bnd = [b for b, _ in prog["bound"]]
    for S in subs[:cap]:
        inner_nodes = [n for n in prog["nodes"] if n["name"] in S]
        ext_in = sorted({p for n in inner_nodes for p in n["inputs"]} - {o for n in inner_nodes for o in n["outputs"]})
        inner_out = [o for n in inner_nodes for o in n["outputs"]]
        for _ in range(2 if thorough else 1):
            rin, rout = {}, {}
            if ext_in and rng.random() < 0.6:
                p = rng.choice(ext_in)
                # names from the SAME small universe as the outer graph: collisions are intended
                cand = [x for x in ["x", "y", "z", "a", "b", "c", p + "_i"] if x != p and x not in ext_in and x not in inner_out]
                rin[p] = rng.choice(cand)
            if inner_out and rng.random() < 0.4:
                o = rng.choice(inner_out)
                cand = [x for x in ["x", "y", "z", "u", "v", o + "_i"] if x != o and x not in inner_out and x not in ext_in and x not in rin.values()]
                rout[o] = rng.choice(cand)
            dpar = {p for n in prog["nodes"] for p in n["defaults"]}
            # a parameter that also carries signature defaults cannot be bound inside only one scope:
            # the constructor demands consistent defaults across the nodes of one graph
            ib = [b for b in bnd if b not in dpar and rng.random() < 0.5]
            # ... or at BOTH levels with different values: the outer binding wins, as a second bind() on the flat graph does
            db = [b for b in bnd if b not in dpar and b not in ib and rng.random() < 0.5]
            used_outside = {p for n in prog["nodes"] if n["name"] not in S for p in n["inputs"]}
            sel = None
            hidden = []
            # hide only secondary outputs of multi-output inner nodes (select() narrows the INPUTS of a
            # graph to what the selection needs; hiding a whole node would change the interface)
            outer_sel = set(prog["selected"]) if prog["selected"] != IR.UNSET else set()
            hid_cand = [o for n in inner_nodes if len(n["outputs"]) >= 2 for o in n["outputs"][1:] if o not in used_outside and o not in outer_sel]
            if hid_cand and rng.random() < 0.5:
                hidden = [rng.choice(hid_cand)]
                sel = [o for o in inner_out if o not in hidden]
            pos = rng.randint(0, len(prog["nodes"]) - len(S))
            gname = "inner"
            if rout and rng.random() < 0.4:
                gname = next(iter(rout))     # the wrapper is NAMED after the output it exposes through a rename (legal)
            try:
                p2 = gen.nest(prog, S, name=gname, rename_in=rin, rename_out=rout, inner_bound=ib, pos=pos, selected=sel, double_bound=db)
            except Exception:  # noqa: BLE001
                continue
            if rng.random() < 0.5:
                [n for n in p2["nodes"] if n["kind"] == "graph"][0]["materialize"] = True   # wrapper used before it is renamed
            depth = 1
            if rng.random() < 0.35:
                inner = [n for n in p2["nodes"] if n["kind"] == "graph"][0]
                s2 = list(gen.convex_subsets(inner["sub"]))
                if s2:
                    try:
                        inner["sub"] = gen.nest(inner["sub"], rng.choice(s2), name="deep",
                                                inner_bound=[b for b, _ in inner["sub"]["bound"] if rng.random() < 0.5])
                        inner["sub"]["max_iter"] = 1000
                        depth = 2
                        if rng.random() < 0.3:
                            deep = [n for n in inner["sub"]["nodes"] if n["kind"] == "graph"][0]
                            s3 = list(gen.convex_subsets(deep["sub"]))
                            if s3:
                                deep["sub"] = gen.nest(deep["sub"], rng.choice(s3), name="deeper")
                                deep["sub"]["max_iter"] = 1000
                                depth = 3
                    except Exception:  # noqa: BLE001
                        pass
            sib = ""
            if rng.random() < 0.3:
                # a SIBLING nested graph next to the first one (it may consume a name the first one binds inside)
                s2 = [T for T in gen.convex_subsets(p2) if gname not in T]
                if s2:
                    try:
                        T = rng.choice(s2)
                        p3 = gen.nest(p2, T, name="inner2")
                        p3["max_iter"] = p2["max_iter"]
                        p2, sib = p3, "/sibling=" + "+".join(T)
                    except Exception:  # noqa: BLE001
                        pass
            yield p2, hidden, f"S={'+'.join(S)}/rin={rin}/rout={rout}/ib={ib}/db={db}/sel={sel}/depth{depth}{sib}/name={gname}"


OPTION_NAMES = ["select", "max_iterations", "entrypoint", "on_missing", "error_handling", "max_concurrency", "on_internal_override"]


def make_pairs(tier, rng):
    thorough = tier == "thorough"
    bases = []
    # small-scope enumerated DAGs (C01's family) and random larger ones
    shapes = [s for s, tag in gen.enum_dags(3) if tag in ("plain", "multi")]
    rng.shuffle(shapes)
    for shape in shapes[: (120 if thorough else 30)]:
        for prog, provided, a in gen.dag_jobs(shape):
            if "a" in a:
                continue
            if rng.random() < (0.5 if thorough else 0.15):
                bases.append((prog, provided))
    n_rand = 500 if thorough else 110
    while n_rand > 0:
        prog, _ = gen.random_flat(rng, n_nodes=(3, 6), cyclic=0.0, gate=0.0, multi_out=0.3, side_effect=0.0, defaults=0.3, bound=0.3, fn_mix=True)
        used = {p for n in prog["nodes"] for p in n["inputs"]}
        outs = {o for n in prog["nodes"] for o in n["outputs"]}
        dpar = {p for n in prog["nodes"] for p in n["defaults"]}
        bnd = {b for b, _ in prog["bound"]}
        # some provided values are None (identity nodes pass it on: a legitimately None-valued output)
        prov = [[p, "~none" if rng.random() < 0.2 else f"in.{p}"] for p in sorted(used - outs) if p not in bnd and (p not in dpar or rng.random() < 0.5)]
        ext = sorted(used - outs)
        if ext and rng.random() < 0.25:
            # an input that happens to be NAMED like an option of run() (legal: inputs travel in the values dict)
            old_name, new_name = rng.choice(ext), rng.choice(OPTION_NAMES)
            if new_name not in used and new_name not in outs:
                for n in prog["nodes"]:
                    n["inputs"] = [new_name if p == old_name else p for p in n["inputs"]]
                    n["pmap"] = [[new_name if c == old_name else c, o] for c, o in n["pmap"]]
                    n["defaults"] = [new_name if p == old_name else p for p in n["defaults"]]
                prog["bound"] = [[new_name if b == old_name else b, v] for b, v in prog["bound"]]
                prov = [[new_name if p == old_name else p, v] for p, v in prov]
                dpar = {new_name if p == old_name else p for p in dpar}
        for dp in sorted(dpar):
            if rng.random() < 0.3:
                # the shared default is ONE object that compares by identity only (def f(p=OBJ), def g(p=OBJ))
                for n in prog["nodes"]:
                    if dp in n["defaults"]:
                        n["dvals"] = n["dvals"] + [[dict(map(tuple, n["pmap"]))[dp], "~obj"]]
        bases.append((prog, prov))
        n_rand -= 1
    pairs = []
    for prog, prov in bases:
        if rng.random() < 0.3:
            outs_all = [o for n in prog["nodes"] for o in n["outputs"]]
            if len(outs_all) >= 2:
                prog = dict(prog, selected=rng.sample(outs_all, rng.randint(1, len(outs_all) - 1)))   # same graph-level select on the flat and the nested graph
                used = {p for n in prog["nodes"] for p in n["inputs"]}
        mode = rng.choice(["sync", "async"])
        jf = gen.job(0, prog, prov, mode=mode)
        of, _, _ = predict.try_real(jf)
        for p2, hidden, tag in variants(rng, prog, thorough):
            j = gen.job(0, p2, prov, mode=mode)
            j["flat"] = prog
            j["hidden"] = hidden
            j["_flat_obs"] = of
            pairs.append((j, tag))
    for i, (j, _) in enumerate(pairs):
        j["id"] = i + 1
    return pairs


def check_specs(ctx, pairs):
    """graph.inputs of the nested graph == of the flat graph == InputSpec.tla of either."""
    sjobs = []
    for j, tag in pairs:
        sjobs.append({"id": 2 * j["id"], "prog": j["prog"], "select": IR.UNSET, "given": [], "entrypoint": IR.NONE})
        sjobs.append({"id": 2 * j["id"] + 1, "prog": j["flat"], "select": IR.UNSET, "given": [], "entrypoint": IR.NONE})
    res, stats = specs.spec_eval(sjobs)
    ctx.add_tlc(stats)
    for j, tag in pairs:
        if j["flat"]["selected"] != IR.UNSET:
            continue     # a graph-level select narrows a flat graph node by node but a nested graph as a unit: inputs are not compared
        sn, sf = res[2 * j["id"]], res[2 * j["id"] + 1]
        pub = {k: v for k, v in j.items() if not k.startswith("_")}
        if (sn["required"], sn["optional"]) != (sf["required"], sf["optional"]):
            raise RuntimeError(f"InputSpec.tla: nesting changes the specified inputs (spec defect): {tag} {sn} vs {sf}")
        try:
            rn, _ = specs.real_spec(j["prog"])
            rf, _ = specs.real_spec(j["flat"])
        except Exception as e:  # noqa: BLE001
            ctx.violation("nested-construction-rejected", {"job": pub, "tag": tag}, f"{type(e).__name__}: {str(e)[:200]}")
            continue
        if (rn["required"], rn["optional"]) != (rf["required"], rf["optional"]):
            ctx.violation("input-spec-changed-by-nesting", {"job": pub, "tag": tag, "nested": rn, "flat": rf, "specified": sf},
                          f"graph.inputs nested {rn['required']}/{rn['optional']} flat {rf['required']}/{rf['optional']}")
        elif (rf["required"], rf["optional"]) != (sf["required"], sf["optional"]):
            ctx.violation("input-spec-vs-specification", {"job": pub, "tag": tag, "flat": rf, "specified": sf},
                          f"graph.inputs {rf['required']}/{rf['optional']} specified {sf['required']}/{sf['optional']}")


def strip(pairs):
    return [({k: v for k, v in j.items() if not k.startswith("_")}, t) for j, t in pairs]


def run(tier, seed):
    ctx = Ctx(PID, tier, seed, "model_checking")
    rng = random.Random(seed)
    pairs = make_pairs(tier, rng)
    for j, _ in pairs:
        ctx.distinct(IR.struct_hash([j["prog"], j["provided"], j["mode"]]))
    check_specs(ctx, pairs)
    # the jobs sent to TLC must not carry the python-side observation
    obs = {j["id"]: j["_flat_obs"] for j, _ in pairs}
    clean = strip(pairs)

    def cmp(ctx_, job, m, o, tag, failed):
        job = dict(job, _flat_obs=obs[job["id"]])
        return compare(ctx_, job, m, o, tag, failed)
    res, reals = enginecheck.evaluate(ctx, clean, PID, cmp)
    mid = clean[len(clean) // 2]
    ctx.sample({"nesting": mid[1], "flat_nodes": [(n["name"], n["inputs"], n["outputs"]) for n in mid[0]["flat"]["nodes"]],
                "nested_values": reals[mid[0]["id"]].get("values")})
    ctx.assumptions += ["flat equivalent of an inner binding = the same binding on the flat graph under the exposed (outer) name",
                        "TLC checks the nested model run against the flat model run (HGProps!C05) and that InputSpec.tla is invariant under nesting; the real nested and flat graphs are compared with each other and with the specification"]
    return ctx.finish(rule="DAGs (enumerated 3-node family, random 3-6 nodes) x convex node subsets (capped per DAG) x local renames of inner inputs/outputs undone by the wrapper (names from the outer universe) x binding placement inner/outer x inner select x nesting depth 1..3 x position x runner; distinct = structural hash of the nested program")


def replay(path):
    w = json.load(open(path))["witness"]
    ctx = Ctx(PID, "quick", 0, "model_checking")
    j = w["job"]
    if "flat" not in j:
        return 0
    of, _, _ = predict.try_real(gen.job(0, j["flat"], j["provided"], mode=j["mode"]))
    check_specs(ctx, [(dict(j, _flat_obs=of), w.get("tag", "replay"))])

    def cmp(ctx_, job, m, o, tag, failed):
        return compare(ctx_, dict(job, _flat_obs=of), m, o, tag, failed)
    enginecheck.evaluate(ctx, [(j, w.get("tag", "replay"))], PID, cmp)
    return 1 if ctx.violations else 0
