"""C06 Renames change only the names by which values are wired (DESIGN.md 5/C06).

spec/Rename.tla is model-checked by TLC: every rename history within the bounds is a reachable
state; the batch-aware maps of the code are invariants (Rename_ok.cfg), the two GraphNode
algorithms that ignore batches / invert stale entries are refuted (Rename_gn.cfg, C06_gn_*.cfg;
model-level evidence only).  Every history TLC explored is printed by the invariant Emit and
replayed into the real package (harness/c06_replay.py) on FunctionNode, RouteNode, IfElseNode,
InterruptNode and GraphNode (plain, mapped with clone lists, map_over applied before / in the
middle of / after the renames); the expectation is the position-based state `cur` of the model.
"""
from __future__ import annotations

import concurrent.futures as cf
import itertools
import json
import multiprocessing as mp
import random

from .. import c06_replay as R
from .. import gen, tlc
from ..core import Ctx

PID = "C06"
KNOWN_CLASSES = (R.K_RESOLVE, R.K_OUTMAP)

# (label, P, U, D, identity pairs, all within-batch orders, TLC workers)
BOUNDS = {
    "quick": [("p2u4d4", 2, 4, 4, 0, 1, 4), ("p3u4d3", 3, 4, 3, 0, 0, 4), ("p3u4d2-allord", 3, 4, 2, 0, 1, 2),
              ("p2u3d3-id", 2, 3, 3, 1, 1, 2), ("p1u4d4", 1, 4, 4, 0, 1, 1)],
    "thorough": [("p2u4d4", 2, 4, 4, 0, 1, 2), ("p3u4d3-allord", 3, 4, 3, 0, 1, 5), ("p3u5d3", 3, 5, 3, 0, 0, 8),
                 ("p2u4d3-id", 2, 4, 3, 1, 1, 1), ("p1u5d4-id", 1, 5, 4, 1, 1, 1)],
}
# simulation: TLC checks (and Emit prints) EVERY successor of every state of each random trace, so a
# handful of traces yields thousands of deep histories (num is per worker)
SIMS = {"quick": [], "thorough": [("sim-p3u5d8", 3, 5, 8, 0, 0, 2, 10), ("sim-p2u4d8-id", 2, 4, 8, 1, 0, 1, 40)]}
GN_RUNS = [("Rename_gn.cfg", 2, 4, 3), ("C06_gn_resolve.cfg", 2, 4, 2), ("C06_gn_outputs.cfg", 2, 4, 3)]


def _env(P, U, D, ident, allord):
    return {"C06_P": P, "C06_U": U, "C06_D": D, "C06_ID": ident, "C06_ALLORD": allord}


def _key(ops):
    return json.dumps(ops, separators=(",", ":"))


def run_models(tier, seed):
    """All TLC runs of the tier (concurrently).  Returns (histories per P, per-run stats, gn evidence)."""
    jobs = []
    for label, P, U, D, ident, allord, w in BOUNDS[tier]:
        jobs.append((label, "Rename_ok.cfg", _env(P, U, D, ident, allord), w, None, P))
    for label, P, U, D, ident, allord, w, num in SIMS[tier]:
        jobs.append((label, "Rename_ok.cfg", _env(P, U, D, ident, allord), w, num, P))
    for cfg, P, U, D in GN_RUNS:
        jobs.append(("gn:" + cfg, cfg, _env(P, U, D, 0, 1), 1, None, P))

    def one(j):
        label, cfg, env, w, num, P = j
        if num:
            return tlc.run_tlc("Rename", cfg=cfg, env=env, workers=w, simulate=f"num={num}",
                               extra=["-depth", str(env["C06_D"] + 1), "-seed", str(seed + 1)], check=False, timeout=1500)
        return tlc.run_tlc("Rename", cfg=cfg, env=env, workers=w, check=False, timeout=1500)

    with cf.ThreadPoolExecutor(len(jobs)) as ex:
        results = list(ex.map(one, jobs))
    hists, stats, gn = {}, [], []
    for (label, cfg, env, w, num, P), res in zip(jobs, results):
        if label.startswith("gn:"):
            if res.violation is None or res.violation[0] != "invariant":
                raise tlc.TLCError(f"{cfg}: expected an invariant counterexample on the code-shaped GraphNode algorithms\n" + res.out[-2000:])
            gn.append({"cfg": cfg, "bounds": [env["C06_P"], env["C06_U"], env["C06_D"]], "violated": res.violation[1],
                       "counterexample": _trace_ops(res.out), "states": res.distinct})
            continue
        if res.violation is not None or "Error:" in res.out:
            raise tlc.TLCError(f"{label}: Rename_ok.cfg must hold (AbsOK, RevOK, FwdOK)\n" + res.counterexample()[:3000] + res.out[-1500:])
        recs = res.results("HIST")
        uniq = {}
        for r in recs:
            uniq.setdefault(_key(r["ops"]), r)
        if not num:
            # every reachable state is one history and was printed exactly once
            if not res.ok or len(recs) != res.distinct or len(uniq) != res.distinct:
                raise tlc.TLCError(f"{label}: TLC found {res.distinct} states but printed {len(recs)} histories ({len(uniq)} distinct)")
        elif not uniq:
            raise tlc.TLCError(f"{label}: simulation printed no history\n" + res.out[-1500:])
        tgt = hists.setdefault(P, {})
        new = 0
        for k, r in uniq.items():
            if k not in tgt:
                tgt[k] = r
                new += 1
        stats.append({"run": label, "bounds": [env["C06_P"], env["C06_U"], env["C06_D"]], "identity_pairs": bool(env["C06_ID"]),
                      "all_orders": bool(env["C06_ALLORD"]), "simulate": num or 0, "tlc_distinct_states": res.distinct,
                      "tlc_generated": res.generated, "histories_printed": len(recs), "histories_distinct": len(uniq),
                      "histories_new": new, "wall_s": round(res.wall, 1)})
    return hists, stats, gn, results


def _trace_ops(out):
    """The `ops` value of the last state of TLC's error trace (text)."""
    last = None
    for line in out.splitlines():
        if line.startswith("/\\ ops = "):
            last = line[len("/\\ ops = "):].strip()
    return last


# ---------------------------------------------------------------------------
# case generation (which nodes a history is replayed on)
# ---------------------------------------------------------------------------
HISTS = {}    # P -> list of records (set before the pool forks)
INDEX = {}    # P -> {key(ops): index}


def _partner(P, k):
    n = len(HISTS[P])
    a = next(p for p in (7919, 7907, 7901, 7883) if n % p)
    return (k * a + 17) % n


def _interleave(k, queues):
    qs = [list(q) for q in queues]
    out, i = [], k % len(qs)
    while any(qs):
        if qs[i]:
            out.append(qs[i].pop(0))
        i = (i + 1) % len(qs)
    return out


def _profiles(P, alphabet):
    return ["".join(t) for t in itertools.product(alphabet, repeat=P)]


def _omits(prof, cap=3):
    d = [i for i, c in enumerate(prof) if c != "r"]
    sets = [[]]
    if d:
        sets.append(d)
    if len(d) > 1:
        sets += [[i] for i in d]
    return sets[:cap]


def cases_for(P, k, thorough):
    """The cases one history (as INPUT history) is replayed on; its partner history is applied to the
    outputs of the same nodes, a P=1 history to the node name."""
    rec = HISTS[P][k]
    orec = HISTS[P][_partner(P, k)]
    L1 = HISTS[1]
    nrec = L1[k % len(L1)]
    irec = L1[(7 * k + 3) % len(L1)]
    for order in ("asc", "desc"):
        if order == "desc" and not any(len(b) > 1 for b in rec["ops"] + orec["ops"]):
            continue
        light = not thorough and len(rec["ops"]) >= 3      # quick: lighter set on the (many) deepest histories
        if order == "desc" and not thorough and k % (4 if light else 2):
            continue                 # quick: the second dict order on every 2nd / 4th history
        rev = (lambda b: b[::-1]) if order == "desc" else (lambda b: b)
        ins = [["inputs", rev(b)] for b in rec["ops"]]
        outs = [["outputs", rev(b)] for b in orec["ops"]]
        iouts = [["outputs", b] for b in irec["ops"]]
        names = [["name", b[0][1]] for b in nrec["ops"]]
        res = rec["resD" if order == "desc" else "res"]
        out = orec["outD" if order == "desc" else "out"]
        common = {"P": P, "cur": rec["cur"], "ncur": nrec["cur"][0], "order": order, "hist": k}
        full = order == "asc"

        def case(kind, prof, Q, steps, runs, **kw):
            c = dict(common, kind=kind, prof=prof, Q=Q, steps=steps, runs=runs)
            c["ocur"] = [] if Q == 0 else (irec["cur"] if kind == "interrupt" else orec["cur"])
            if kind == "graph":
                c["res"], c["out"] = res, out
            c.update(kw)
            return c

        def sync_runs(prof, extra=True):
            rs = [{"omit": o, "mode": "sync"} for o in _omits(prof, cap=2 if light else 3)]
            if extra and not (light and k % 2):
                rs.append({"omit": [], "mode": "sync", "bind": k % P})
            return rs

        rich = thorough and (P <= 2 or len(rec["ops"]) <= 2)
        # FunctionNode: P inputs, P outputs
        pl = _profiles(P, "rd")
        chosen = [pl[(k + j * 3) % len(pl)] for j in range(2 if (rich and full) else 1)]
        for prof in chosen:
            yield case("func", prof, P, _interleave(k, [ins, outs, names]), sync_runs(prof) if full else sync_runs(prof, extra=False)[:2])
        if full:
            # other placements of the defaults: attributes only
            for prof in (pl if rich else [pl[(k * 3 + j) % len(pl)] for j in range(1, 2 if light else 3)]):
                if prof not in chosen:
                    yield case("func", prof, P, _interleave(k, [ins, outs, names]), [])
        # gates: inputs only
        if full:
            prof = pl[(k + 1) % len(pl)]
            if k % 2 == 0 or rich:
                yield case("route", prof, 0, _interleave(k, [ins, names]), sync_runs(prof, extra=False))
            if k % 2 == 1 or rich:
                prof2 = pl[(k + 2) % len(pl)]
                yield case("ifelse", prof2, 0, _interleave(k + 1, [ins, names]), sync_runs(prof2, extra=False))
        # interrupt: one output, AsyncRunner, auto-resolve and pause/resume
        if full:
            prof = pl[(k + 3) % len(pl)]
            runs = [{"omit": o, "mode": "async"} for o in _omits(prof, cap=2)[-1:]] + [{"omit": [], "mode": "pause"}]
            if not rich:
                runs = runs[k % 2: k % 2 + 1]        # auto-resolve and pause/resume alternate
            yield case("interrupt", prof, 1, _interleave(k, [ins, iouts, names]), runs)
        # constructor rename_inputs= carries the first batch
        if full and rec["ops"] and (k % (4 if light else 2) == 0 or rich):
            prof = pl[(k + 5) % len(pl)]
            kind = ("func", "route", "ifelse", "interrupt")[(k // 4) % 4]
            Q = {"func": P, "interrupt": 1}.get(kind, 0)
            osteps = {"func": outs, "interrupt": iouts}.get(kind, [])
            mode = "async" if kind == "interrupt" else "sync"
            yield case(kind, prof, Q, _interleave(k, [ins[1:], osteps]), [{"omit": o, "mode": mode} for o in _omits(prof, cap=2)[-1:]],
                       ctor=ins[0][1], ncur="a")
        # GraphNode: inner graph with the P parameters (signature defaults / inner binds), P outputs
        gl = _profiles(P, "rdbx")
        chosen = [gl[(k * 5 + j * 7 + 1) % len(gl)] for j in range(2 if (rich and full) else 1)]
        for j, prof in enumerate(chosen):
            runs = sync_runs(prof) if full else sync_runs(prof, extra=False)[:3]
            if not rich and full:
                runs = [r for r in runs if len(r["omit"]) != 1 or len(_omits(prof)) <= 2 or "bind" in r]
            if j == 0 and full and not (light and k % 2 == 0):
                runs.append({"omit": _omits(prof)[-1] if len(_omits(prof)) > 1 else [], "mode": "async"})
            yield case("graph", prof, P, _interleave(k + j, [ins, outs, names]), runs)
        if full:
            others = gl if (rich and len(gl) <= 16) else [gl[(k * 7 + j * 5) % len(gl)] for j in range(1 if light else 2)]
            for prof in others:
                if prof not in chosen:
                    yield case("graph", prof, P, _interleave(k, [ins, outs, names]), [])
        # mapped GraphNode: map_over / clone given before, in the middle of, after the renames
        if full:
            n = len(ins)
            splits = sorted({0, n // 2, n})
            if not rich:
                splits = [splits[k % len(splits)]]
            for split in splits:
                prof = gl[(k * 3 + split * 11 + 2) % len(gl)]
                pos = (k + split) % P
                clone = (pos + 1 + (k // 3) % (P - 1)) % P if P > 1 else None
                at = HISTS[P][INDEX[P][_key(rec["ops"][:split])]]["cur"]     # names when map_over is called
                mstep = ["map", {"over": at[pos], "clone": [at[clone]] if clone is not None else []}]
                steps = _interleave(k, [ins[:split], outs[: len(outs) // 2]]) + [mstep] + _interleave(k, [ins[split:], outs[len(outs) // 2:], names])
                omit = [i for i, c in enumerate(prof) if c != "r" and i != pos]
                runs = [{"omit": [], "mode": "sync"}]
                if omit and (rich or k % 2):
                    runs.append({"omit": omit, "mode": "sync" if k % 4 == 1 else "async"})
                yield case("graph", prof, P, steps, runs, map={"pos": pos, "clone": clone})


def _size(case, kinds=("inputs", "outputs", "name", "map")):
    return sum(len(s[1]) if s[0] in ("inputs", "outputs") else 1 for s in case["steps"] if s[0] in kinds) \
        + (len(case.get("ctor") or []) if "inputs" in kinds else 0)


def _keep(lst, item, n=2):
    """Keep the n smallest witnesses by input-side size and the n smallest by output-side size."""
    lst.append(item)
    a = sorted(lst, key=lambda t: (t[0], t[1], t[2]))[:n]
    b = sorted(lst, key=lambda t: (t[1], t[0], t[2]))[:n]
    lst[:] = a + [x for x in b if not any(x is y for y in a)]


def work(task):
    P, lo, hi, thorough = task
    counts, mcount, keep, hist_hit = {}, {}, {}, {}
    for k in range(lo, hi):
        seen = set()
        for c in cases_for(P, k, thorough):
            try:
                mism, nexec = R.run_case(c)
            except Exception as e:  # noqa: BLE001 - the replay itself must never die on a misbehaving library
                import traceback
                where = traceback.extract_tb(e.__traceback__)[-1]
                mism, nexec = [("replay-crashed:" + type(e).__name__, f"{type(e).__name__}: {e} at {where.filename.rsplit('/', 1)[-1]}:{where.lineno}")], 0
            tag = c["kind"] + ("-mapped" if c.get("map") else "") + ("" if c["runs"] else "-attributes-only")
            counts[tag] = counts.get(tag, 0) + 1
            counts["executions"] = counts.get("executions", 0) + nexec
            for klass, summary in mism:
                mcount[klass] = mcount.get(klass, 0) + 1
                seen.add(klass)
                _keep(keep.setdefault(klass, []), (_size(c, ("inputs",)), _size(c, ("outputs",)), summary, c))
        for klass in seen:
            hist_hit[klass] = hist_hit.get(klass, 0) + 1
    return counts, mcount, keep, hist_hit


def shrink(case, klass):
    """Greedy witness minimisation: drop what is irrelevant for `klass` (name steps, the other side's
    renames, the map step, all runs but one) as long as the same class still fires."""
    import copy

    def fires(c):
        try:
            return [s for k, s in R.run_case(c)[0] if k == klass]
        except Exception as e:  # noqa: BLE001
            return [f"{type(e).__name__}: {e}"] if klass.startswith("replay-crashed:") else []

    best = copy.deepcopy(case)
    P, Q = best["P"], best["Q"]

    def attempt(mut):
        nonlocal best
        c = copy.deepcopy(best)
        if mut(c) is False:
            return
        if fires(c):
            best = c

    def no_names(c):
        c["steps"] = [s for s in c["steps"] if s[0] != "name"]
        c["ncur"] = "a"

    def no_outputs(c):
        if not Q:
            return False
        c["steps"] = [s for s in c["steps"] if s[0] != "outputs"]
        c["ocur"] = R.ORIG[:Q]
        if "out" in c:
            c["out"] = R.ORIG[:Q]

    def no_inputs(c):
        if c.get("map") or c.get("ctor"):
            return False
        c["steps"] = [s for s in c["steps"] if s[0] != "inputs"]
        c["cur"] = R.ORIG[:P]
        if "res" in c:
            c["res"] = R.ORIG[:P]

    def no_map(c):
        if not c.get("map"):
            return False
        c["steps"] = [s for s in c["steps"] if s[0] != "map"]
        del c["map"]

    for mut in (no_names, no_outputs, no_inputs, no_map):
        attempt(mut)
    attempt(lambda c: c.__setitem__("runs", []))
    if best["runs"]:
        for r in list(best["runs"]):
            c = copy.deepcopy(best)
            c["runs"] = [r]
            if fires(c):
                best = c
                break
    f = fires(best)
    return best, (f[0] if f else "(the shrunk case does not fire again: the witness depends on what ran before it)")


def replay_all(ctx, hists, thorough, procs):
    global HISTS, INDEX
    # canonical order (TLC's print order depends on worker scheduling): the rotation of profiles and
    # partners by history index is then reproducible
    HISTS = {P: [d[k] for k in sorted(d, key=lambda x: (len(d[x]["ops"]), x))] for P, d in hists.items()}
    INDEX = {P: {_key(r["ops"]): i for i, r in enumerate(lst)} for P, lst in HISTS.items()}
    tasks = []
    for P, lst in HISTS.items():
        step = 150
        tasks += [(P, lo, min(lo + step, len(lst)), thorough) for lo in range(0, len(lst), step)]
    tasks.sort(key=lambda t: -t[0])
    counts, mcount, keep, hist_hit = {}, {}, {}, {}
    with mp.get_context("fork").Pool(procs) as pool:
        for c, m, kp, hh in pool.imap_unordered(work, tasks):
            for k, v in c.items():
                counts[k] = counts.get(k, 0) + v
            for k, v in m.items():
                mcount[k] = mcount.get(k, 0) + v
            for k, v in hh.items():
                hist_hit[k] = hist_hit.get(k, 0) + v
            for k, v in kp.items():
                lst = keep.setdefault(k, [])
                for item in v:
                    _keep(lst, item)
    for P, lst in HISTS.items():
        ctx.traces(len(lst))
        for r in lst:
            if sum(len(b) for b in r["ops"]) >= 2:
                ctx.distinct(f"{P}:" + _key(r["ops"]))
    ctx.count(sum(v for k, v in counts.items() if k != "executions"))
    return counts, mcount, keep, hist_hit


def report(ctx, mcount, keep, hist_hit):
    for klass in sorted(mcount):
        ctx.bump("mismatches:" + klass, mcount[klass])
        ctx.bump("histories_with:" + klass, hist_hit.get(klass, 0))
        # every witness is re-executed (shrink re-runs it) before it is reported
        shrunk = []
        for _, _, summary, case in keep[klass]:
            again, _ = R.run_case(case)
            if not any(k == klass for k, _ in again):
                # observed on the real objects during the sweep but dependent on object history (e.g. a
                # cache that an earlier case filled): reported as observed, without shrinking
                ctx.violation(klass + ":history-dependent", {"case": case, "mismatch": summary},
                              f"{case['kind']} steps={json.dumps(case['steps'])}: {summary} (did not reproduce on fresh objects)")
                continue
            shrunk.append(shrink(case, klass))
        shrunk.sort(key=lambda t: (_size(t[0]), len(t[0]["runs"])))
        done = set()
        for case, summary in shrunk:
            key = json.dumps([case["kind"], case["steps"], case["prof"], case["runs"]])
            if key in done or len(done) >= 2:
                continue
            done.add(key)
            ctx.violation(klass, {"case": case, "mismatch": summary},
                          f"{case['kind']}{' mapped' if case.get('map') else ''} P={case['P']} profile={case['prof']} steps={json.dumps(case['steps'])}"
                          f"{' ctor=' + json.dumps(case['ctor']) if case.get('ctor') else ''}: {summary}")


# ---------------------------------------------------------------------------
# alpha-renamed whole graphs (C01's family)
# ---------------------------------------------------------------------------

def alpha_cases(rng, thorough):
    shapes = [s for k in (2, 3) for s, tag in gen.enum_dags(k) if tag in ("plain", "multi")]
    if not thorough:
        shapes = shapes[::3]
    for si, shape in enumerate(shapes):
        names = sorted({p for _, ins, outs in shape for p in list(ins) + list(outs)})
        ext = [p for p in names if not any(p in outs for _, _, outs in shape)]
        extra = ["u", "v"]
        for rep in range(2 if thorough else 1):
            pool = names + extra
            if rep % 2 == 0 and si % 2 == 0:
                tgt = names[:]                 # a pure permutation of the existing names (swaps / rotations)
                while tgt == names:
                    rng.shuffle(tgt)
            else:
                tgt = rng.sample(pool, len(names))
            sigma = dict(zip(names, tgt))
            dparams = [p for p in ext if rng.random() < 0.4]
            provided = [p for p in ext if p not in dparams or rng.random() < 0.5]
            for how in ("batch", "temps", "single"):
                for wrap in (False, True):
                    yield {"shape": [[n[0], list(n[1]), list(n[2])] for n in shape],
                           "dparams": dparams, "provided": provided, "sigma": sigma, "how": how, "wrap": wrap}


def check_alpha(ctx, rng, thorough):
    n = 0
    counts = {}
    for c in alpha_cases(rng, thorough):
        mism = R.run_alpha(c)
        n += 1
        for klass, summary in mism:
            counts[klass] = counts.get(klass, 0) + 1
            if counts[klass] <= 2:
                ctx.violation(klass, {"alpha": c, "mismatch": summary}, f"alpha-renaming {c['sigma']} ({c['how']}, wrap={c['wrap']}) of {c['shape']}: {summary}")
    ctx.count(n)
    ctx.bump("alpha_renamed_graphs", n)
    for k, v in counts.items():
        ctx.bump("mismatches:" + k, v)
    return n


# ---------------------------------------------------------------------------
# binding self-test
# ---------------------------------------------------------------------------

def selftest(ctx):
    """Perturb the expectation (a name, a default owner, an output name, the model's view of who is
    mapped) of cases the real code satisfies and require the comparator to flag each."""
    import copy
    base = {"P": 2, "cur": ["b", "c"], "ncur": "d", "order": "asc", "hist": -1, "kind": "func", "prof": "rd", "Q": 2,
            "ocur": ["b", "a"], "steps": [["inputs", [["a", "b"], ["b", "a"]]], ["outputs", [["a", "b"], ["b", "a"]]],
                                          ["name", "d"], ["inputs", [["a", "c"]]]],
            "runs": [{"omit": [], "mode": "sync"}, {"omit": [1], "mode": "sync"}]}
    gbase = dict(copy.deepcopy(base), kind="graph", prof="rb", res=["a", "b"], out=["b", "a"],
                 steps=[["inputs", [["a", "c"]]], ["outputs", [["a", "c"]]], ["outputs", [["c", "b"], ["b", "a"]]],
                        ["map", {"over": "c", "clone": ["b"]}], ["inputs", [["b", "a"]]], ["inputs", [["c", "b"], ["a", "c"]]], ["name", "d"]],
                 map={"pos": 0, "clone": 1}, runs=[{"omit": [], "mode": "sync"}, {"omit": [1], "mode": "sync"}])
    n = 0
    for good in (base, gbase):
        m, _ = R.run_case(good)
        if m:
            raise RuntimeError(f"binding self-test: reference case rejected: {m}")
        perturbed = []
        p = copy.deepcopy(good); p["cur"] = p["cur"][::-1]; perturbed.append(("input names swapped", p))
        p = copy.deepcopy(good); p["ocur"] = p["ocur"][::-1]; perturbed.append(("output names swapped", p))
        p = copy.deepcopy(good); p["prof"] = p["prof"][::-1]; perturbed.append(("default/bound owner moved", p))
        p = copy.deepcopy(good); p["ncur"] = "a"; perturbed.append(("node name", p))
        if good.get("map"):
            p = copy.deepcopy(good); p["map"]["clone"] = None; perturbed.append(("clone position", p))
        for what, p in perturbed:
            m, _ = R.run_case(p)
            if not m:
                raise RuntimeError(f"binding self-test failed: perturbed expectation ({what}) was accepted")
            n += 1
    # value-level perturbation: a wrong value in the observation must be flagged
    case = copy.deepcopy(base)
    node = R.apply_steps(R.base_node("func", 2, "rd", 2), case["steps"])
    obs = R.execute(node, case, case["runs"][0])
    k0 = sorted(obs["values"])[0]
    obs["values"][k0] += "'"
    mm = []
    R.check_run(case, case["runs"][0], obs, mm)
    if not mm:
        raise RuntimeError("binding self-test failed: perturbed value accepted")
    n += 1
    a = {"shape": [["N0", ["x", "y"], ["a"]], ["N1", ["a", "x"], ["b"]]], "dparams": [], "provided": ["x", "y"],
         "sigma": {"x": "y", "y": "x", "a": "b", "b": "a"}, "how": "batch", "wrap": False}
    if R.run_alpha(a):
        raise RuntimeError("binding self-test: alpha reference rejected")
    ctx.bump("binding_selftests", n)



# ---------------------------------------------------------------------------
# rename preconditions (RenameRules.tla): legal and ILLEGAL calls after real histories
# ---------------------------------------------------------------------------

def _attempt(node, attr, batch):
    from hypergraph.nodes._rename import RenameError
    before = (tuple(node.inputs), tuple(node.outputs), node.name, node.definition_hash)
    mp = {o: n for o, n in batch} if attr == "inputs" else {R.oname(o): R.oname(n) for o, n in batch}
    try:
        new = node.with_inputs(mp) if attr == "inputs" else node.with_outputs(mp)
        out = {"ok": True, "names": list(new.inputs if attr == "inputs" else new.outputs), "same_object": new is node}
    except RenameError as e:
        out = {"ok": False, "how": "RenameError", "msg": str(e)[:160]}
    except Exception as e:  # noqa: BLE001
        out = {"ok": False, "how": type(e).__name__, "msg": str(e)[:160]}
    after = (tuple(node.inputs), tuple(node.outputs), node.name, node.definition_hash)
    out["receiver_changed"] = before != after
    return out


def check_rejections(ctx, rng, thorough):
    """After a sample of TLC's histories, attempt single- and two-pair batches over the universe plus a foreign name
    (unknown names, names renamed away earlier, collisions with an untouched name, legal ones) on real nodes of
    every kind; RenameRules!Verdict (TLC) says whether the call is legal and what the names become."""
    import warnings
    jobs, plan = [], []
    per_P = 60 if thorough else 12
    for P, lst in sorted(HISTS.items()):
        sample = lst if len(lst) <= per_P else rng.sample(lst, per_P)
        for rec in sample:
            cur = list(rec["cur"])
            names = sorted(set(R.ORIG[: max(P + 1, 3)]) | set(cur) | {"zz"})
            singles = [[[o, n]] for o in names for n in names if o != n]
            doubles = [[[o1, n1], [o2, n2]] for o1 in names for o2 in names if o1 < o2 for n1 in names for n2 in names
                       if n1 != o1 and n2 != o2]
            rng.shuffle(singles)
            rng.shuffle(doubles)
            for batch in singles[: (40 if thorough else 14)] + doubles[: (40 if thorough else 10)]:
                jid = len(jobs) + 1
                jobs.append({"id": jid, "cur": cur, "batch": batch})
                plan.append((jid, P, rec, batch))
    res, stats = tlc.run_batch("C06_Reject", jobs, "C06_REJ_JOBS", cfg="C06_Reject.cfg")
    ctx.add_tlc(stats)
    kinds = [("func", "inputs"), ("graph", "inputs"), ("route", "inputs"), ("ifelse", "inputs"), ("interrupt", "inputs"),
             ("func", "outputs"), ("graph", "outputs")]
    n_ok = n_bad = 0
    with warnings.catch_warnings():
        warnings.simplefilter("ignore")
        for jid, P, rec, batch in plan:
            m = res[jid]
            kind, attr = kinds[jid % len(kinds)]
            Q = P if attr == "outputs" else (0 if kind in ("route", "ifelse") else 1)
            steps = [[attr, b] for b in rec["ops"]]
            try:
                node = R.apply_steps(R.base_node(kind, P, "r" * P, Q), steps)
            except Exception as e:  # noqa: BLE001 - a legal history rejected: the main replay reports it
                ctx.divergence("history rejected before the rename-precondition attempt", {"error": type(e).__name__})
                continue
            o = _attempt(node, attr, batch)
            ctx.count()
            n_ok += m["ok"]
            n_bad += not m["ok"]
            wit = {"kind": kind, "attr": attr, "P": P, "history": rec["ops"], "current_names": rec["cur"], "batch": batch, "model": m, "observed": o}
            exp_names = [R.oname(x) for x in m["names"]] if attr == "outputs" else list(m["names"])
            what = f"{kind}.with_{attr}({dict(map(tuple, batch))}) after {json.dumps(rec['ops'])} (names {rec['cur']})"
            if o["receiver_changed"]:
                ctx.violation("rename-call-changed-its-receiver", wit, f"{what}: the receiver's names/hash changed")
            elif m["ok"] and not o["ok"]:
                ctx.violation("legal-rename-rejected", wit, f"{what}: legal for RenameRules.tla, the code raised {o['how']}: {o['msg']}")
            elif not m["ok"] and o["ok"]:
                ctx.violation("illegal-rename-accepted", wit, f"{what}: {m['why']} for RenameRules.tla, the code returned a node with names {o['names']}")
            elif not m["ok"] and o["how"] != "RenameError":
                ctx.violation("illegal-rename-raw-error", wit, f"{what}: {m['why']}; the code raised {o['how']} instead of RenameError: {o['msg']}")
            elif m["ok"] and o["names"] != exp_names:
                ctx.violation("rename-result-names", wit, f"{what}: names {o['names']}, RenameRules.tla says {exp_names}")
    ctx.bump("rename_precondition_attempts_legal", n_ok)
    ctx.bump("rename_precondition_attempts_illegal", n_bad)

# ---------------------------------------------------------------------------

def run(tier, seed):
    ctx = Ctx(PID, tier, seed, "model_checking")
    thorough = tier == "thorough"
    rng = random.Random(seed)
    import time
    t0 = time.time()
    hists, stats, gn, results = run_models(tier, seed)
    t1 = time.time()
    for res in results:
        ctx.add_tlc(result=res)
    counts, mcount, keep, hist_hit = replay_all(ctx, hists, thorough, procs=min(16, tlc.NCPU))
    t2 = time.time()
    report(ctx, mcount, keep, hist_hit)
    check_alpha(ctx, rng, thorough)
    check_rejections(ctx, rng, thorough)
    if not ctx.violations and not ctx.known_hits:
        selftest(ctx)      # the self-test uses the real code as its reference: meaningful only when the code conforms
    some = HISTS[max(HISTS)][len(HISTS[max(HISTS)]) // 2]
    ctx.sample({"history": some["ops"], "cur": some["cur"]})
    ctx.sample({"tlc_counterexamples_on_code_shaped_graphnode_algorithms": gn})
    ctx.assumptions += [
        "Rename.tla: a batch is a partial map without identity pairs unless the run says identity_pairs; entries of a batch are appended in dict order, invariants quantify over every within-batch order (all_orders) or over ascending+descending",
        "the histories replayed are exactly the states TLC explored: Emit prints each reachable state once and the harness requires printed == distinct == TLC's distinct-state count (simulation runs: the printed set)",
        "each history is replayed once as input history (all node kinds) and once as output history (FunctionNode, GraphNode) of a partner node; P=1 histories also drive with_name and interrupt outputs; profiles (which positions carry defaults / inner binds) rotate with the history index" + ("" if thorough else "; thorough uses every FunctionNode profile"),
        "RenameRules.tla (guard of Rename.tla's transition) also decides ILLEGAL calls: single- and two-pair batches over the universe plus a foreign name are attempted after sampled histories on every node kind; illegal = RenameError and nothing changes, legal = the position-wise parallel substitution",
        "Rename_gn.cfg / C06_gn_*.cfg counterexamples are model-level evidence about the code-shaped GraphNode algorithms; violations are decided only by the replay",
    ]
    return ctx.finish(
        rule="every rename history (sequence of batches; batch = partial injective map on current names, result duplicate-free; swaps, rotations, chains through temporaries, re-use of earlier names) within (P,U,D) bounds "
             + ", ".join(f"{s['bounds']}{'+id' if s['identity_pairs'] else ''}{'~sim' if s['simulate'] else ''}" for s in stats)
             + " enumerated by TLC, replayed on func/route/ifelse/interrupt/graph/mapped-graph nodes; distinct = history (P, ops), non-trivial = at least two rename entries; plus alpha-renamed 2-3 node DAGs of C01's family",
        exhaustive=False,   # histories: exhaustive within the bounds; (history x default/bind placement) rotates
        extra={"histories_exhaustive_within_bounds": not any(s["simulate"] for s in stats), "tlc_runs": stats,
               "replays_per_kind": counts, "model_counterexamples": gn,
               "tlc_wall_s": round(t1 - t0, 1), "replay_wall_s": round(t2 - t1, 1)})


def replay(path):
    w = json.load(open(path))["witness"]
    if "alpha" in w:
        mism = R.run_alpha(w["alpha"])
    else:
        mism, _ = R.run_case(w["case"])
    for klass, summary in mism:
        print(f"VIOLATION property={PID} replay={path}\n  class={klass} {summary[:400]}")
    if not mism:
        print(f"[{PID}] replay: no mismatch")
    return 1 if mism else 0
