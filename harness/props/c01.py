"""C01 Acyclic dataflow: every output equals the dependency-order evaluation (DESIGN.md 5/C01)."""
from __future__ import annotations

import json
import random

from .. import gen, predict
from .. import ir as IR
from ..core import Ctx

PID = "C01"


def _select_for_absent(shape, prog, provided):
    """With some external name absent, narrow the run-time selection to the outputs that do not
    depend on it (those nodes' inputs cannot be satisfied and must never run)."""
    have = {p for p, _ in provided} | {b for b, _ in prog["bound"]}
    produced = {o for n in prog["nodes"] for o in n["outputs"]}
    can = {}
    ok_out, blocked = set(), False
    for n in prog["nodes"]:
        # "edge cancels default": a parameter fed by an upstream node needs that node
        sat = all(can.get(p, False) if p in produced else ((p in have) or (p in n["defaults"])) for p in n["inputs"])
        for o in n["outputs"]:
            can[o] = sat
        if sat:
            ok_out |= set(n["outputs"])
        else:
            blocked = True
    if not blocked:
        return None  # nothing absent that matters
    return sorted(ok_out)


def jobs_enumerated(k, early, perms=False, limit=None, both_modes=True):
    import itertools
    jid = 0
    for shape, tag in gen.enum_dags(k):
        for prog, provided, a in gen.dag_jobs(shape, early=early):
            sel = None
            if "a" in a.split("+")[0]:
                sel = _select_for_absent(shape, prog, provided)
                if sel is not None and not sel:
                    continue  # nothing can be produced: validation has nothing to accept
            orders = [prog["nodes"]]
            if perms:
                orders = [list(p) for p in itertools.permutations(prog["nodes"])]
            for nodes in orders:
                p2 = dict(prog, nodes=nodes)
                for mode in (("sync", "async") if both_modes else (("sync", "async")[jid % 2],)):
                    jid += 1
                    yield gen.job(jid, p2, provided, mode=mode, select=sel), f"{tag}/{a}"
                    if limit and jid >= limit:
                        return


def jobs_random(rng, n, start):
    jid = start
    while jid < start + n:
        prog, provided = gen.random_flat(rng, n_nodes=(3, 7), cyclic=0.0, gate=0.0, multi_out=0.3, side_effect=0.15,
                                         defaults=0.3, bound=0.3)
        # C01: required inputs supplied -> provide every external name that has no fallback
        used = {p for nd in prog["nodes"] for p in nd["inputs"]}
        outs = {o for nd in prog["nodes"] for o in nd["outputs"]}
        dpar = {p for nd in prog["nodes"] for p in nd["defaults"]}
        bnd = {b for b, _ in prog["bound"]}
        prov = {p for p, _ in provided} - outs
        for p in used - outs - dpar - bnd:
            prov.add(p)
        provided = [[p, f"in.{p}"] for p in sorted(prov)]
        if rng.random() < 0.5:
            rng.shuffle(prog["nodes"])
        jid += 1
        yield gen.job(jid, prog, provided, mode=rng.choice(["sync", "async"])), "random"


def compare(ctx, job, m, o, tag):
    """Real observation o against the L1 definition exported by TLC (m['aux'])."""
    aux = m["aux"]
    den = aux["den"] if isinstance(aux["den"], dict) else {}
    wit = {"job": job, "tag": tag, "expected": {"den": den, "canrun": aux["canrun"], "once": aux["once"]}, "observed": o}
    if "rejected" in o:
        return ctx.violation("rejected-valid-run", wit, f"run with all required inputs supplied was rejected: {o}")
    sel = job["select"]
    want = den if sel == IR.UNSET else {k: v for k, v in den.items() if k in sel}
    if o["status"] != "completed":
        return ctx.violation("not-completed", wit, f"status {o['status']} err {o['err']}")
    if o["values"] != want:
        return ctx.violation("values", wit, f"values {o['values']} != denotation {want}")
    ran = predict.per_node(o["calls"])
    if set(ran) != set(aux["canrun"]):
        return ctx.violation("executed-set", wit, f"executed {sorted(ran)} expected {sorted(aux['canrun'])}")
    for n in aux["once"]:
        if len(ran[n]) != 1:
            return ctx.violation("not-once", wit, f"node {n} ran {len(ran[n])} times")
    la = aux["lastargs"] if isinstance(aux["lastargs"], dict) else {}
    for n, args in la.items():
        if ran[n][-1] != [list(a) for a in args]:
            return ctx.violation("last-args", wit, f"node {n} last args {ran[n][-1]} expected {args}")
    if predict.per_node(m["calls"]) != ran:
        ctx.divergence("per-node call sequences differ from the L2 model", {"job": job["id"]})
    return False


def compare_equal_values(ctx, job, m, o, tag):
    """Family with ==-equal but different values (1 / 1.0 / True).  Judged against the denotation; the one way in which
    the unchanged engine deviates (a consumer keeps the result it computed from the first of two equal values) has its
    own witness class -- anything else is reported under the ordinary classes."""
    den = m["aux"]["den"] if isinstance(m["aux"]["den"], dict) else {}
    wit = {"job": job, "tag": tag, "expected": {"den": den}, "observed": o, "model": m["values"]}
    if "rejected" in o or o["status"] != "completed":
        return ctx.violation("not-completed", wit, f"equal-values program did not complete: {o}")
    if o["values"] == den:
        return False
    bad = sorted(k for k in set(den) | set(o["values"]) if den.get(k) != o["values"].get(k))
    if o["values"] == m["values"] and bad == ["c"]:
        return ctx.violation("stale-result-after-equal-valued-rewrite", wit,
                             f"c = {o['values'].get('c')} was computed from the first of two ==-equal values; in dependency order it is {den.get('c')}")
    return ctx.violation("values", wit, f"values {o['values']} != denotation {den} (differing: {bad})")


def evaluate(ctx, pairs):
    jobs = [j for j, _ in pairs]
    tags = {j["id"]: t for j, t in pairs}
    # the "equal-values" family: the engine model is faithful to the code (a rewrite with an ==-equal value is no
    # change), which contradicts the denotation there (open known finding): the L2-vs-L1 comparison is skipped for this
    # family, the real run is still judged against the denotation
    eq = [j for j in jobs if tags[j["id"]].startswith("equal-values/")]
    rest = [j for j in jobs if not tags[j["id"]].startswith("equal-values/")]
    res, stats = predict.model_predict(rest, prop=PID)
    ctx.add_tlc(stats)
    if eq:
        res2, stats2 = predict.model_predict(eq, prop=PID, allow_l1fail=True)
        ctx.add_tlc(stats2)
        res.update(res2)
    for j in jobs:
        o, _, _ = predict.try_real(j)
        ctx.count()
        ctx.traces()
        m = res[j["id"]]
        if len(j["prog"]["nodes"]) >= 2:
            ctx.distinct(IR.struct_hash([j["prog"], j["provided"], j["select"]]))
        if tags[j["id"]].startswith("equal-values/"):
            compare_equal_values(ctx, j, m, o, tags[j["id"]])
            continue
        compare(ctx, j, m, o, tags[j["id"]])
    if jobs:
        ctx.sample({"job": jobs[len(jobs) // 2], "denotation": res[jobs[len(jobs) // 2]["id"]]["aux"]})


def selftest(ctx, pairs):
    """Binding self-test: perturb one observable of an accepted run and require a mismatch."""
    j, tag = pairs[0]
    res, _ = predict.model_predict([j], prop=PID)
    o, _, _ = predict.try_real(j)
    import copy
    probe = Ctx(PID, ctx.tier, ctx.seed, ctx.level)
    probe.violation = lambda *a, **k: True  # count only
    bad = copy.deepcopy(o)
    k = sorted(bad["values"])[0]
    bad["values"][k] += "'"
    ok1 = compare(probe, j, res[j["id"]], bad, tag)
    bad2 = copy.deepcopy(o)
    bad2["calls"] = bad2["calls"][:-1]
    ok2 = compare(probe, j, res[j["id"]], bad2, tag)
    if not (ok1 and ok2):
        raise RuntimeError("binding self-test failed: perturbed observation was accepted")
    ctx.bump("binding_selftests", 2)


def run(tier, seed):
    ctx = Ctx(PID, tier, seed, "model_checking")
    rng = random.Random(seed)
    thorough = tier == "thorough"
    pairs = list(jobs_enumerated(2, early=False))
    pairs += list(jobs_enumerated(3, early=False, perms=thorough, both_modes=thorough))
    pairs += list(jobs_enumerated(3, early=True, both_modes=thorough))
    if thorough:
        pairs += list(jobs_enumerated(2, early=False, perms=True))
    # renumber
    for i, (j, _) in enumerate(pairs):
        j["id"] = i + 1
    # variants in which one node's first two parameters were exchanged by a single with_inputs() call
    swapped = []
    for j, tag in pairs[:: (3 if thorough else 9)]:
        nodes = j["prog"]["nodes"]
        for idx, nd in enumerate(nodes):
            sw = gen.swap_params(nd)
            if sw is not None:
                a, b = nd["inputs"][0], nd["inputs"][1]
                dpar = {p for x in nodes for p in x["defaults"]}
                shared = {p for x in nodes if x is not nd for p in x["inputs"]}
                if any(p in dpar and p in shared for p in (a, b)):
                    continue      # a default literal belongs to the underlying parameter: swapping would make the defaults of a shared name inconsistent
                j2 = gen.job(0, dict(j["prog"], nodes=nodes[:idx] + [sw] + nodes[idx + 1:]), j["provided"], mode=j["mode"],
                             select=None if j["select"] == IR.UNSET else j["select"])
                swapped.append((j2, tag + "/swap:" + nd["name"]))
                break
    pairs += swapped
    # variants whose topology is DECLARED (Graph(nodes, edges=...)) with exactly the edges inference would create
    declared = []
    for j, tag in pairs[:: (4 if thorough else 11)]:
        ed = gen.inferred_edges(j["prog"])
        if ed:
            j2 = gen.job(0, dict(j["prog"], edges=ed), j["provided"], mode=j["mode"], select=None if j["select"] == IR.UNSET else j["select"])
            declared.append((j2, tag + "/declared-edges"))
    pairs += declared
    # several sources for one name (provided > bound > default), with None / falsy winning values
    prec = []
    for shape, tag in gen.enum_dags(2):
        for prog, provided, a in gen.dag_jobs_precedence(shape):
            prec.append((gen.job(0, prog, provided, mode=("sync", "async")[len(prec) % 2]), f"precedence/{tag}/{a}"))
    pairs += prec if thorough else prec[:: 3]
    # values that are EQUAL (==) but not the same value (1 / 1.0 / True): a node that starts early on its signature
    # default 1 and re-runs on the upstream 1.0 rewrites its output with an equal value
    for uval, dval in (("1.0", "1"), ("True", "1"), ("1", "1.0"), ("0.0", "0")):
        for order in (0, 1):
            U = IR.func("U", ["x"], ["a"], fn="id")
            N = IR.func("N", ["a"], ["b"], fn="id", defaults=["a"], dvals=[["a", dval]])
            D = IR.func("D", ["b"], ["c"])
            nodes = [U, N, D] if order == 0 else [D, N, U]
            for mode in ("sync", "async"):
                pairs.append((gen.job(0, IR.prog("top", nodes), [["x", uval]], mode=mode), f"equal-values/{uval}-over-{dval}/o{order}"))
    # values that ARE tuples (length 0 / 1 / 2) flowing through single-output identity nodes: a node's return value is its
    # output, whatever its shape
    for tv in ("~tup0", "~tup1", "~tup2"):
        for mode in ("sync", "async"):
            U = IR.func("U", ["x"], ["a"], fn="id")
            V = IR.func("V", ["a", "y"], ["b"], fn="id")
            D = IR.func("D", ["b", "a"], ["c"])
            pairs.append((gen.job(0, IR.prog("top", [U, V, D]), [["x", tv], ["y", "in.y"]], mode=mode), f"tuple-value/{tv}"))
    # a side-effect-only GENERATOR node (no outputs): the runner still drains it (its body is what the node does)
    for mode in ("sync", "async"):
        for order in (0, 1):
            S = IR.func("S", ["x"], [], fn="gen")
            A = IR.func("A", ["x"], ["a"])
            pairs.append((gen.job(0, IR.prog("top", [S, A] if order == 0 else [A, S]), [["x", "in.x"]], mode=mode), f"sink-generator/o{order}"))
    for i, (j, _) in enumerate(pairs):
        j["id"] = i + 1
    pairs += list(jobs_random(rng, 3000 if thorough else 400, len(pairs)))
    selftest(ctx, pairs[:1])
    evaluate(ctx, pairs)
    ctx.assumptions += ["node bodies are harness-generated pure string functions (Herbrand terms)",
                        "TLC evaluates the dependency-order denotation (HGProps!Denote) and checks the engine model against it (INVARIANT L1Holds); the real run is compared with the denotation itself"]
    return ctx.finish(
        rule="all acyclic gate-free programs with 2-3 single-output nodes over externals {x,y} (inputs of size 1-2 from externals and earlier outputs), multi-output / side-effect-only / early-start / swapped-parameter / declared-edges variants, every assignment of provided|bound|default|absent to each external, assignments with several sources per name (provided > bound > default) incl. None / falsy winning values, both runners"
             + (", every node-list permutation" if thorough else "") + "; plus seeded random DAGs of 3-7 nodes; distinct = structural hash of (program, provided, select), non-trivial = >= 2 nodes",
        exhaustive=False)


def replay(path):
    w = json.load(open(path))["witness"]
    ctx = Ctx(PID, "quick", 0, "model_checking")
    evaluate(ctx, [(w["job"], w.get("tag", "replay"))])
    return 1 if ctx.violations else 0
