---------------------------- MODULE Rename ----------------------------
(***************************************************************************)
(* C06: renaming a node's inputs / outputs / name.                        *)
(*                                                                         *)
(* A node is a tuple of POSITIONS 1..P; position i always denotes the      *)
(* original parameter (or output, or the name) Orig[i].  A rename batch    *)
(* (one with_inputs / with_outputs / with_name call) is a partial map      *)
(* from current names to names of the universe U whose result is           *)
(* duplicate-free.  The ABSTRACT semantics is position based: the batch    *)
(* updates `cur` position-wise, nothing else exists.                       *)
(*                                                                         *)
(* The implementation does not keep positions: it keeps a rename HISTORY   *)
(* (entries old/new/batch id, nodes/base.py _with_renamed) and recomputes  *)
(* name maps from it with four different algorithms.  They are modelled    *)
(* here, shaped like the code (ordered dicts are association lists,        *)
(* dict.update keeps the slot of an existing key):                         *)
(*   (a) BuildReverse   nodes/_rename.py    build_reverse_rename_map       *)
(*   (b) BuildForward   nodes/_callable.py  _build_forward_rename_map      *)
(*   (c) GNResolve      nodes/graph_node.py _resolve_original_input_name   *)
(*   (d) GNOutName      nodes/graph_node.py map_outputs_from_original      *)
(* and TLC checks each against the position-based semantics over ALL       *)
(* histories within the bounds, for every order in which the entries of    *)
(* one batch may have been appended (the order of the dict argument):      *)
(*   RevOK, FwdOK          expected to hold   (Rename_ok.cfg)              *)
(*   GNResolveOK, GNOutputsOK  violated by the code-shaped algorithms      *)
(*                         (Rename_gn.cfg, C06_gn_*.cfg): model-level      *)
(*                         evidence of two defects; the verdict about the  *)
(*                         code comes from replaying every history that    *)
(*                         TLC explores into the real package              *)
(*                         (harness/props/c06.py).                         *)
(*                                                                         *)
(* `ops` is the history variable that is replayed: the sequence of batches *)
(* applied, each a sequence of <<old, new>> pairs in ascending position    *)
(* order.  It determines the whole state, so distinct states = distinct    *)
(* histories; Emit prints every reachable state once.                      *)
(***************************************************************************)
EXTENDS HGBase, RenameRules, SequencesExt, TLC, Json, IOUtils

CONSTANTS P,        \* number of positions
          U,        \* universe of names (contains the original names)
          D,        \* maximal number of batches
          AllowId,  \* TRUE: a batch may contain identity pairs x -> x
          AllOrd    \* TRUE: invariants quantify over every within-batch order of hist
                    \* FALSE: only the ascending and the descending order (simulation)

Universe == <<"a", "b", "c", "d", "e", "f">>

\* bounds come from the environment so that one cfg serves every bound
EnvP  == atoi(IOEnv.C06_P)
EnvU  == {Universe[i] : i \in 1..atoi(IOEnv.C06_U)}
EnvD  == atoi(IOEnv.C06_D)
EnvId == IOEnv.C06_ID = "1"
EnvAllOrd == IOEnv.C06_ALLORD = "1"

Orig == SubSeq(Universe, 1, P)      \* original name of position i

VARIABLES cur,    \* cur[i]: current external name of position i   (abstract state)
          hist,   \* the code's bookkeeping: sequence of [old, new, batch]
          depth,  \* number of batches applied
          ops     \* history variable for replay
vars == <<cur, hist, depth, ops>>

Init == /\ cur = Orig
        /\ hist = <<>>
        /\ depth = 0
        /\ ops = <<>>

Positions == 1..P
PosOf(c, x) == CHOOSE i \in Positions : c[i] = x

\* One call with_inputs(m) / with_outputs(m): m is a function from a non-empty set S of
\* current names to U.
RenameBatch(S, m) ==
  LET new   == [i \in Positions |-> IF cur[i] \in S THEN m[cur[i]] ELSE cur[i]]
      ps    == SortedSeq({PosOf(cur, x) : x \in S})
      batch == [k \in 1..Len(ps) |-> <<cur[ps[k]], m[cur[ps[k]]]>>]
  IN /\ depth < D
     /\ AllowId \/ \A x \in S : m[x] # x
     /\ RenameOK(cur, batch)                      \* known names, no duplicates afterwards (RenameRules)
     /\ new = Renamed(cur, batch)                 \* ... and the two descriptions of the effect agree
     /\ cur' = new
     /\ hist' = hist \o [k \in 1..Len(ps) |-> [old |-> batch[k][1], new |-> batch[k][2], batch |-> depth + 1]]
     /\ depth' = depth + 1
     /\ ops' = Append(ops, batch)

Next == \E S \in (SUBSET Names(cur)) \ {{}} : \E m \in [S -> U] : RenameBatch(S, m)

Spec == Init /\ [][Next]_vars

-----------------------------------------------------------------------------
(* Ordered dicts as association lists *)
AssocPut(s, k, v) ==
  IF HasPair(s, k) THEN [i \in 1..Len(s) |-> IF s[i][1] = k THEN <<k, v>> ELSE s[i]]
  ELSE Append(s, <<k, v>>)

RECURSIVE AssocUpdateFrom(_, _, _)
AssocUpdateFrom(s, upd, i) ==                       \* dict.update(upd)
  IF i > Len(upd) THEN s ELSE AssocUpdateFrom(AssocPut(s, upd[i][1], upd[i][2]), upd, i + 1)
AssocUpdate(s, upd) == AssocUpdateFrom(s, upd, 1)

FirstKeyWithValue(s, v, d) ==                        \* next((k for k, x in s.items() if x == v), d)
  IF \E i \in 1..Len(s) : s[i][2] = v
  THEN s[CHOOSE i \in 1..Len(s) : s[i][2] = v /\ \A j \in 1..(i - 1) : s[j][2] # v][1]
  ELSE d

(* (a) build_reverse_rename_map: current -> original, batch aware.          *)
(* Entries of one batch are contiguous in every reachable history.          *)
RECURSIVE RevWalk(_, _, _, _, _)
RevWalk(h, i, b, rm, upd) ==
  IF i > Len(h) THEN AssocUpdate(rm, upd)
  ELSE IF h[i].batch # b THEN RevWalk(h, i, h[i].batch, AssocUpdate(rm, upd), <<>>)
  ELSE RevWalk(h, i + 1, b, rm, AssocPut(upd, h[i].new, PairGetD(rm, h[i].old, h[i].old)))
BuildReverse(h) == IF Len(h) = 0 THEN <<>> ELSE RevWalk(h, 1, h[1].batch, <<>>, <<>>)

(* (b) _build_forward_rename_map: original -> current, batch aware.         *)
RECURSIVE FwdWalk(_, _, _, _, _)
FwdWalk(h, i, b, fm, upd) ==
  IF i > Len(h) THEN AssocUpdate(fm, upd)
  ELSE IF h[i].batch # b THEN FwdWalk(h, i, h[i].batch, AssocUpdate(fm, upd), <<>>)
  ELSE FwdWalk(h, i + 1, b, fm, AssocPut(upd, FirstKeyWithValue(fm, h[i].old, h[i].old), h[i].new))
BuildForward(h) == IF Len(h) = 0 THEN <<>> ELSE FwdWalk(h, 1, h[1].batch, <<>>, <<>>)

(* (c) GraphNode._resolve_original_input_name: reverse walk, no batch ids.  *)
RECURSIVE GNWalk(_, _, _)
GNWalk(h, i, c) == IF i = 0 THEN c ELSE GNWalk(h, i - 1, IF h[i].new = c THEN h[i].old ELSE c)
GNResolve(h, name) == GNWalk(h, Len(h), name)

(* (d) GraphNode.map_outputs_from_original: {v: k for k, v in reverse.items()} *)
RECURSIVE InvertFrom(_, _, _)
InvertFrom(rm, i, acc) == IF i > Len(rm) THEN acc ELSE InvertFrom(rm, i + 1, AssocPut(acc, rm[i][2], rm[i][1]))
GNOutMap(h) == InvertFrom(BuildReverse(h), 1, <<>>)
GNOutName(h, orig) == PairGetD(GNOutMap(h), orig, orig)

-----------------------------------------------------------------------------
(* Every order in which the entries of one batch can have been appended *)
BatchSeq(h, b) == SelectSeq(h, LAMBDA e : e.batch = b)
RECURSIVE Reord(_, _)
Reord(h, b) == IF b = 0 THEN {<<>>}
               ELSE {x \o y : x \in Reord(h, b - 1), y \in SetToSeqs(Names(BatchSeq(h, b)))}
RECURSIVE DescFrom(_, _)
DescFrom(h, b) == IF b = 0 THEN <<>> ELSE DescFrom(h, b - 1) \o Reverse(BatchSeq(h, b))
Desc(h) == DescFrom(h, depth)
Orders == IF AllOrd THEN Reord(hist, depth) ELSE {hist, Desc(hist)}

(* Position-based semantics holds by construction; what TLC checks about it *)
AbsOK == /\ Cardinality(Names(cur)) = P
         /\ Len(ops) = depth
         /\ hist \in Orders

RevOKFor(h) == LET rm == BuildReverse(h)
               IN \A i \in Positions : PairGetD(rm, cur[i], cur[i]) = Orig[i]
FwdOKFor(h) == LET fm == BuildForward(h)
               IN /\ \A i \in Positions : PairGetD(fm, Orig[i], Orig[i]) = cur[i]
                  \* the `next(...)` lookup of the following batch is unambiguous
                  /\ \A j, k \in 1..Len(fm) : fm[j][2] = fm[k][2] => j = k
GNResolveOKFor(h) == \A i \in Positions : GNResolve(h, cur[i]) = Orig[i]
GNOutputsOKFor(h) == LET om == GNOutMap(h)
                     IN \A i \in Positions : PairGetD(om, Orig[i], Orig[i]) = cur[i]

RevOK       == \A h \in Orders : RevOKFor(h)
FwdOK       == \A h \in Orders : FwdOKFor(h)
GNResolveOK == \A h \in Orders : GNResolveOKFor(h)
GNOutputsOK == \A h \in Orders : GNOutputsOKFor(h)

(* Every reachable state = one history: printed once for the replay.  Besides the      *)
(* position-based expectation `cur`, the record carries what the two defective         *)
(* code-shaped algorithms compute on this history (ascending and descending order),    *)
(* which the harness uses ONLY to classify a mismatch seen on the real code.           *)
Emit == LET dh == Desc(hist)
            om == GNOutMap(hist)
            omD == GNOutMap(dh)
        IN PrintT(<<"HIST", ToJson(
             [ops  |-> ops, cur |-> cur, d |-> depth,
              res  |-> [i \in Positions |-> GNResolve(hist, cur[i])],
              out  |-> [i \in Positions |-> PairGetD(om, Orig[i], Orig[i])],
              resD |-> [i \in Positions |-> GNResolve(dh, cur[i])],
              outD |-> [i \in Positions |-> PairGetD(omD, Orig[i], Orig[i])]])>>)
=======================================================================
