---------------------------- MODULE Predict ----------------------------
(***************************************************************************)
(* Spec -> code: evaluate the engine model on a batch of runs read from    *)
(* JSON (env HG_JOBS) and print, per run, the observables the model        *)
(* produces; at the same time TLC checks, as an invariant, that the        *)
(* engine model satisfies the property-level definition selected by the    *)
(* constant Prop on every job (L2 |= L1).                                  *)
(* harness/predict.py executes the same IR on the real runners and         *)
(* compares the property-level observables.                                *)
(*                                                                         *)
(* A job is [id, prog, provided (pairs), mode, select].                    *)
(* One TLC state per job; the jobs are independent initial states, so      *)
(* TLC's workers evaluate them in parallel.                                *)
(***************************************************************************)
EXTENDS HGProps, Json, IOUtils, TLCExt

CONSTANT Prop

Jobs == JsonDeserialize(IOEnv.HG_JOBS)

VARIABLES tid, res
vars == <<tid, res>>

Observe(job) ==
  LET r == RunProg(job.prog, "", job.provided, World0, job.mode)
  IN [id |-> job.id, status |-> r.status,
      values |-> FilterOut(job.prog, r.vals, job.select),
      err |-> r.err, pause |-> r.pause, steps |-> r.steps,
      raw_keys |-> DOMAIN r.vals, calls |-> r.calls, done |-> r.done, aux |-> Aux(Prop, job)]

Init == tid \in 1..Len(Jobs) /\ res = "none"
Next == /\ res = "none"
        /\ res' = ToJson(Observe(Jobs[tid]))
        /\ UNCHANGED tid
Spec == Init /\ [][Next]_vars

Emit == res # "none" => PrintT(<<"RESULT", res>>)

\* L2 |= L1: every clause of the property-level definition holds on the model's run
L1Holds == res # "none" =>
             LET l1 == L1(Prop, Jobs[tid])
             IN \A k \in DOMAIN l1 : l1[k] \/ PrintT(<<"L1FAIL", Jobs[tid].id, k>>) = FALSE
=======================================================================
