---------------------------- MODULE Predict ----------------------------
(***************************************************************************)
(* Spec -> code: evaluate the engine model on a batch of runs read from    *)
(* JSON (env HG_JOBS) and print, per run, the observables the model        *)
(* produces; at the same time TLC checks, as an invariant, that the        *)
(* engine model satisfies the property-level definition selected by the    *)
(* constant Prop on every job (L2 |= L1).                                  *)
(* harness/predict.py executes the same IR on the real runners and         *)
(* compares the property-level observables.                                *)
(*                                                                         *)
(* A job is [id, prog, provided (pairs), mode, select].                    *)
(* One TLC state per job; the jobs are independent initial states, so      *)
(* TLC's workers evaluate them in parallel.                                *)
(***************************************************************************)
EXTENDS HGProps, Json, IOUtils, TLCExt

CONSTANT Prop

Jobs == JsonDeserialize(IOEnv.HG_JOBS)

VARIABLES tid, res
vars == <<tid, res>>

Observe(job) ==
  LET r == RunProg(job.prog, "", job.provided, WorldOf(job), job.mode)
  IN [id |-> job.id, status |-> r.status,
      values |-> FilterOut(job.prog, r.vals, job.select),
      err |-> r.err, pause |-> r.pause, steps |-> r.steps,
      raw_keys |-> DOMAIN r.vals, calls |-> r.calls, done |-> r.done, aux |-> Aux(Prop, job)]

\* a top-level runner.map() call: one independent run per input combination, in input order
ObserveMap(job) ==
  LET mo == job.map.over
      prov == job.provided
      items(j) == PairGet(job.lists, PairGet(prov, mo[j]))
      lens == [j \in 1..Len(mo) |-> Len(items(j))]
      zipok == job.map.mode # "zip" \/ ZipOK(lens)
      combos == IF zipok THEN Combos(job.map.mode, lens) ELSE <<>>
      bcast == SelectSeq(prov, LAMBDA a : a[1] \notin Names(mo))
      inputs(c) == bcast \o [j \in 1..Len(mo) |-> <<mo[j], items(j)[combos[c][j]]>>]
      one(c) == LET r == RunProg(job.prog, "", inputs(c), WorldOf(job), job.mode)
                IN [status |-> r.status, values |-> FilterOut(job.prog, r.vals, job.select), err |-> r.err,
                    inputs |-> inputs(c)]
  IN [id |-> job.id, ismap |-> TRUE, zipok |-> zipok, combos |-> combos,
      results |-> [c \in 1..Len(combos) |-> one(c)]]

\* a sequence of runs (job.seq = runner modes) sharing ONE cache backend of capacity job.cap
RECURSIVE RunSeq(_, _, _, _)
\* an entry "sync@2" / "async@2" runs the job's ALTERNATIVE program job.alt (another graph sharing the cache)
SeqMode(m) == IF m \in {"sync", "sync@2"} THEN "sync" ELSE "async"
SeqProg(job, m) == IF m \in {"sync@2", "async@2"} THEN job.alt ELSE job.prog
RunSeq(job, k, cache, acc) ==
  IF k > Len(job.seq) THEN acc
  ELSE LET w == [WorldOf(job) EXCEPT !.cache = cache, !.cap = job.cap]
           r == RunProg(SeqProg(job, job.seq[k]), "", job.provided, w, SeqMode(job.seq[k]))
       IN RunSeq(job, k + 1, r.w.cache, Append(acc, r))
ObserveSeq(job) ==
  LET rs == RunSeq(job, 1, <<>>, <<>>)
  IN [id |-> job.id, isseq |-> TRUE,
      runs |-> [k \in 1..Len(rs) |->
                 [status |-> rs[k].status, values |-> FilterOut(SeqProg(job, job.seq[k]), rs[k].vals, job.select), err |-> rs[k].err,
                  calls |-> rs[k].calls, hits |-> rs[k].w.hits]],
      aux |-> Aux(Prop, job)]

Init == tid \in 1..Len(Jobs) /\ res = "none"
Next == /\ res = "none"
        /\ res' = ToJson(IF Jobs[tid].map.over # <<>> THEN ObserveMap(Jobs[tid])
                         ELSE IF Jobs[tid].seq # <<>> THEN ObserveSeq(Jobs[tid])
                         ELSE Observe(Jobs[tid]))
        /\ UNCHANGED tid
Spec == Init /\ [][Next]_vars

Emit == res # "none" => PrintT(<<"RESULT", res>>)

\* L2 |= L1: every clause of the property-level definition holds on the model's run
L1Holds == res # "none" =>
             LET l1 == IF Jobs[tid].map.over # <<>> THEN [none |-> TRUE] ELSE L1(Prop, Jobs[tid])
             IN \A k \in DOMAIN l1 : l1[k] \/ PrintT(<<"L1FAIL", Jobs[tid].id, k>>) = FALSE
=======================================================================
