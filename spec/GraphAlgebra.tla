---------------------------- MODULE GraphAlgebra ----------------------------
(***************************************************************************)
(* C07 -- the algebra of derivation operations on graphs and nodes.        *)
(*                                                                         *)
(* A HEAP of immutable objects.  Every derivation operation (bind, unbind, *)
(* select, with_entrypoint, add_nodes, as_node on graphs; with_name,       *)
(* with_inputs, with_outputs, map_over on nodes; wrap = Graph([gnode]) on  *)
(* graph nodes: NESTING) may be applied to ANY                             *)
(* object created so far; it appends ONE new object and never touches an   *)
(* existing one.  Observations (observe = read the properties, which in    *)
(* the code populates caches; run = execute the object) change nothing.    *)
(*                                                                         *)
(* The abstract state of an object is what the property talks about:       *)
(*   graph : node list, bound (name -> tag of the binding op), selection,  *)
(*           entry points and the derived input specification              *)
(*           (required / optional / cycle entry points / all), outputs;    *)
(*   node  : name, inputs, outputs, map_over (graph nodes), wrapped graph, *)
(*           which inputs are optional / bound INSIDE the wrapped graph;   *)
(*   outer : the graph around ONE graph node: own bindings, the bindings   *)
(*           INHERITED from the wrapped graph (under the names the graph   *)
(*           node exposes), selection, input specification, outputs.       *)
(* The derived input specification is computed declaratively from the      *)
(* documented rules (active scope = forward from the entry points,         *)
(* backward from the selection with pessimistic gate expansion; "edge      *)
(* cancels default"; a parameter is optional iff bound or defaulted;       *)
(* cycle entry points = non-gate nodes of a cycle with unbound,            *)
(* undefaulted cycle parameters).                                          *)
(*                                                                         *)
(* TLC explores ALL histories of length <= D (C07_MC.tla/.cfg; with        *)
(* -simulate: random histories plus the complete fan-out of every state    *)
(* on the way).  Every state prints its history `ops` and the object the    *)
(* last operation created (tag HIST); harness/props/c07.py replays the      *)
(* histories on the real objects through the public API and compares every *)
(* live object with its own previous observation and with the abstract     *)
(* state printed here (harness/c07_replay.py).                             *)
(*                                                                         *)
(* Checked on the model itself:                                            *)
(*   AppendOnly  (action property) no operation changes an existing object *)
(*   Independent an object is a function of its own derivation chain only  *)
(*   OneNew      every derivation adds exactly one object, observations 0  *)
(*   WellFormed  structural sanity of every object                         *)
(***************************************************************************)
EXTENDS HGBase, TLC, Json

CONSTANTS D,          \* bound on the length of a history
          Scenario,   \* which base objects are on the initial heap: "g0" | "g1" | "nodes" | "all" | "nest" | "anon"
          Ops,        \* enabled operation names
          Wide,       \* BOOLEAN: the larger argument alphabets
          EmitHist,   \* BOOLEAN: print every history (tag HIST)
          FullIndep   \* BOOLEAN: check Independent for every object of every state (else: the newest)

VARIABLES heap, ops
vars == <<heap, ops>>

(***************************************************************************)
(* Catalogue of function nodes (harness/c07_replay.py builds the same).    *)
(* END targets of the gate are omitted: END is not a node.                 *)
(***************************************************************************)
Fn(ins, outs, dflt) == [ins |-> ins, outs |-> outs, dflt |-> dflt, gate |-> FALSE, targets |-> <<>>]
Cat == [ A |-> Fn(<<"x", "k">>, <<"a">>, {"k"}),
         B |-> Fn(<<"a", "y">>, <<"b">>, {}),
         C |-> Fn(<<"b">>, <<"c">>, {}),
         P |-> Fn(<<"n", "s">>, <<"m">>, {}),
         Q |-> Fn(<<"m">>, <<"n">>, {}),
         R |-> [ins |-> <<"n">>, outs |-> <<>>, dflt |-> {}, gate |-> TRUE, targets |-> <<"P">>],
         \* S consumes its own output: a self-accumulating node that add_nodes appends to a graph
         S |-> Fn(<<"c", "acc">>, <<"acc">>, {}),
         T |-> Fn(<<"n">>, <<"t">>, {}),
         W |-> Fn(<<"z", "v">>, <<"w">>, {"v"}),
         Z |-> Fn(<<"c">>, <<"z">>, {}) ]
Order == <<"A", "B", "C", "P", "Q", "R", "S", "T", "W", "Z">>    \* sorted node names
AllParams == UNION {Names(Cat[n].ins) : n \in DOMAIN Cat}

Unset    == [set |-> FALSE, v |-> <<>>]
IsSet(s) == [set |-> TRUE, v |-> s]

RECURSIVE Dedup(_, _, _)
Dedup(seq, seen, k) ==
  IF k > Len(seq) THEN <<>>
  ELSE IF seq[k] \in seen THEN Dedup(seq, seen, k + 1)
  ELSE <<seq[k]>> \o Dedup(seq, seen \cup {seq[k]}, k + 1)

RECURSIVE FlatIns(_, _), FlatOuts(_, _)
FlatIns(ns, k)  == IF k > Len(ns) THEN <<>> ELSE Cat[ns[k]].ins \o FlatIns(ns, k + 1)
FlatOuts(ns, k) == IF k > Len(ns) THEN <<>> ELSE Cat[ns[k]].outs \o FlatOuts(ns, k + 1)

(***************************************************************************)
(* Structure of a graph given by its node list ns.                         *)
(***************************************************************************)
Produced(ns) == Names(FlatOuts(ns, 1))
Src(ns, p)   == ns[CHOOSE i \in 1..Len(ns) : /\ p \in Names(Cat[ns[i]].outs)
                                            /\ \A j \in 1..(i - 1) : p \notin Names(Cat[ns[j]].outs)]
DataE(ns) == {<<Src(ns, np[2]), np[1]>> :
                np \in {np \in Names(ns) \X AllParams : np[2] \in Names(Cat[np[1]].ins) /\ np[2] \in Produced(ns)}}
CtrlE(ns) == {gt \in Names(ns) \X Names(ns) : Cat[gt[1]].gate /\ gt[2] \in Names(Cat[gt[1]].targets)}

\* The node lists that can occur (a base list extended by add_nodes) and their edge structure.
\* A constant: TLC evaluates it once.
ExtSeqs   == {<<>>, <<"Z">>, <<"W">>, <<"Z", "W">>, <<"W", "Z">>, <<"S">>, <<"S", "Z">>, <<"Z", "S">>}
NodeLists == {b \o x : b \in {<<"A", "B", "C">>, <<"P", "Q", "R", "T">>}, x \in ExtSeqs}
St == [ns \in NodeLists |->
         [prod  |-> Produced(ns),
          src   |-> [p \in Produced(ns) |-> Src(ns, p)],
          dataE |-> DataE(ns),
          allE  |-> DataE(ns) \cup CtrlE(ns)]]

Sub(E, S) == {e \in E : e[1] \in S /\ e[2] \in S}
Succ(E, S) == {e[2] : e \in {e \in E : e[1] \in S}}
RECURSIVE Closure(_, _)
Closure(E, S) == LET S2 == S \cup Succ(E, S) IN IF S2 = S THEN S ELSE Closure(E, S2)
Desc(E, S) == Closure(E, Succ(E, S))          \* reachable in >= 1 step

\* active scope: forward from the entry points ...
FromEntry(ns, ev) == (Names(ev) \cup Desc(St[ns].allE, Names(ev))) \cap Names(ns)
\* ... narrowed backward from the selection, a needed gate pulls in all its targets and what follows them
RECURSIVE Need(_, _, _)
Need(E, act, N) ==
  LET preds == {e[1] : e \in {e \in E : e[2] \in N}}
      tg    == UNION {Names(Cat[g].targets) \cap act : g \in {g \in N : Cat[g].gate}}
      N2    == (N \cup preds \cup tg \cup Desc(E, tg)) \cap act
  IN IF N2 = N THEN N ELSE Need(E, act, N2)
FromSel(ns, act, sv) ==
  LET prod == {n \in act : Names(Cat[n].outs) \cap Names(sv) # {}}
  IN IF prod = {} THEN {} ELSE Need(Sub(St[ns].allE, act), act, prod)
Active(ns, sel, entry) ==
  LET a0 == IF entry.set THEN FromEntry(ns, entry.v) ELSE Names(ns)
  IN IF sel.set THEN FromSel(ns, a0, sel.v) ELSE a0

(***************************************************************************)
(* The input specification (documented categories).                        *)
(***************************************************************************)
RECURSIVE EntrySeq(_, _, _)
EntrySeq(epn, need, k) ==       \* entry-point parameters in sorted node order
  IF k > Len(Order) THEN <<>>
  ELSE (IF Order[k] \in epn THEN need[Order[k]] ELSE <<>>) \o EntrySeq(epn, need, k + 1)

InSpec(ns, bk, sel, entry) ==
  LET st   == St[ns]
      act  == Active(ns, sel, entry)
      aseq == SeqFilter(ns, act, 1)
      dE   == Sub(st.dataE, act)
      used == UNION {Names(Cat[n].ins) : n \in act}
      ep   == {p \in used \cap st.prod : st.src[p] \in act}       \* edge-produced inside the scope
      reach == [n \in act |-> Desc(dE, {n})]
      cyc  == {n \in act : n \in reach[n]}
      cp   == {p \in ep : \E n \in cyc : p \in Names(Cat[n].ins) /\ st.src[p] \in reach[n]}
      need == [n \in cyc |-> SeqFilter(Cat[n].ins, (cp \ bk) \ Cat[n].dflt, 1)]
      epn  == {n \in cyc : ~Cat[n].gate /\ need[n] # <<>>}
      epar == UNION {Names(need[n]) : n \in epn}
      dfl  == UNION {Names(Cat[n].ins) \cap Cat[n].dflt : n \in act}
      uniq == Dedup(FlatIns(aseq, 1), {}, 1)
      free == (Names(uniq) \ epar) \ ep
      req  == SeqFilter(uniq, (free \ bk) \ dfl, 1)
      opt  == SeqFilter(uniq, free \cap (bk \cup dfl), 1)
  IN [req |-> req, opt |-> opt, eps |-> [n \in epn |-> need[n]],
      all |-> Dedup(req \o opt \o EntrySeq(epn, need, 1), {}, 1)]

\* valid bind names of the plain graph over a node list (guard of add_nodes); a constant
PlainValid == [ns \in NodeLists |-> Names(InSpec(ns, {}, Unset, Unset).all) \cup Produced(ns)]

(***************************************************************************)
(* Objects.  One record shape for every kind (neutral values elsewhere).   *)
(***************************************************************************)
Blank == [kind |-> "", name |-> "", nodes |-> <<>>, bound |-> EmptyMap, sel |-> Unset, entry |-> Unset,
          req |-> <<>>, opt |-> <<>>, eps |-> EmptyMap, ins |-> <<>>, outs |-> <<>>,
          mapo |-> <<>>, dflt |-> <<>>, ibound |-> EmptyMap, nins |-> <<>>,
          wraps |-> 0, parent |-> 0, born |-> 0]

\* the bindings a graph shows: its own ones take precedence over the inherited ones
EffBound(g) == [x \in (DOMAIN g.ibound) \cup (DOMAIN g.bound) |->
                  IF x \in DOMAIN g.bound THEN g.bound[x] ELSE g.ibound[x]]

MkGraph(nm, ns, bound, sel, entry, parent, born) ==
  LET sp == InSpec(ns, DOMAIN bound, sel, entry)
  IN [Blank EXCEPT !.kind = "graph", !.name = nm, !.nodes = ns, !.bound = bound, !.sel = sel, !.entry = entry,
                   !.req = sp.req, !.opt = sp.opt, !.eps = sp.eps, !.ins = sp.all, !.outs = FlatOuts(ns, 1),
                   !.parent = parent, !.born = born]

\* a graph node: inputs = all inputs of the graph, outputs = the selection if set;
\* dflt = the inputs with a fallback inside (bound or defaulted there: the optional ones),
\* ibound = the bindings of the wrapped graph that the node exposes
MkGNode(g, gi, born) ==
  [Blank EXCEPT !.kind = "gnode", !.name = g.name, !.ins = g.ins,
                !.outs = IF g.sel.set THEN g.sel.v ELSE g.outs,
                !.dflt = g.opt, !.ibound = RestrictTo(EffBound(g), Names(g.ins)),
                !.wraps = gi, !.parent = gi, !.born = born]

\* the OUTER graph Graph([gn], name = nm) around one graph node (the node's inputs never meet its own
\* outputs: guard of wrap).  own = the outer graph's own bindings; the bindings of the wrapped inner graph
\* are INHERITED under the exposed names.  A parameter is optional iff it is bound (own or inherited) or
\* has a fallback inside; nins keeps the node's input order (a derivation of the outer graph is a
\* function of the outer graph alone).
MkOuter(nm, gname, nins, dflt, ibound, outs, gi, own, sel, parent, born) ==
  LET fb  == (DOMAIN own) \cup (DOMAIN ibound) \cup Names(dflt)
      req == SeqFilter(nins, Names(nins) \ fb, 1)
      opt == SeqFilter(nins, Names(nins) \cap fb, 1)
  IN [Blank EXCEPT !.kind = "outer", !.name = nm, !.nodes = <<gname>>, !.bound = own, !.ibound = ibound,
                   !.sel = sel, !.req = req, !.opt = opt, !.ins = req \o opt, !.outs = outs,
                   !.dflt = dflt, !.nins = nins, !.wraps = gi, !.parent = parent, !.born = born]
Rewrap(o, own, sel, parent, born) ==
  MkOuter(o.name, o.nodes[1], o.nins, o.dflt, o.ibound, o.outs, o.wraps, own, sel, parent, born)

G0 == MkGraph("G0", <<"A", "B", "C">>, EmptyMap, Unset, Unset, 0, 0)
G1 == MkGraph("G1", <<"P", "Q", "R", "T">>, EmptyMap, Unset, Unset, 0, 0)
N0 == [Blank EXCEPT !.kind = "node", !.name = "F", !.ins = <<"p", "q">>, !.outs = <<"r">>, !.dflt = <<"q">>]
\* G0 with a binding made before the history starts (tag 0): what a graph node around it inherits
GB == MkGraph("G0", <<"A", "B", "C">>, [p \in {"x"} |-> 0], Unset, Unset, 0, 0)
\* an ANONYMOUS graph (Graph([...]) without name=): as_node must be given a name, which names the NODE only
GA == MkGraph("", <<"A", "B", "C">>, EmptyMap, Unset, Unset, 0, 0)

Base == CASE Scenario = "g0"    -> <<G0>>
          [] Scenario = "g1"    -> <<G1>>
          [] Scenario = "nodes" -> <<G0, N0, MkGNode(G0, 1, 0)>>
          [] Scenario = "all"   -> <<G0, G1, N0, MkGNode(G0, 1, 0)>>
          [] Scenario = "nest"  -> <<GB, MkGNode(GB, 1, 0)>>
          [] Scenario = "anon"  -> <<GA>>
NBase == Len(Base)

(***************************************************************************)
(* Argument alphabets (2-3 choices per operation).  A rename map is a      *)
(* sequence of <<old, new>> pairs applied simultaneously; the empty map    *)
(* (with_inputs() without arguments) still returns a new object.           *)
(***************************************************************************)
BindNames   == IF Wide THEN {"x", "a", "k", "n", "s", "c"} ELSE {"x", "a", "n", "s"}
SelChoices  == IF Wide THEN {<<"c">>, <<"a", "b">>, <<"b">>, <<"t">>, <<"m">>, <<"n", "t">>, <<"z">>}
                       ELSE {<<"c">>, <<"a", "b">>, <<"t">>, <<"m">>}
EntryNames  == IF Wide THEN {"B", "C", "Q", "T", "P", "Z"} ELSE {"B", "Q", "T"}
ExtraNodes  == IF Wide THEN {"Z", "W", "S"} ELSE {"Z", "S"}
NewNames    == IF Wide THEN {"n1", "n2"} ELSE {"n1"}
InRenames   == IF Wide THEN {<<>>, <<<<"x", "u">>>>, <<<<"x", "y">>, <<"y", "x">>>>, <<<<"u", "x">>>>, <<<<"y", "x">>>>,
                             <<<<"p", "u">>>>, <<<<"p", "q">>, <<"q", "p">>>>, <<<<"q", "p">>>>, <<<<"n", "u">>>>}
                       ELSE {<<<<"x", "u">>>>, <<<<"x", "y">>, <<"y", "x">>>>, <<<<"p", "u">>>>, <<<<"p", "q">>, <<"q", "p">>>>,
                             <<<<"n", "u">>>>}
OutRenames  == IF Wide THEN {<<>>, <<<<"c", "o">>>>, <<<<"a", "c">>, <<"c", "a">>>>, <<<<"o", "c">>>>, <<<<"r", "o">>>>, <<<<"t", "o">>>>}
                       ELSE {<<<<"c", "o">>>>, <<<<"r", "o">>>>, <<<<"t", "o">>>>}
MapParams   == IF Wide THEN {"x", "y", "u", "n", "s"} ELSE {"x", "y", "s"}
OuterNames  == {"O"}

RECURSIVE FlatPairs(_, _)
FlatPairs(m, k) == IF k > Len(m) THEN <<>> ELSE <<m[k][1], m[k][2]>> \o FlatPairs(m, k + 1)
RECURSIVE PairsOf(_, _)          \* inverse of FlatPairs
PairsOf(a, k) == IF k > Len(a) THEN <<>> ELSE <<<<a[k], a[k + 1]>>>> \o PairsOf(a, k + 2)

RenSeq(seq, m)  == [k \in 1..Len(seq) |-> PairGetD(m, seq[k], seq[k])]
\* rename the keys of a map (the rename is injective on them: guard of with_inputs)
RenKeys(f, m)   == [y \in {PairGetD(m, x, x) : x \in DOMAIN f} |->
                      f[CHOOSE x \in DOMAIN f : PairGetD(m, x, x) = y]]
NoDup(seq)      == Cardinality(Names(seq)) = Len(seq)

Op(name, i, arg) == [op |-> name, tgt |-> i, arg |-> arg]

(***************************************************************************)
(* Candidate operations on object o = heap[i]; every argument is a         *)
(* sequence of strings.                                                    *)
(***************************************************************************)
Cands(o, i) ==
  IF o.kind = "graph" THEN
       {Op("bind", i, <<nm>>) : nm \in BindNames}
  \cup {Op("unbind", i, <<nm>>) : nm \in DOMAIN o.bound}
  \cup {Op("select", i, s) : s \in SelChoices}
  \cup {Op("with_entrypoint", i, <<n>>) : n \in EntryNames}
  \cup {Op("add_nodes", i, <<n>>) : n \in ExtraNodes}
  \cup {Op("as_node", i, <<>>), Op("observe", i, <<>>), Op("run", i, <<>>)}
  \cup {Op("as_node", i, <<nm>>) : nm \in NewNames}                 \* as_node(name = nm)
  ELSE IF o.kind = "outer" THEN
       {Op("bind", i, <<nm>>) : nm \in BindNames}
  \cup {Op("unbind", i, <<nm>>) : nm \in (DOMAIN o.bound) \cup (DOMAIN o.ibound)}   \* own or only inherited
  \cup {Op("select", i, s) : s \in SelChoices}
  \cup {Op("as_node", i, <<>>), Op("observe", i, <<>>), Op("run", i, <<>>)}
  ELSE
       {Op("with_name", i, <<nm>>) : nm \in NewNames}
  \cup {Op("with_inputs", i, FlatPairs(m, 1)) : m \in InRenames}
  \cup {Op("with_outputs", i, FlatPairs(m, 1)) : m \in OutRenames}
  \cup {Op("map_over", i, <<p>>) : p \in MapParams}
  \cup {Op("wrap", i, <<nm>>) : nm \in OuterNames}
  \cup {Op("observe", i, <<>>), Op("run", i, <<>>)}

IsObservation(e) == e.op \in {"observe", "run"}

(***************************************************************************)
(* Documented preconditions of the API.                                    *)
(***************************************************************************)
ValidNames(o) == Names(o.ins) \cup Names(o.outs)
Pre(o, e) ==
  CASE e.op = "bind"    -> e.arg[1] \in ValidNames(o)
    \* unbind of a name that is only INHERITED from a nested graph is legal: a new, equal graph
    [] e.op = "unbind"  -> e.arg[1] \in (DOMAIN o.bound) \cup (DOMAIN o.ibound)
    [] e.op = "select"  -> Names(e.arg) \subseteq Names(o.outs) /\ o.sel # IsSet(e.arg)
    [] e.op = "with_entrypoint" -> /\ e.arg[1] \in Names(o.nodes)
                                   /\ ~Cat[e.arg[1]].gate
                                   /\ e.arg[1] \notin Names(o.entry.v)
    [] e.op = "add_nodes" -> /\ e.arg[1] \notin Names(o.nodes)
                             /\ Names(Cat[e.arg[1]].outs) \cap Names(o.outs) = {}
                             /\ Append(o.nodes, e.arg[1]) \in NodeLists
                             /\ DOMAIN o.bound \subseteq PlainValid[Append(o.nodes, e.arg[1])]
    [] e.op = "as_node"   -> e.arg # <<>> \/ o.name # ""        \* an anonymous graph needs as_node(name=...)
    [] e.op = "with_name" -> e.arg[1] # o.name
    [] e.op = "with_inputs"  -> LET m == PairsOf(e.arg, 1)
                                IN PairKeys(m) \subseteq Names(o.ins) /\ NoDup(RenSeq(o.ins, m))
    [] e.op = "with_outputs" -> LET m == PairsOf(e.arg, 1)
                                IN PairKeys(m) \subseteq Names(o.outs) /\ NoDup(RenSeq(o.outs, m))
    [] e.op = "map_over"  -> o.kind = "gnode" /\ e.arg[1] \in Names(o.ins)
    \* model restriction: no input of the node is one of its own outputs (would be a cycle of the outer graph)
    [] e.op = "wrap"      -> o.kind = "gnode" /\ Names(o.ins) \cap Names(o.outs) = {}
    [] e.op = "observe"   -> TRUE
    [] e.op = "run"       -> TRUE

(***************************************************************************)
(* Abstract semantics: the object created by operation e (the k-th of the  *)
(* history) from receiver o = heap[e.tgt].  A PURE function of (o, e, k).  *)
(***************************************************************************)
NewObj(o, e, k) ==
  CASE e.op = "bind" /\ o.kind = "outer"   -> Rewrap(o, Put(o.bound, e.arg[1], k), o.sel, e.tgt, k)
    \* only the OWN binding goes; an inherited one stays (and shows again)
    [] e.op = "unbind" /\ o.kind = "outer" -> Rewrap(o, Drop(o.bound, e.arg[1]), o.sel, e.tgt, k)
    [] e.op = "select" /\ o.kind = "outer" -> Rewrap(o, o.bound, IsSet(e.arg), e.tgt, k)
    [] e.op = "bind"    -> MkGraph(o.name, o.nodes, Put(o.bound, e.arg[1], k), o.sel, o.entry, e.tgt, k)
    [] e.op = "unbind"  -> MkGraph(o.name, o.nodes, Drop(o.bound, e.arg[1]), o.sel, o.entry, e.tgt, k)
    [] e.op = "select"  -> MkGraph(o.name, o.nodes, o.bound, IsSet(e.arg), o.entry, e.tgt, k)
    [] e.op = "with_entrypoint" ->
         MkGraph(o.name, o.nodes, o.bound, o.sel, IsSet(Dedup(o.entry.v \o e.arg, {}, 1)), e.tgt, k)
    \* rebuild from the combined node list, replay bind and select (entry points are not replayed)
    [] e.op = "add_nodes" -> MkGraph(o.name, Append(o.nodes, e.arg[1]), o.bound, o.sel, Unset, e.tgt, k)
    [] e.op = "as_node"   -> [MkGNode(o, e.tgt, k) EXCEPT !.name = IF e.arg = <<>> THEN o.name ELSE e.arg[1]]
    [] e.op = "with_name" -> [o EXCEPT !.name = e.arg[1], !.parent = e.tgt, !.born = k]
    [] e.op = "with_inputs" ->
         LET m == PairsOf(e.arg, 1)
         IN [o EXCEPT !.ins = RenSeq(o.ins, m), !.mapo = RenSeq(o.mapo, m), !.dflt = RenSeq(o.dflt, m),
                      !.ibound = RenKeys(o.ibound, m), !.parent = e.tgt, !.born = k]
    [] e.op = "with_outputs" ->
         [o EXCEPT !.outs = RenSeq(o.outs, PairsOf(e.arg, 1)), !.parent = e.tgt, !.born = k]
    [] e.op = "map_over" -> [o EXCEPT !.mapo = e.arg, !.parent = e.tgt, !.born = k]
    [] e.op = "wrap" -> MkOuter(e.arg[1], o.name, o.ins, o.dflt, o.ibound, o.outs, e.tgt, EmptyMap, Unset, e.tgt, k)

(***************************************************************************)
(* The transition system.                                                  *)
(***************************************************************************)
Init == heap = Base /\ ops = <<>>

Do(i, e) ==
  /\ e.op \in Ops
  /\ Pre(heap[i], e)
  /\ IF IsObservation(e)
       THEN /\ Len(ops) + 1 < D                        \* an observation at the very end adds nothing
            /\ \A k \in 1..Len(ops) : ops[k] # e       \* observing twice adds nothing
            /\ e.op = "run" => heap[i].kind \in {"graph", "outer"}
            /\ heap' = heap
       ELSE heap' = Append(heap, NewObj(heap[i], e, Len(ops) + 1))
  /\ ops' = Append(ops, e)

Next == /\ Len(ops) < D
        /\ \E i \in 1..Len(heap) : \E e \in Cands(heap[i], i) : Do(i, e)

Spec == Init /\ [][Next]_vars

(***************************************************************************)
(* Properties of the model.                                                *)
(***************************************************************************)
\* no operation changes an object that already exists
AppendOnly == [][\A i \in 1..Len(heap) : heap'[i] = heap[i]]_vars

\* an object is a function of its own derivation chain: rebuilding it from the base object by
\* replaying ONLY the operations on its chain gives the same object, whatever else happened
RECURSIVE Rebuild(_)
Rebuild(i) == IF i <= NBase THEN Base[i]
              ELSE LET e == ops[heap[i].born] IN NewObj(Rebuild(e.tgt), e, heap[i].born)
Independent == \A i \in (IF FullIndep THEN 1 ELSE Len(heap))..Len(heap) :
                  /\ heap[i] = Rebuild(i)
                  /\ i > NBase => ops[heap[i].born].tgt = heap[i].parent /\ heap[i].parent < i

NDeriv == Cardinality({k \in 1..Len(ops) : ~IsObservation(ops[k])})
OneNew == Len(heap) = NBase + NDeriv

WellFormed == \A i \in 1..Len(heap) : LET o == heap[i] IN
  /\ o.kind \in {"graph", "node", "gnode", "outer"}
  /\ NoDup(o.ins) /\ NoDup(o.outs)
  /\ o.kind \in {"graph", "outer"} =>
                         /\ Names(o.req) \cap Names(o.opt) = {}
                         /\ Names(o.req) \cup Names(o.opt) \subseteq Names(o.ins)
                         /\ Names(o.req) \cap DOMAIN EffBound(o) = {}
                         /\ o.sel.set => Names(o.sel.v) \subseteq Names(o.outs)
                         /\ o.entry.set => Names(o.entry.v) \subseteq Names(o.nodes)
  /\ o.kind # "graph" => Names(o.mapo) \subseteq Names(o.ins)
  /\ o.kind = "gnode" => /\ heap[o.wraps].kind \in {"graph", "outer"}
                         /\ DOMAIN o.ibound \subseteq Names(o.dflt) /\ Names(o.dflt) \subseteq Names(o.ins)
  /\ o.kind = "outer" => /\ heap[o.wraps].kind = "gnode"
                         /\ Names(o.ins) = Names(o.nins) /\ DOMAIN o.ibound \subseteq Names(o.opt)
  /\ o.kind \in {"graph", "node"} => o.ibound = EmptyMap

\* export: the base heap once, then per state the history and the object created by its last operation
Emit ==
  EmitHist =>
    IF ops = <<>> THEN PrintT(<<"BASE", ToJson(heap)>>)
    ELSE PrintT(<<"HIST", ToJson([ops |-> ops, n |-> Len(heap), obj |-> heap[Len(heap)]])>>)
=============================================================================
