---------------------------- MODULE HGEngine ----------------------------
(***************************************************************************)
(* Value-level specification of the hypergraph superstep engine.           *)
(*                                                                         *)
(* Every definition is a pure operator of an explicit program record `pr`  *)
(* (JSON IR, see harness/ir.py) and an explicit run-state record `st`, so  *)
(* the same text is used                                                   *)
(*   - by Predict.tla     (deterministic evaluation of thousands of       *)
(*                          programs per TLC start: spec -> code),          *)
(*   - by HGSteps.tla     (the action system PlanStep/Exec/Commit that     *)
(*                          TLC explores exhaustively and against which    *)
(*                          recorded executions are trace-validated),       *)
(*   - by the property modules (HGProps, Compose, InputSpec ...).          *)
(*                                                                         *)
(* The definitions follow runners/_shared/helpers.py (get_ready_nodes and  *)
(* friends), runners/{sync,async_}/superstep.py and runner.py, one         *)
(* operator per function of the code, but are written from the DECLARED    *)
(* program (node list, names) only.  Where the pinned implementation       *)
(* deviates from the intended semantics the model encodes the INTENDED     *)
(* one (DESIGN.md 2.6):                                                    *)
(*   - an emit sentinel is always a fresh production (Apply);              *)
(*   - a binding of an inner graph surfaces in the outer graph under the   *)
(*     wrapper's CURRENT input name (EffBoundHas/Val).                        *)
(***************************************************************************)
EXTENDS HGBase, SequencesExt, TLC

NoDec == <<"~nodec">>         \* "this node is not a gate / took no decision"

IsGate(nd)  == nd.kind \in {"ifelse", "route"}
IsGraph(nd) == nd.kind = "graph"
IsIntr(nd)  == nd.kind = "interrupt"

NodeIdx(pr)   == 1..Len(pr.nodes)
Gates(pr)     == {i \in NodeIdx(pr) : IsGate(pr.nodes[i])}
GraphIdx(pr)  == {i \in NodeIdx(pr) : IsGraph(pr.nodes[i])}
NodeNames(pr) == {pr.nodes[i].name : i \in NodeIdx(pr)}
IdxOf(pr, n)  == CHOOSE i \in NodeIdx(pr) : pr.nodes[i].name = n
NodeByName(pr, n) == pr.nodes[IdxOf(pr, n)]
Outputs(pr)   == UNION {Names(pr.nodes[i].outputs) : i \in NodeIdx(pr)}
DataOutputs(nd) == {nd.outputs[j] : j \in 1..nd.ndata}
\* names that some node of a program (or of a graph nested in it, under the exposed name) produces as a VALUE;
\* the remaining outputs are ordering signals only
RECURSIVE ProgDataOutputs(_)
ProgDataOutputs(pr) ==
  UNION {IF pr.nodes[i].kind = "graph"
         THEN {pr.nodes[i].outmap[k][2] : k \in {k \in 1..Len(pr.nodes[i].outmap) :
                                                    pr.nodes[i].outmap[k][1] \in ProgDataOutputs(pr.nodes[i].sub)}}
         ELSE DataOutputs(pr.nodes[i]) : i \in NodeIdx(pr)}

\* real (non-END) targets of a gate that are nodes of the graph
Targets(pr, g)      == Names(g.targets) \cap NodeNames(pr)
ControlledBy(pr, n) == {i \in Gates(pr) : n \in Targets(pr, pr.nodes[i])}

Producers(pr, x)     == {i \in NodeIdx(pr) : x \in Names(pr.nodes[i].outputs)}
FirstProducer(pr, x) == CHOOSE i \in Producers(pr, x) : \A j \in Producers(pr, x) : i <= j

(***************************************************************************)
(* Scope: with_entrypoint() narrows execution to the entry nodes and what  *)
(* is reachable from them over the graph's edges (helpers.py               *)
(* compute_active_node_set).  The edge relation mirrors graph/core.py:     *)
(* data edges from the FIRST producer of a name, control edges gate ->     *)
(* target, ordering edges first producer -> waiter.                        *)
(***************************************************************************)
EdgeSet(pr) ==
  LET data == {<<FirstProducer(pr, p), i>> : <<i, p>> \in
                 {<<i, p>> \in NodeIdx(pr) \X Outputs(pr) : p \in Names(pr.nodes[i].inputs)}}
      ctrl == {<<g, IdxOf(pr, t)>> : <<g, t>> \in
                 {<<g, t>> \in Gates(pr) \X NodeNames(pr) : t \in Targets(pr, pr.nodes[g])}}
      ordr == {<<FirstProducer(pr, w), i>> : <<i, w>> \in
                 {<<i, w>> \in NodeIdx(pr) \X Outputs(pr) :
                      w \in Names(pr.nodes[i].wait_for) /\ FirstProducer(pr, w) # i}}
  IN data \cup ctrl \cup ordr

RECURSIVE ReachFrom(_, _)
ReachFrom(E, S) == LET nxt == S \cup {e[2] : e \in {e \in E : e[1] \in S}}
                   IN IF nxt = S THEN S ELSE ReachFrom(E, nxt)

ActiveSet(pr) == IF pr.entry = <<>> THEN NodeIdx(pr)
                 ELSE ReachFrom(EdgeSet(pr), {IdxOf(pr, pr.entry[k]) : k \in 1..Len(pr.entry)})

Unset == <<"~unset">>

\* scope narrowing of the input contract (graph/input_spec.py _compute_active_scope): entry points narrow
\* from the front, a selection narrows from the back (every target of a needed gate may run)
Preds(E, S) == {e[1] : e \in {e \in E : e[2] \in S}}

RECURSIVE NeededFor(_, _, _, _)
NeededFor(pr, E, act, S) ==      \* backward closure of S inside act, with pessimistic gate expansion
  LET back == Preds(E, S) \cap act
      gates == {i \in S : IsGate(pr.nodes[i])}
      tgts == {IdxOf(pr, t) : t \in UNION {Targets(pr, pr.nodes[g]) : g \in gates}} \cap act
      down == ReachFrom({e \in E : e[1] \in act /\ e[2] \in act}, tgts) \cap act
      nxt == S \cup back \cup tgts \cup down
  IN IF nxt = S THEN S ELSE NeededFor(pr, E, act, nxt)

ActiveFor(pr, selected) ==
  LET fwd == ActiveSet(pr)
  IN IF selected = Unset \/ selected = <<"**">> THEN fwd
     ELSE LET prods == {i \in fwd : Names(pr.nodes[i].outputs) \cap Names(selected) # {}}
          IN IF prods = {} THEN {} ELSE NeededFor(pr, EdgeSet(pr), fwd, prods)

\* the scope in which graph.inputs (hence the effective bindings) is computed
SpecActive(pr) == ActiveFor(pr, pr.selected)

(***************************************************************************)
(* Effective bindings and defaults (graph/input_spec.py                    *)
(* _collect_bound_values, nodes/graph_node.py has_default_for, helpers.py  *)
(* get_value_source).                                                      *)
(***************************************************************************)
InnerName(nd, p) == PairGet(nd.inmap, p)      \* wrapper input p -> name inside nd.sub

RECURSIVE EffBoundHas(_, _), EffBoundVal(_, _)
Exposes(pr, i, p) == /\ p \in Names(pr.nodes[i].inputs)
                     /\ EffBoundHas(pr.nodes[i].sub, InnerName(pr.nodes[i], p))
\* only wrappers in the graph's active scope (entry points, graph-level selection) surface their bindings
EffBoundHas(pr, p) == HasPair(pr.bound, p) \/ \E i \in GraphIdx(pr) \cap SpecActive(pr) : Exposes(pr, i, p)
EffBoundVal(pr, p) ==
  IF HasPair(pr.bound, p) THEN PairGet(pr.bound, p)
  ELSE LET A == GraphIdx(pr) \cap SpecActive(pr)
           i == CHOOSE i \in A :
                   Exposes(pr, i, p) /\ \A j \in A : Exposes(pr, j, p) => i <= j
       IN EffBoundVal(pr.nodes[i].sub, InnerName(pr.nodes[i], p))

RECURSIVE NodeHasDefault(_, _), ProgHasFallback(_, _)
ProgHasFallback(pr, q) ==      \* the inner graph can supply q itself (binding or default)
  \/ EffBoundHas(pr, q)
  \/ \E i \in NodeIdx(pr) : q \in Names(pr.nodes[i].inputs) /\ NodeHasDefault(pr.nodes[i], q)
NodeHasDefault(nd, p) ==
  IF IsGraph(nd) THEN p \in Names(nd.inputs) /\ ProgHasFallback(nd.sub, InnerName(nd, p))
  ELSE p \in Names(nd.defaults)

RECURSIVE NodeDefaultVal(_, _), ProgFallbackVal(_, _)
ProgFallbackVal(pr, q) ==
  IF EffBoundHas(pr, q) THEN EffBoundVal(pr, q)
  ELSE LET i == CHOOSE i \in NodeIdx(pr) :
                   /\ q \in Names(pr.nodes[i].inputs) /\ NodeHasDefault(pr.nodes[i], q)
                   /\ \A j \in NodeIdx(pr) :
                        (q \in Names(pr.nodes[j].inputs) /\ NodeHasDefault(pr.nodes[j], q)) => i <= j
       IN NodeDefaultVal(pr.nodes[i], q)
NodeDefaultVal(nd, p) ==
  IF IsGraph(nd) THEN ProgFallbackVal(nd.sub, InnerName(nd, p))
  ELSE LET orig == PairGet(nd.pmap, p)         \* the default literal is keyed by the ORIGINAL parameter
       IN IF HasPair(nd.dvals, orig) THEN PairGet(nd.dvals, orig) ELSE "dflt." \o orig

(***************************************************************************)
(* Readiness (helpers.py get_ready_nodes).                                 *)
(***************************************************************************)
Ver(st, x) == Get(st.vers, x, 0)
Ran(st, n) == n \in DOMAIN st.last

HasInput(pr, st, nd, p) == p \in DOMAIN st.vals \/ EffBoundHas(pr, p) \/ NodeHasDefault(nd, p)

\* _is_stale: the self-producer rule applies to ungated nodes only
Stale(pr, st, nd) ==
  LET gated == ControlledBy(pr, nd.name) # {} IN
  \E i \in 1..Len(nd.inputs) : LET p == nd.inputs[i] IN
       /\ ~(~gated /\ p \in Names(nd.outputs))
       /\ Ver(st, p) # Get(st.last[nd.name].inv, p, 0)
Needs(pr, st, nd) == ~Ran(st, nd.name) \/ Stale(pr, st, nd)

IsEndDec(nd, d)  == ~nd.multi /\ d = <<"END">>
\* _clear_stale_gate_decisions: a gate about to re-run forgets its decision; END is terminal
DecClean(pr, st) ==
  [g \in {g \in DOMAIN st.dec :
             IsEndDec(NodeByName(pr, g), st.dec[g]) \/ ~Needs(pr, st, NodeByName(pr, g))} |-> st.dec[g]]

DecSelects(nd, d, n) == ~IsEndDec(nd, d) /\ n \in Names(d)

\* _get_activated_nodes
Activated(pr, st, nd) ==
  LET gs == ControlledBy(pr, nd.name)
      dc == DecClean(pr, st)
  IN gs = {} \/ \E i \in gs : LET g == pr.nodes[i] IN
       IF g.name \in DOMAIN dc THEN DecSelects(g, dc[g.name], nd.name)
       ELSE ~Ran(st, g.name) /\ g.default_open

\* _wait_for_satisfied
WaitOK(st, nd) == \A i \in 1..Len(nd.wait_for) : LET w == nd.wait_for[i] IN
   /\ w \in DOMAIN st.vals
   /\ Ran(st, nd.name) => Ver(st, w) > Get(st.last[nd.name].wfv, w, 0)

Ready0(pr, st) == {i \in ActiveSet(pr) : LET nd == pr.nodes[i] IN
     /\ Activated(pr, st, nd)
     /\ \A k \in 1..Len(nd.inputs) : HasInput(pr, st, nd, nd.inputs[k])
     /\ WaitOK(st, nd)
     /\ Needs(pr, st, nd)}

ReadySet(pr, st) ==
  LET r0 == Ready0(pr, st)
      \* a ready gate decides first: its targets are held back for this step
      blocked == UNION {Targets(pr, pr.nodes[i]) \ {pr.nodes[i].name} : i \in r0 \cap Gates(pr)}
      r1 == {i \in r0 : pr.nodes[i].name \notin blocked}
      \* a waiter is deferred while a producer of the awaited name is co-ready
      deferred == {i \in r1 : \E k \in 1..Len(pr.nodes[i].wait_for) : \E j \in r1 \ {i} :
                       pr.nodes[i].wait_for[k] \in Names(pr.nodes[j].outputs)}
  IN r1 \ deferred

\* async superstep: the first ready interrupt runs alone
ReadySeq(pr, st, mode) ==
  LET rs == SortedSeq(ReadySet(pr, st))
      ints == SelectSeq(rs, LAMBDA i : IsIntr(pr.nodes[i]))
  IN IF mode = "async" /\ ints # <<>> THEN <<ints[1]>> ELSE rs

(***************************************************************************)
(* Argument resolution (helpers.py get_value_source): state > effective    *)
(* binding > signature default.  Arguments are reported under the node's   *)
(* ORIGINAL parameter names (what the wrapped function sees).              *)
(***************************************************************************)
\* a nested graph's OWN binding wins over a binding inherited from a sibling wrapper under the same name
\* (helpers.py _nested_run_resolves: the outer run leaves the parameter to the nested run)
Resolve(pr, st, nd, p) == IF p \in DOMAIN st.vals THEN st.vals[p]
                          ELSE IF HasPair(pr.bound, p) THEN PairGet(pr.bound, p)
                          ELSE IF IsGraph(nd) /\ EffBoundHas(nd.sub, InnerName(nd, p)) THEN EffBoundVal(nd.sub, InnerName(nd, p))
                          ELSE IF EffBoundHas(pr, p) THEN EffBoundVal(pr, p)
                          ELSE NodeDefaultVal(nd, p)
\* seq of <<current input name, original parameter, value>>
Args(pr, st, nd) == [i \in 1..Len(nd.inputs) |->
                       <<nd.inputs[i], PairGet(nd.pmap, nd.inputs[i]), Resolve(pr, st, nd, nd.inputs[i])>>]
ArgText(args) == Join([k \in 1..Len(args) |-> args[k][2] \o "=" \o args[k][3]], ",")
CallArgs(args) == [k \in 1..Len(args) |-> <<args[k][2], args[k][3]>>]

(***************************************************************************)
(* State update (types.py GraphState.update_value): version++ iff new or   *)
(* changed; a sentinel is always a fresh production.                       *)
(***************************************************************************)
\* python values that are EQUAL (==) without being the same value: 1 == 1.0 == True, 0 == 0.0 == False.  The engine
\* compares with != : such a rewrite stores the new value but is no change (no version bump).
EqClass(v) == IF v \in {"1", "1.0", "True"} THEN "~one" ELSE IF v \in {"0", "0.0", "False"} THEN "~zero" ELSE v
Apply(st, o, val) ==
  LET changed == o \notin DOMAIN st.vals \/ EqClass(st.vals[o]) # EqClass(val) \/ val = Sent IN
  [st EXCEPT !.vals = Put(st.vals, o, val),
             !.vers = IF changed THEN Put(st.vers, o, Ver(st, o) + 1) ELSE st.vers]
RECURSIVE ApplyOuts(_, _, _)
ApplyOuts(st, outs, k) == IF k > Len(outs) THEN st
                          ELSE ApplyOuts(Apply(st, outs[k][1], outs[k][2]), outs, k + 1)

\* node_executions[node] = NodeExecution(input_versions, wait_for_versions) from the SNAPSHOT
Record(st, nd, snap) ==
  [st EXCEPT !.last = Put(st.last, nd.name,
        [inv |-> [p \in Names(nd.inputs) |-> Ver(snap, p)],
         wfv |-> [w \in Names(nd.wait_for) |-> Ver(snap, w)]])]

(***************************************************************************)
(* Result filtering (helpers.py filter_outputs).                           *)
(***************************************************************************)
EffSelect(pr, select) == IF select = Unset THEN pr.selected ELSE select
FilterOut(pr, vals, select) ==
  LET eff == EffSelect(pr, select)
      keys == IF eff = Unset \/ eff = <<"**">> THEN Outputs(pr) ELSE Names(eff)
  IN [k \in {k \in keys \cap DOMAIN vals : vals[k] # Sent} |-> vals[k]]

(***************************************************************************)
(* Node bodies.  The harness generates the Python bodies from the same IR  *)
(* (harness/build.py): a body logs its call, optionally fails at scripted  *)
(* invocation indices, and returns a canonical string per data output.     *)
(***************************************************************************)
\* tname = the name the wrapped function knows itself by (nodes sharing one function share it)
\* fn = "gen": a GENERATOR function (sync or async): it yields two items, the runner collects them into a list
GenItems(nd, o, args) == LET t == nd.tname \o "." \o o \o "(" \o ArgText(args) \o ")" IN <<t \o "#0", t \o "#1">>
BodyVal(nd, o, args) ==
  CASE nd.fn = "id"    -> IF Len(args) > 0 THEN args[1][3] ELSE nd.tname \o "." \o o
    [] nd.fn = "const" -> nd.tname \o "." \o o
    [] nd.fn = "gen"   -> ListText(GenItems(nd, o, args))
    [] OTHER           -> nd.tname \o "." \o o \o "(" \o ArgText(args) \o ")"

\* the value of output j is labelled with the ORIGINAL output label (olabels), so that renaming an
\* output changes only the name under which the value is wired
NodeOuts(nd, args) == [j \in 1..Len(nd.outputs) |->
                         <<nd.outputs[j], IF j <= nd.ndata THEN BodyVal(nd, nd.olabels[j], args) ELSE Sent>>]

\* the scripted raw decision of the idx-th invocation (the last entry repeats); inside map items
\* (where invocation indices depend on the schedule) decisions and failures are keyed by ARGUMENT
\* values instead: dec_args = <<value, raw decision>> pairs, fail_args = values
ArgVals(args) == {args[k][3] : k \in 1..Len(args)}
\* pure gates (needed where caching must be transparent): the decision is a function of the
\* arguments only -- the script entry selected by the length of the argument text
RawDecision(nd, idx, args) ==
  IF nd.pure THEN nd.script[(Len(ArgText(args)) % Len(nd.script)) + 1]
  ELSE IF \E i \in 1..Len(nd.dec_args) : nd.dec_args[i][1] \in ArgVals(args)
  THEN nd.dec_args[CHOOSE i \in 1..Len(nd.dec_args) :
           nd.dec_args[i][1] \in ArgVals(args) /\ \A j \in 1..(i-1) : nd.dec_args[j][1] \notin ArgVals(args)][2]
  ELSE nd.script[Min2(idx, Len(nd.script))]
\* fn = "short": a node with several data outputs whose function returns too few values: wrapping the result fails
Fails(nd, idx, args) == idx \in Names(nd.fail_at) \/ ArgVals(args) \cap Names(nd.fail_args) # {} \/ nd.fn = "short"
\* runners/_shared/gate_execution.py: fallback for None, [] / None mean "no target"
Decide(nd, raw) ==
  IF raw = <<None>> THEN (IF nd.kind = "route" /\ ~nd.multi /\ nd.fallback # None
                          THEN <<nd.fallback>> ELSE <<>>)
  ELSE raw

\* runners/_shared/routing_validation.py: a route gate that returns a name outside its targets, or a
\* list although it is single-target, raises (ValueError / TypeError): the gate FAILS, no decision is taken
BadDecision(nd, raw) ==
  /\ nd.kind = "route" /\ raw # <<None>>
  /\ ((~nd.multi /\ Len(raw) > 1) \/ \E i \in 1..Len(raw) : raw[i] \notin Names(nd.targets))

Path(prefix, n) == IF prefix = "" THEN n ELSE prefix \o "/" \o n

(***************************************************************************)
(* Running.  RunProg is the whole run of one (sub)graph: a deterministic   *)
(* function of program, provided values, invocation counters and mode.     *)
(* Results:                                                                *)
(*   [status, vals, err, pause, pre, steps, w, calls, done]                *)
(*   pre = values at the start of the last step (lower bound of a partial *)
(*   result)                                                               *)
(*   status \in {"completed", "failed", "paused"}                          *)
(*   err = [path, kind] with kind \in {"body", "infinite"} (or NoErr)      *)
(***************************************************************************)
NoErr   == [path |-> None, kind |-> None]
NoPause == [path |-> None, key |-> None, value |-> None]

RECURSIVE RunProg(_, _, _, _, _), Loop(_, _, _, _, _), StepFold(_, _, _, _, _, _, _), ExecNode(_, _, _, _, _, _, _),
          MapItems(_, _, _, _, _, _, _, _)

\* The "world" w = [ctr, calls, done] is threaded through every (nested) run:
\*   ctr    invocation counters per node path (scripts are indexed by them)
\*   calls  log of body invocations (starts), in the order the sync runner produces them
\*   done   log of successful node completions [path, frame, node, step]
\*   lists  list values: canonical text -> sequence of item texts (values are strings; a mapped
\*          parameter needs the items of the list it receives)
\*   cache  the runner's cache backend: entries [key, outs, dec] from least to most recently used;
\*          cap = capacity (0 = unbounded); hits = log of cache hits [path, key]
World0 == [ctr |-> EmptyMap, calls |-> <<>>, done |-> <<>>, lists |-> EmptyMap, cache |-> <<>>, cap |-> 0, hits |-> <<>>]

(***************************************************************************)
(* Node result caching (runners/_shared/caching.py, cache.py).  An entry   *)
(* is keyed by the node's function definition, its output names and the    *)
(* arguments by ORIGINAL parameter name: it may be served only to a node   *)
(* with the same definition, the same arguments and the same outputs.      *)
(***************************************************************************)
\* (for a gate the cached value is the chosen TARGET, so its targets belong to the identity as well)
\* ... and the KIND of node: an interrupt and a function node wrapping the same function read its result differently
\* (None pauses the interrupt, it is an ordinary value of the function node)
KindClass(nd) == IF nd.kind = "interrupt" THEN "interrupt" ELSE "plain"
CacheKey(nd, args) == <<nd.fid, KindClass(nd), nd.outputs, nd.targets, <<nd.fallback>>, CallArgs(args)>>
CacheFind(cache, key) == {i \in 1..Len(cache) : cache[i].key = key}
CacheTouch(cache, i) == SelectSeq([j \in 1..Len(cache) |-> IF j = i THEN [cache[j] EXCEPT !.key = <<"~moved">>] ELSE cache[j]],
                                  LAMBDA e : e.key # <<"~moved">>) \o <<cache[i]>>
CachePut(cache, cap, e) ==
  LET rest == SelectSeq(cache, LAMBDA x : x.key # e.key)
      all == Append(rest, e)
  IN IF cap > 0 /\ Len(all) > cap THEN Tail(all) ELSE all

(***************************************************************************)
(* map_over (helpers.py generate_map_inputs, template_*.py map,            *)
(* collect_as_lists).  Combos(mode, lens) = index tuples of the input      *)
(* combinations, in input order: zip = position-wise, product = cartesian  *)
(* in row-major order (first mapped parameter varies slowest).             *)
(***************************************************************************)
RECURSIVE ProductIdx(_, _)
ProductIdx(lens, k) ==            \* all index tuples over lens[k..], row-major
  IF k > Len(lens) THEN << <<>> >>
  ELSE LET rest == ProductIdx(lens, k + 1)
       IN [n \in 1..(lens[k] * Len(rest)) |->
             <<((n - 1) \div Len(rest)) + 1>> \o rest[((n - 1) % Len(rest)) + 1]]
ZipIdx(lens) == IF lens = <<>> THEN << <<>> >>
                ELSE [n \in 1..lens[1] |-> [j \in 1..Len(lens) |-> n]]
ZipOK(lens) == \A i, j \in 1..Len(lens) : lens[i] = lens[j]
Combos(mode, lens) == IF mode = "zip" THEN ZipIdx(lens) ELSE ProductIdx(lens, 1)

\* the item runs of a map, in input order.  sync + raise: stops at the first failing item
\* (template_sync.map raises inside the loop); async: every item runs (gather).
MapItems(nd, path, inputs, c, w, acc, mode, eh) ==
  IF c > Len(inputs) THEN [results |-> acc, w |-> w]
  ELSE LET r == RunProg(nd.sub, path \o "[" \o ToString(c - 1) \o "]", inputs[c], w, mode)
       IN IF r.status # "completed" /\ eh = "raise" /\ mode = "sync"
          THEN [results |-> Append(acc, r), w |-> r.w]
          ELSE MapItems(nd, path, inputs, c + 1, r.w, Append(acc, r), mode, eh)

\* ex = [status |-> "ok"|"fail"|"pause", outs, dec, w, err, pause]
ExecNode(pr, prefix, nd, args, st, step, mode) ==
  LET path == Path(prefix, nd.name)
      idx  == Get(st.w.ctr, path, 0) + 1
      call == [path |-> path, frame |-> prefix, node |-> nd.name, step |-> step,
               idx |-> idx, args |-> CallArgs(args), kind |-> nd.kind,
               dec |-> IF IsGate(nd) /\ ~Fails(nd, idx, args) /\ ~BadDecision(nd, RawDecision(nd, idx, args))
                       THEN Decide(nd, RawDecision(nd, idx, args)) ELSE NoDec]
      w1   == [st.w EXCEPT !.ctr = Put(st.w.ctr, path, idx), !.calls = st.w.calls \o <<call>>]
      base == [status |-> "ok", outs |-> <<>>, dec |-> NoDec, w |-> w1, err |-> NoErr, pause |-> NoPause]
  IN
  IF IsGraph(nd) /\ nd.map_over # <<>> THEN
     \* a mapping node: one child run per input combination, outputs collected as lists
     LET mo == nd.map_over
         argOf(p) == args[CHOOSE i \in 1..Len(args) : args[i][1] = p][3]
         known == \A j \in 1..Len(mo) : argOf(mo[j]) \in DOMAIN st.w.lists
         items(j) == st.w.lists[argOf(mo[j])]
         lens == [j \in 1..Len(mo) |-> Len(items(j))]
     IN IF ~known \/ (nd.map_mode = "zip" /\ ~ZipOK(lens))
        THEN [base EXCEPT !.status = "fail", !.err = [path |-> path, kind |-> "map-input"]]
        ELSE
        LET combos == Combos(nd.map_mode, lens)
            bcast == SelectSeq(args, LAMBDA a : a[1] \notin Names(mo))
            inputs(c) == [i \in 1..Len(bcast) |-> <<InnerName(nd, bcast[i][1]), bcast[i][3]>>]
                         \o [j \in 1..Len(mo) |-> <<InnerName(nd, mo[j]), items(j)[combos[c][j]]>>]
            mr == MapItems(nd, path, [c \in 1..Len(combos) |-> inputs(c)], 1, w1, <<>>, mode, nd.map_eh)
            failedAt == {c \in 1..Len(mr.results) : mr.results[c].status # "completed"}
        IN IF failedAt # {} /\ nd.map_eh = "raise"
           THEN [base EXCEPT !.status = "fail", !.w = mr.w,
                             !.err = mr.results[CHOOSE c \in failedAt : \A d \in failedAt : c <= d].err]
           ELSE
           LET col(pair) == [c \in 1..Len(mr.results) |->
                    LET rv == FilterOut(nd.sub, mr.results[c].vals, Unset)
                    IN IF mr.results[c].status = "completed" /\ pair[1] \in DOMAIN rv THEN rv[pair[1]] ELSE None]
               \* ordering-only (emit) outputs of the mapped graph carry no value: they are not collected
               dm == SelectSeq(nd.outmap, LAMBDA pm : pm[1] \in ProgDataOutputs(nd.sub))
               outs == [i \in 1..Len(dm) |-> <<dm[i][2], ListText(col(dm[i]))>>]
               w2 == [mr.w EXCEPT !.lists = [t \in (DOMAIN mr.w.lists) \cup {outs[i][2] : i \in 1..Len(outs)} |->
                         IF \E i \in 1..Len(outs) : outs[i][2] = t
                         THEN col(dm[CHOOSE i \in 1..Len(outs) : outs[i][2] = t])
                         ELSE mr.w.lists[t]]]
           IN [base EXCEPT !.outs = outs, !.w = w2]
  ELSE IF IsGraph(nd) THEN
     LET inner == [i \in 1..Len(args) |-> <<InnerName(nd, args[i][1]), args[i][3]>>]
         r == RunProg(nd.sub, path, inner, w1, mode)
     IN IF r.status = "completed" THEN
           LET rv == FilterOut(nd.sub, r.vals, Unset)
               present == SelectSeq(nd.outmap, LAMBDA pair : pair[1] \in DOMAIN rv)
           IN [base EXCEPT !.outs = [i \in 1..Len(present) |-> <<present[i][2], rv[present[i][1]]>>],
                           !.w = r.w]
        ELSE IF r.status = "paused" THEN
           [base EXCEPT !.status = "pause", !.w = r.w, !.pause = r.pause]
        ELSE [base EXCEPT !.status = "fail", !.w = r.w, !.err = r.err]
  ELSE IF IsIntr(nd) /\ (\A j \in 1..nd.ndata : nd.outputs[j] \in DOMAIN st.vals) /\ ~Ran(st, nd.name) THEN
     \* resume path: the answers are already in the state; the handler is not invoked
     [base EXCEPT !.outs = [j \in 1..Len(nd.outputs) |->
                             <<nd.outputs[j], IF j <= nd.ndata THEN st.vals[nd.outputs[j]] ELSE Sent>>],
                  !.w = st.w]
  ELSE IF nd.cache /\ CacheFind(st.w.cache, CacheKey(nd, args)) # {} THEN
     \* cache hit: the function is not invoked; outputs (and a gate's decision) come from the entry
     LET i == CHOOSE i \in CacheFind(st.w.cache, CacheKey(nd, args)) : TRUE
         e == st.w.cache[i]
     IN [base EXCEPT !.outs = e.outs, !.dec = e.dec,
                     !.w = [st.w EXCEPT !.cache = CacheTouch(st.w.cache, i),
                                        !.hits = Append(st.w.hits, [path |-> path, step |-> step])]]
  ELSE IF Fails(nd, idx, args) THEN
     [base EXCEPT !.status = "fail", !.err = [path |-> path, kind |-> "body"]]
  ELSE IF IsIntr(nd) THEN
     IF idx \in Names(nd.pause_at)
     THEN [base EXCEPT !.status = "pause",
                       !.pause = [path |-> nd.name, key |-> nd.outputs[1],
                                  value |-> IF Len(args) > 0 THEN args[1][3] ELSE None]]
     ELSE [base EXCEPT !.outs = [j \in 1..Len(nd.outputs) |->
                             <<nd.outputs[j], IF j <= nd.ndata THEN (IF nd.answers # <<>> THEN nd.answers[j] ELSE "ans." \o nd.name \o "." \o nd.outputs[j]) ELSE Sent>>]]
  ELSE IF IsGate(nd) /\ BadDecision(nd, RawDecision(nd, idx, args)) THEN
     [base EXCEPT !.status = "fail", !.err = [path |-> path, kind |-> "decision"]]
  ELSE IF IsGate(nd) THEN
     LET d == Decide(nd, RawDecision(nd, idx, args))
         e == [key |-> CacheKey(nd, args), outs |-> NodeOuts(nd, args), dec |-> d]
     IN [base EXCEPT !.outs = NodeOuts(nd, args), !.dec = d,
                     !.w = IF nd.cache THEN [w1 EXCEPT !.cache = CachePut(w1.cache, w1.cap, e)] ELSE w1]
  ELSE LET e == [key |-> CacheKey(nd, args), outs |-> NodeOuts(nd, args), dec |-> NoDec]
           \* the list a generator node produces becomes a known list value (it may be mapped over downstream)
           gl == IF nd.fn = "gen" /\ nd.ndata >= 1 THEN {BodyVal(nd, nd.olabels[1], args)} ELSE {}
           w2 == [w1 EXCEPT !.lists = [t \in (DOMAIN w1.lists) \cup gl |->
                                         IF t \in gl THEN GenItems(nd, nd.olabels[1], args) ELSE w1.lists[t]]]
       IN [base EXCEPT !.outs = NodeOuts(nd, args),
                       !.w = IF nd.cache THEN [w2 EXCEPT !.cache = CachePut(w2.cache, w2.cap, e)] ELSE w2]

\* acc = [st, first, err, pause]; snap = state at the start of the step.
\* first \in {"none", "fail", "pause"}: kind of the first non-successful node in LIST order
\* (sync: the run stops there; async: gather reports the first exception in list order).
StepFold(pr, prefix, snap, acc, rs, i, mode) ==
  IF i > Len(rs) THEN acc
  ELSE
  LET nd == pr.nodes[rs[i]]
      ex == ExecNode(pr, prefix, nd, Args(pr, snap, nd), acc.st, snap.steps + 1, mode)
      stc == [acc.st EXCEPT !.w = ex.w]
  IN
  IF ex.status = "ok" THEN
     LET stD == [stc EXCEPT !.w.done = stc.w.done \o <<[path |-> Path(prefix, nd.name), frame |-> prefix,
                                                         node |-> nd.name, step |-> snap.steps + 1]>>]
         st1 == Record(ApplyOuts(stD, ex.outs, 1), nd, snap)
         st2 == IF ex.dec # NoDec THEN [st1 EXCEPT !.dec = Put(st1.dec, nd.name, ex.dec)] ELSE st1
     IN StepFold(pr, prefix, snap, [acc EXCEPT !.st = st2], rs, i + 1, mode)
  ELSE IF ex.status = "fail" THEN
     LET acc1 == IF acc.first = "none" THEN [acc EXCEPT !.st = stc, !.first = "fail", !.err = ex.err]
                 ELSE [acc EXCEPT !.st = stc]
     IN IF mode = "sync" THEN acc1                      \* sequential: stop at the first failure
        ELSE StepFold(pr, prefix, snap, acc1, rs, i + 1, mode)  \* gather: siblings still complete
  ELSE \* pause (async only)
     LET pz == [ex.pause EXCEPT !.path = IF IsGraph(nd) THEN nd.name \o "/" \o ex.pause.path ELSE ex.pause.path]
         acc1 == IF acc.first = "none" THEN [acc EXCEPT !.st = stc, !.first = "pause", !.pause = pz]
                 ELSE [acc EXCEPT !.st = stc]
     IN StepFold(pr, prefix, snap, acc1, rs, i + 1, mode)

Result(status, st, err, pause, pre) ==
  [status |-> status, vals |-> st.vals, err |-> err, pause |-> pause, pre |-> pre,
   steps |-> st.steps, w |-> st.w, calls |-> st.w.calls, done |-> st.w.done]

Loop(pr, prefix, st, mode, unused) ==
  LET rs == ReadySeq(pr, st, mode) IN
  IF rs = <<>> THEN Result("completed", st, NoErr, NoPause, st.vals)
  ELSE IF st.steps >= pr.max_iter THEN Result("failed", st, [path |-> prefix, kind |-> "infinite"], NoPause, st.vals)
  ELSE LET snap == [st EXCEPT !.dec = DecClean(pr, st)]
           acc  == StepFold(pr, prefix, snap,
                            [st |-> snap, first |-> "none", err |-> NoErr, pause |-> NoPause], rs, 1, mode)
           obs  == [snap EXCEPT !.w = acc.st.w]
       IN IF acc.first = "fail" THEN Result("failed", acc.st, acc.err, NoPause, snap.vals)
          ELSE IF acc.first = "pause" THEN Result("paused", obs, NoErr, acc.pause, snap.vals)  \* pre-step state
          ELSE Loop(pr, prefix, [acc.st EXCEPT !.steps = st.steps + 1], mode, unused)

\* provided: seq of <<name, value>>
RunProg(pr, prefix, provided, w, mode) ==
  Loop(pr, prefix,
       [vals |-> PairsToMap(provided), vers |-> [x \in PairKeys(provided) |-> 1],
        last |-> EmptyMap, dec |-> EmptyMap, steps |-> 0, w |-> w],
       mode, 0)
=======================================================================
