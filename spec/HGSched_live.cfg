SPECIFICATION Spec
CONSTANT Bug = "none"
INVARIANT Bounded
INVARIANT PermitsOK
INVARIANT AllRan
PROPERTY Terminates
VIEW ViewNoOrder
CHECK_DEADLOCK TRUE
