SPECIFICATION Spec
INVARIANT Progress
CHECK_DEADLOCK FALSE
