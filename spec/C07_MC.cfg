SPECIFICATION Spec
CONSTANTS
  D <- MC_D
  Scenario <- MC_Scenario
  Ops <- MC_Ops
  Wide <- MC_Wide
  EmitHist <- MC_Emit
  FullIndep <- MC_Full
INVARIANT Independent
INVARIANT OneNew
INVARIANT WellFormed
INVARIANT Emit
PROPERTY AppendOnly
CHECK_DEADLOCK FALSE
