SPECIFICATION Spec
CONSTANT Prop = "C03"
INVARIANT Emit
INVARIANT L1Holds
CHECK_DEADLOCK FALSE
