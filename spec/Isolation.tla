---------------------------- MODULE Isolation ----------------------------
(***************************************************************************)
(* C18 -- run isolation.  Several runs (sequential or interleaved) of one  *)
(* graph whose node function mutates the objects it receives.  Objects     *)
(* have identities:                                                        *)
(*   D   the default object stored in the function's signature             *)
(*   B   the object bound with graph.bind()                                *)
(*   P_r the object the caller of run r provided                           *)
(* get_value_source / _resolve_input (runners/_shared/helpers.py): a       *)
(* signature default reaches the body as a FRESH deep copy; bound and      *)
(* provided values reach it as the very same object.                       *)
(* Each run r: Resolve(r) takes the argument objects, Mutate(r) appends    *)
(* the run's mark to each of them, Finish(r) returns what it saw.  Steps   *)
(* of different runs interleave arbitrarily (concurrent async runs); the   *)
(* sequential histories are among the behaviours.                          *)
(* CONSTANTS NRuns, Bug \in {"none", "share_default", "copy_bound",        *)
(*                           "copy_default_once"}                          *)
(***************************************************************************)
EXTENDS Naturals, Sequences, FiniteSets, TLC, Json

CONSTANTS NRuns, Bug

VARIABLES heap, nextId, run, copyCache, ops
vars == <<heap, nextId, run, copyCache, ops>>

Runs == 1..NRuns
D == 1      \* object ids
B == 2
P(r) == 2 + r

Init == /\ heap = [i \in 1..(2 + NRuns) |-> <<>>]       \* contents (sequence of marks) by object id
        /\ nextId = 3 + NRuns
        /\ run = [r \in Runs |-> [pc |-> "new", dflt |-> 0, bound |-> 0, prov |-> 0, saw |-> <<>>]]
        /\ copyCache = 0
        /\ ops = <<>>

\* the runner resolves the arguments of the node for run r
Resolve(r) ==
  /\ run[r].pc = "new"
  /\ LET fresh == nextId
         shared == Bug = "share_default" \/ (Bug = "copy_default_once" /\ copyCache # 0)
         did == IF Bug = "share_default" THEN D ELSE IF Bug = "copy_default_once" /\ copyCache # 0 THEN copyCache ELSE fresh
         bid == IF Bug = "copy_bound" THEN (IF shared THEN fresh ELSE fresh + 1) ELSE B
     IN /\ heap' = [i \in 1..(nextId + 1) |->
                      IF i = fresh /\ ~shared THEN heap[D]
                      ELSE IF i = bid /\ Bug = "copy_bound" THEN heap[B]
                      ELSE IF i \in DOMAIN heap THEN heap[i] ELSE <<>>]
        /\ nextId' = nextId + 2
        /\ copyCache' = IF Bug = "copy_default_once" /\ copyCache = 0 THEN fresh ELSE copyCache
        /\ run' = [run EXCEPT ![r] = [@ EXCEPT !.pc = "resolved", !.dflt = did, !.bound = bid, !.prov = P(r)]]
  /\ ops' = Append(ops, <<"resolve", r>>)

\* the body mutates every object it received
Mutate(r) ==
  /\ run[r].pc = "resolved"
  /\ heap' = [i \in DOMAIN heap |-> IF i \in {run[r].dflt, run[r].bound, run[r].prov} THEN Append(heap[i], r) ELSE heap[i]]
  /\ run' = [run EXCEPT ![r] = [@ EXCEPT !.pc = "mutated"]]
  /\ ops' = Append(ops, <<"mutate", r>>)
  /\ UNCHANGED <<nextId, copyCache>>

Finish(r) ==
  /\ run[r].pc = "mutated"
  /\ run' = [run EXCEPT ![r] = [@ EXCEPT !.pc = "done", !.saw = heap[run[r].dflt]]]
  /\ ops' = Append(ops, <<"finish", r>>)
  /\ UNCHANGED <<heap, nextId, copyCache>>

AllDone == \A r \in Runs : run[r].pc = "done"
Next == (\E r \in Runs : Resolve(r) \/ Mutate(r) \/ Finish(r)) \/ (AllDone /\ UNCHANGED vars)
Spec == Init /\ [][Next]_vars

(***************************************************************************)
(* Properties.                                                             *)
(***************************************************************************)
\* the function's own default object is never touched
DefaultPristine == heap[D] = <<>>
\* a run sees in its default-valued argument exactly its own mutation: the same as when it runs alone
SoloResult == \A r \in Runs : run[r].pc = "done" => run[r].saw = <<r>>
\* defaults arrive as fresh objects, bound and provided values as the very same objects
Identities == \A r \in Runs : run[r].pc # "new" =>
                 /\ run[r].dflt # D /\ \A q \in Runs : (q # r /\ run[q].pc # "new") => run[q].dflt # run[r].dflt
                 /\ run[r].bound = B /\ run[r].prov = P(r)
\* the bound object is shared on purpose: at the end it carries every run's mark
BoundShared == AllDone => Len(heap[B]) = NRuns

EmitSchedule == AllDone => PrintT(<<"SCHED", ToJson(ops)>>)
=======================================================================
