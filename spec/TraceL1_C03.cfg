SPECIFICATION Spec
CONSTANT Prop = "C03"
INVARIANT Emit
CHECK_DEADLOCK FALSE
