---------------------------- MODULE TraceL1 ----------------------------
(***************************************************************************)
(* Code -> spec: the property-level monitors of HGProps evaluated by TLC   *)
(* on call logs RECORDED from real executions (env HG_TRACES).  A trace    *)
(* item is [id, prog, provided, calls, done] where calls/done have the     *)
(* shape of the model's logs (step is 0 when the harness cannot observe    *)
(* it).  One verdict line per trace; a rejected trace names the failing    *)
(* clause.                                                                 *)
(***************************************************************************)
EXTENDS HGProps, Json, IOUtils, TLCExt

CONSTANT Prop
Traces == JsonDeserialize(IOEnv.HG_TRACES)

VARIABLES tid, res
vars == <<tid, res>>

Monitor(t) ==
  LET frames == AllFrames(t.prog, "")
      calls == t.calls
      prov == PairsToMap(t.provided)
      FP(k) == FrameProg(frames, calls[k].frame)
  IN CASE Prop = "C03" ->
            [ justified |-> \A k \in 1..Len(calls) : Justified(FP(k), calls, k) ]
       [] Prop = "C17" ->
            [ waits |-> \A k \in 1..Len(calls) :
                 LET nd == NodeByName(FP(k), calls[k].node) IN
                   (calls[k].frame = "" /\ \E w \in Names(nd.wait_for) : w \in DOMAIN prov)
                   \/ (calls[k].frame = "" /\ \E w \in Names(nd.wait_for) : \E j \in NodeIdx(t.prog) :     \* resume path of an interrupt
                          IsIntr(t.prog.nodes[j]) /\ w \in Names(t.prog.nodes[j].outputs) /\ DataOutputs(t.prog.nodes[j]) \subseteq DOMAIN prov)
                   \/ LET c == calls[k]
                          mine == {j \in Positions(calls, c.frame, c.node) : j < k}
                      IN \A w \in Names(nd.wait_for) :
                           /\ ProdsBefore(FP(k), calls, c.frame, w, k) >= 1
                           /\ mine # {} => ProdsBefore(FP(k), calls, c.frame, w, k)
                                             > ProdsBefore(FP(k), calls, c.frame, w, MaxOf(mine)) ]
       [] Prop = "C16" ->
            [ scope |-> \A k \in 1..Len(calls) : calls[k].frame = "" =>
                           IdxOf(t.prog, calls[k].node) \in Downstream(t.prog) ]
       [] OTHER -> [none |-> TRUE]

Verdict(t) == LET m == Monitor(t) IN
  [id |-> t.id, failed |-> {k \in DOMAIN m : ~m[k]}]

Init == tid \in 1..Len(Traces) /\ res = "none"
Next == /\ res = "none"
        /\ res' = ToJson(Verdict(Traces[tid]))
        /\ UNCHANGED tid
Spec == Init /\ [][Next]_vars
Emit == res # "none" => PrintT(<<"RESULT", res>>)
=======================================================================
