---------------------------- MODULE Limiter ----------------------------
(***************************************************************************)
(* C15 (call level) -- the protocol of the shared concurrency limiter:     *)
(* "one semaphore per top-level call in a ContextVar" (runners/async_/     *)
(* superstep.py _concurrency_limiter, runner.py _execute_graph_impl_async, *)
(* _shared/template_async.py run()/map()).  A HISTORY of top-level calls   *)
(* made one after the other from the same task shares the ContextVar; a    *)
(* call installs Semaphore(k) when it is given max_concurrency = k and     *)
(* none is installed, and resets it on EVERY exit (completed, failed,      *)
(* paused).  Calls that return before execution starts (empty map, map or  *)
(* run rejected by validation) install nothing.                            *)
(*                                                                         *)
(* ctx = 0: no limiter installed; ctx = k: Semaphore(k).  k = 0 in a call  *)
(* stands for max_concurrency=None.                                        *)
(***************************************************************************)
EXTENDS Naturals, Sequences, TLC, Json

CONSTANTS Ks, MaxCalls, Bug   \* Bug: "none" | "install_before_early_exit" | "no_reset_on_failure" | "no_reset_on_pause"

Kinds == {"run", "failing_run", "paused_run", "rejected_run", "map", "empty_map", "rejected_map", "failing_map"}
Early(kind) == kind \in {"rejected_run", "empty_map", "rejected_map"}

VARIABLES ctx, phase, cur, hist
vars == <<ctx, phase, cur, hist>>

NoCall == [kind |-> "none", k |-> 0, installed |-> FALSE, prev |-> 0]

Init == ctx = 0 /\ phase = "idle" /\ cur = NoCall /\ hist = <<>>

\* the call evaluates its arguments, validates, and (unless it returns early) installs its limiter
Start(kind, k) ==
  /\ phase = "idle" /\ Len(hist) < MaxCalls
  /\ LET installs == k # 0 /\ ctx = 0 /\ (~Early(kind) \/ (Bug = "install_before_early_exit" /\ kind # "rejected_run"))
     IN /\ cur' = [kind |-> kind, k |-> k, installed |-> installs, prev |-> ctx]
        /\ ctx' = IF installs THEN k ELSE ctx
  /\ phase' = "incall" /\ UNCHANGED hist

\* the call returns / raises: `finally: reset(token)`
Resets == /\ cur.installed
          /\ ~(Bug = "install_before_early_exit" /\ Early(cur.kind))
          /\ ~(Bug = "no_reset_on_failure" /\ cur.kind \in {"failing_run", "failing_map"})
          /\ ~(Bug = "no_reset_on_pause" /\ cur.kind = "paused_run")
Finish ==
  /\ phase = "incall"
  /\ hist' = Append(hist, [kind |-> cur.kind, k |-> cur.k, limit |-> ctx])     \* the limit that was in force during the call
  /\ ctx' = IF Resets THEN cur.prev ELSE ctx
  /\ phase' = "idle" /\ cur' = NoCall

Next == (\E kind \in Kinds, k \in Ks : Start(kind, k)) \/ Finish
Spec == Init /\ [][Next]_vars

\* every top-level call that executes is bounded by its OWN max_concurrency (0: unbounded)
OwnLimit == (phase = "incall" /\ ~Early(cur.kind)) => ctx = cur.k
\* between top-level calls no limiter is installed
Clean    == phase = "idle" => ctx = 0

\* histories for replay
Emit == (phase = "idle" /\ Len(hist) = MaxCalls) => PrintT(<<"HIST", ToJson(hist)>>)
=======================================================================
