SPECIFICATION Spec
CONSTANT Bug = "none"
INVARIANT Bounded
INVARIANT PermitsOK
INVARIANT AllRan
CHECK_DEADLOCK TRUE
