SPECIFICATION Spec
CONSTANT Prop = "C11"
INVARIANT Emit
INVARIANT L1Holds
CHECK_DEADLOCK FALSE
