SPECIFICATION Spec
CONSTANT Prop = "C01"
INVARIANT Emit
INVARIANT L1Holds
CHECK_DEADLOCK FALSE
