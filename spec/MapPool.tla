---------------------------- MODULE MapPool ----------------------------
(***************************************************************************)
(* runner.map(graph, ..., max_concurrency=k) of the async runner           *)
(* (_shared/template_async.py): N input combinations are queued in input   *)
(* order; min(k, N) workers take the next queued index, run the item, and  *)
(* append (result, index) in COMPLETION order; at the end the results are  *)
(* sorted back into input order.  In raise mode a failing item sets the    *)
(* stop flag: workers finish their current item and take no new one, and   *)
(* the error of the first failing item IN INPUT ORDER among the collected  *)
(* results propagates.                                                     *)
(*                                                                         *)
(* CONSTANTS  N items, K workers (0 = unlimited: all items gathered at     *)
(* once), Failing (set of item indices whose run fails), Raise (BOOLEAN),  *)
(* Bug \in {"none", "no_sort", "completion_order_error"}.                  *)
(***************************************************************************)
EXTENDS Naturals, Sequences, FiniteSets, TLC, Json

CONSTANTS N, K, Failing, Raise, Bug

VARIABLES queue, running, collected, stop, final, ops
vars == <<queue, running, collected, stop, final, ops>>

Items == 1..N
Workers == IF K = 0 THEN N ELSE IF K < N THEN K ELSE N

Init == /\ queue = [i \in 1..N |-> i]       \* input order
        /\ running = {}                     \* items being executed
        /\ collected = <<>>                 \* item indices in completion order
        /\ stop = FALSE
        /\ final = <<"pending">>
        /\ ops = <<>>

\* a worker takes the next item (get_nowait) unless the stop flag is set
Take == /\ final = <<"pending">> /\ queue # <<>> /\ ~stop
        /\ Cardinality(running) < Workers
        /\ running' = running \cup {Head(queue)}
        /\ queue' = Tail(queue)
        /\ ops' = Append(ops, <<"take", Head(queue)>>)
        /\ UNCHANGED <<collected, stop, final>>

\* an item's run returns (always a RunResult: error_handling="continue" inside)
Finish(i) == /\ final = <<"pending">> /\ i \in running
             /\ running' = running \ {i}
             /\ collected' = Append(collected, i)
             /\ stop' = (stop \/ (Raise /\ K # 0 /\ i \in Failing))
             /\ ops' = Append(ops, <<"finish", i>>)
             /\ UNCHANGED <<queue, final>>

SortAsc(s) == LET S == {s[j] : j \in 1..Len(s)}
                  RECURSIVE Srt(_)
                  Srt(T) == IF T = {} THEN <<>> ELSE LET m == CHOOSE x \in T : \A y \in T : x <= y IN <<m>> \o Srt(T \ {m})
              IN Srt(S)

\* all workers have returned: restore input order, propagate the first failure in input order
Gather == /\ final = <<"pending">> /\ running = {} /\ (queue = <<>> \/ stop)
          /\ LET res == IF Bug = "no_sort" THEN collected ELSE SortAsc(collected)
                 bad == {j \in 1..Len(res) : res[j] \in Failing}
                 firstbad == IF Bug = "completion_order_error"
                             THEN collected[CHOOSE j \in 1..Len(collected) : collected[j] \in Failing /\ \A h \in 1..(j-1) : collected[h] \notin Failing]
                             ELSE res[CHOOSE j \in bad : \A h \in bad : j <= h]
             IN final' = IF Raise /\ bad # {} THEN <<"error", firstbad>> ELSE <<"ok">> \o res
          /\ UNCHANGED <<queue, running, collected, stop, ops>>

Next == Take \/ (\E i \in Items : Finish(i)) \/ Gather \/ (final # <<"pending">> /\ UNCHANGED vars)
Spec == Init /\ [][Next]_vars /\ WF_vars(Next)

(***************************************************************************)
(* Properties (C10).                                                       *)
(***************************************************************************)
\* one result per combination, in input order, whatever the completion order
InputOrder == (final # <<"pending">> /\ final[1] = "ok") => Tail(final) = [i \in 1..N |-> i]
\* raise mode: an error is reported iff some collected item failed, and it is the first failing
\* item in input order among those that ran; without failures every item ran
FirstError == (final # <<"pending">> /\ final[1] = "error") =>
                 /\ final[2] \in Failing
                 /\ \A j \in 1..Len(collected) : collected[j] \in Failing => final[2] <= collected[j]
NoSpuriousError == (final # <<"pending">> /\ Failing = {}) => final[1] = "ok"
ContinueCollectsAll == (final # <<"pending">> /\ ~Raise) => final[1] = "ok"
PoolBound == Cardinality(running) <= Workers
Terminates == <>(final # <<"pending">>)

\* behaviours for replay: the completion order at every terminal state
EmitOrder == final # <<"pending">> => PrintT(<<"ORDER", ToJson([collected |-> collected, final |-> final])>>)
ViewNoOps == <<queue, running, collected, stop, final>>
=======================================================================
