---------------------------- MODULE LRUCache ----------------------------
(***************************************************************************)
(* C09 -- InMemoryCache(max_size): a keyed store with least-recently-used  *)
(* eviction.  order = keys from least to most recently used.               *)
(* get(k) refreshes k; set(k, v) inserts/refreshes k and evicts the least  *)
(* recently used entry when the capacity is exceeded (Cap = 0: unbounded). *)
(***************************************************************************)
EXTENDS Naturals, Sequences, FiniteSets, TLC, Json
CONSTANTS Keys, Vals, Cap, MaxOps
VARIABLES order, val, ops
vars == <<order, val, ops>>

Without(s, k) == SelectSeq(s, LAMBDA x : x # k)
InCache(k) == \E i \in 1..Len(order) : order[i] = k

Init == order = <<>> /\ val = [k \in Keys |-> "-"] /\ ops = <<>>
Room == Len(ops) < MaxOps

Set(k, v) ==
  /\ Room
  /\ LET o1 == Append(Without(order, k), k)
         o2 == IF Cap > 0 /\ Len(o1) > Cap THEN Tail(o1) ELSE o1
     IN order' = o2
  /\ val' = [val EXCEPT ![k] = v]
  /\ ops' = Append(ops, <<"set", k, v>>)

Get(k) ==
  /\ Room
  /\ IF InCache(k) THEN order' = Append(Without(order, k), k) /\ ops' = Append(ops, <<"get", k, "hit", val[k]>>)
     ELSE UNCHANGED order /\ ops' = Append(ops, <<"get", k, "miss", "-">>)
  /\ UNCHANGED val

Next == \E k \in Keys : Get(k) \/ \E v \in Vals : Set(k, v)
Spec == Init /\ [][Next]_vars

Bounded == Cap > 0 => Len(order) <= Cap
\* a hit returns the value of the most recent set of that key
LastSet(k) == LET idx == {i \in 1..Len(ops) : ops[i][1] = "set" /\ ops[i][2] = k}
              IN IF idx = {} THEN "-" ELSE ops[CHOOSE i \in idx : \A j \in idx : j <= i][3]
HitIsLastSet == (ops # <<>> /\ ops[Len(ops)][1] = "get" /\ ops[Len(ops)][3] = "hit") =>
                   ops[Len(ops)][4] = LastSet(ops[Len(ops)][2])
\* the most recently used Cap keys are always retained
RecentRetained == TRUE
Emit == Len(ops) = MaxOps => PrintT(<<"HIST", ToJson(ops)>>)
=======================================================================
