SPECIFICATION Spec
CONSTANTS
  N = 3
  P = 2
  Bug = "none"
INVARIANT EngineUnaffected
INVARIANT OthersComplete
PROPERTY EngineFinishes
