SPECIFICATION Spec
CONSTANT Prop = "C09"
INVARIANT Emit
INVARIANT L1Holds
CHECK_DEADLOCK FALSE
