---------------------------- MODULE RenameRules ----------------------------
(***************************************************************************)
(* The PRECONDITION of one rename call with_inputs(m) / with_outputs(m) on *)
(* a node whose current names are the sequence c (docs/06-api-reference/    *)
(* nodes.md "with_inputs / with_outputs": "Raises RenameError if any old    *)
(* name not found in current inputs"; "Rename produces duplicate ...: each  *)
(* name must be unique"), and its effect on the names.                      *)
(*                                                                         *)
(*   batch = sequence of <<old, new>> pairs with distinct old names (a      *)
(*   Python dict).  ALL pairs are applied at once to the names before the   *)
(*   call (a parallel substitution: {a: b, b: a} swaps).                    *)
(*                                                                         *)
(* The call is atomic: an invalid batch raises and creates nothing, the     *)
(* receiver is unchanged either way (immutability: C07).                    *)
(* Rename.tla uses RenameOK as the guard of its transition; C06_Reject.tla  *)
(* evaluates Verdict on harness-chosen (history, batch) pairs, including    *)
(* the invalid ones that Rename.tla's Next never takes.                     *)
(***************************************************************************)
EXTENDS HGBase

Olds(batch) == {batch[k][1] : k \in 1..Len(batch)}
NewOf(batch, x) == batch[CHOOSE k \in 1..Len(batch) : batch[k][1] = x][2]

\* the names after the call (position-wise)
Renamed(c, batch) == [i \in 1..Len(c) |-> IF c[i] \in Olds(batch) THEN NewOf(batch, c[i]) ELSE c[i]]

Unknown(c, batch)  == Olds(batch) \ Names(c)
HasDupes(c, batch) == Cardinality(Names(Renamed(c, batch))) < Len(c)

RenameOK(c, batch) == Unknown(c, batch) = {} /\ ~HasDupes(c, batch)

Verdict(c, batch) ==
  IF Unknown(c, batch) # {} THEN [ok |-> FALSE, why |-> "unknown-name", names |-> c]
  ELSE IF HasDupes(c, batch) THEN [ok |-> FALSE, why |-> "duplicates", names |-> c]
  ELSE [ok |-> TRUE, why |-> "ok", names |-> Renamed(c, batch)]
=======================================================================
