---------------------------- MODULE HGSched ----------------------------
(***************************************************************************)
(* Schedule-level specification of the async runner: which node bodies     *)
(* may be executing at the same instant, in which orders they may          *)
(* complete, and how the global concurrency limit is shared by nested      *)
(* graphs and map items (runners/async_/runner.py, superstep.py,           *)
(* executors/function_node.py, executors/graph_node.py,                    *)
(* _shared/template_async.py map()).                                       *)
(*                                                                         *)
(* Values are abstracted away.  What runs in which superstep of which      *)
(* frame is a deterministic function of the program (value level,          *)
(* HGEngine) and is given here as a PLAN TREE (env HG_PLANS, produced by   *)
(* harness/plans.py from the engine model's call log):                     *)
(*   Tasks[t]  = [frame, step, kind \in {"leaf","graph","map"},            *)
(*                kids (child frame ids), pos (position in its step)]      *)
(*   Frames[f] = [ptask (0 for the root), nsteps, item (index in a map     *)
(*                or 0)]                                                   *)
(* K = max_concurrency (0 = unlimited).                                    *)
(*                                                                         *)
(* One action per critical section of the code:                            *)
(*   Begin(t)      the superstep creates the task of node t (gather, in    *)
(*                 list order); a leaf asks for a permit (FIFO), a graph   *)
(*                 or map node starts its child run(s) without a permit    *)
(*   Acquire       `async with semaphore` grants the oldest waiter         *)
(*   Complete(t)   the body returns and releases its permit; a graph/map   *)
(*                 node completes when its child run(s) have finished      *)
(*   StartItem(f)  a map worker takes the next item from the queue         *)
(*   StepDone(f)   gather returns: the frame moves to its next superstep   *)
(***************************************************************************)
EXTENDS HGBase, Json, IOUtils, TLC, TLCExt

CONSTANT Bug            \* "none" | "permit_at_graphnode" (graph/map nodes hold a permit while their children run) | "no_permit"
                        \* | "sync_no_permit" (synchronous functions run without a permit)

Plans == JsonDeserialize(IOEnv.HG_PLANS)

VARIABLES pid, tstate, fstep, permits, waitq, order
vars == <<pid, tstate, fstep, permits, waitq, order>>

Plan   == Plans[pid]
Tasks  == Plan.tasks
Frames == Plan.frames
K      == Plan.k
TIds   == 1..Len(Tasks)
FIds   == 1..Len(Frames)
Limited == K > 0

NeedsPermit(t) == Limited /\ Bug # "no_permit"
                  /\ ((Tasks[t].kind = "leaf" /\ Tasks[t].permit /\ ~(Bug = "sync_no_permit" /\ Tasks[t].instant))
                      \/ (Bug = "permit_at_graphnode" /\ Tasks[t].kind # "leaf"))
FrameTasks(f, s) == {t \in TIds : Tasks[t].frame = f /\ Tasks[t].step = s}
FrameDone(f)     == fstep[f] > Frames[f].nsteps
FrameActive(f)   == fstep[f] >= 1 /\ ~FrameDone(f)

Init == /\ pid \in 1..Len(Plans)
        /\ tstate = [t \in 1..Len(Plans[pid].tasks) |-> "idle"]
        /\ fstep = [f \in 1..Len(Plans[pid].frames) |-> IF f = 1 THEN 1 ELSE 0]
        /\ permits = Plans[pid].k
        /\ waitq = <<>>
        /\ order = <<>>

\* gather creates the tasks of a superstep in list order
Begin(t) ==
  LET f == Tasks[t].frame IN
  /\ tstate[t] = "idle" /\ FrameActive(f) /\ Tasks[t].step = fstep[f]
  /\ \A u \in FrameTasks(f, fstep[f]) : Tasks[u].pos < Tasks[t].pos => tstate[u] # "idle"
  /\ IF NeedsPermit(t)
     THEN tstate' = [tstate EXCEPT ![t] = "waiting"] /\ waitq' = Append(waitq, t) /\ UNCHANGED fstep
     ELSE IF Tasks[t].kind = "leaf" /\ Tasks[t].instant
     THEN \* a synchronous body (gate, sync function) runs to completion inside its task: no interleaving
          tstate' = [tstate EXCEPT ![t] = "done"] /\ UNCHANGED <<waitq, fstep>>
     ELSE /\ tstate' = [tstate EXCEPT ![t] = "running"] /\ UNCHANGED waitq
          /\ IF Tasks[t].kind = "graph"
             THEN fstep' = [f2 \in FIds |-> IF f2 \in Names(Tasks[t].kids) THEN 1 ELSE fstep[f2]]
             ELSE IF Tasks[t].kind = "map" \/ (Tasks[t].kind = "pool" /\ ~Limited)   \* GraphNode.map_over: runner.map without max_concurrency gathers all items
             THEN fstep' = [f2 \in FIds |-> IF f2 \in Names(Tasks[t].kids) THEN 1 ELSE fstep[f2]]
             ELSE UNCHANGED fstep
  /\ UNCHANGED <<pid, permits, order>>

\* a map with max_concurrency=k runs min(k, n) workers; each takes the next queued item
ActiveItems(t) == {f \in Names(Tasks[t].kids) : FrameActive(f)}
StartItem(f) ==
  LET t == Frames[f].ptask IN
  /\ t # 0 /\ Tasks[t].kind = "pool" /\ Limited      \* top-level runner.map(max_concurrency=k)
  /\ tstate[t] = "running" /\ fstep[f] = 0
  /\ \A g \in Names(Tasks[t].kids) : Frames[g].item < Frames[f].item => fstep[g] # 0
  /\ Cardinality(ActiveItems(t)) < Min2(K, Len(Tasks[t].kids))
  /\ fstep' = [fstep EXCEPT ![f] = 1]
  /\ UNCHANGED <<pid, tstate, permits, waitq, order>>

Acquire ==
  /\ waitq # <<>> /\ permits > 0
  /\ waitq' = Tail(waitq)
  /\ IF Tasks[Head(waitq)].kind = "leaf" /\ Tasks[Head(waitq)].instant
     THEN \* a synchronous function holds its permit only for the duration of its (atomic) call
          tstate' = [tstate EXCEPT ![Head(waitq)] = "done"] /\ UNCHANGED permits
     ELSE tstate' = [tstate EXCEPT ![Head(waitq)] = "running"] /\ permits' = permits - 1
  /\ UNCHANGED <<pid, fstep, order>>

Complete(t) ==
  /\ tstate[t] = "running"
  /\ Tasks[t].kind # "leaf" => \A f \in Names(Tasks[t].kids) : FrameDone(f)
  /\ tstate' = [tstate EXCEPT ![t] = "done"]
  /\ permits' = IF NeedsPermit(t) THEN permits + 1 ELSE permits
  /\ order' = IF Tasks[t].kind = "leaf" THEN Append(order, t) ELSE order
  /\ UNCHANGED <<pid, fstep, waitq>>

StepDone(f) ==
  /\ FrameActive(f)
  /\ \A t \in FrameTasks(f, fstep[f]) : tstate[t] = "done"
  /\ fstep' = [fstep EXCEPT ![f] = fstep[f] + 1]
  /\ UNCHANGED <<pid, tstate, permits, waitq, order>>

Finished == FrameDone(1)
Next == \/ \E t \in TIds : Begin(t) \/ Complete(t)
        \/ \E f \in FIds : StartItem(f) \/ StepDone(f)
        \/ Acquire
        \/ (Finished /\ UNCHANGED vars)

Spec == Init /\ [][Next]_vars /\ WF_vars(Next)

(***************************************************************************)
(* Properties (C15).                                                       *)
(***************************************************************************)
InFlight  == Cardinality({t \in TIds : Tasks[t].kind = "leaf" /\ Tasks[t].permit /\ tstate[t] = "running"})
Bounded   == Limited => InFlight <= K
PermitsOK == Limited => (permits >= 0 /\ permits <= K)
\* a synchronous function body (it runs to completion inside one action) also counts while it executes:
\* it may only execute when fewer than K bodies are in flight
SyncFits  == [][\A t \in TIds : (Tasks[t].kind = "leaf" /\ Tasks[t].permit /\ Tasks[t].instant
                                  /\ tstate[t] # "done" /\ tstate'[t] = "done") => (~Limited \/ InFlight < K)]_vars
\* every leaf completes exactly once by the end
AllRan    == Finished => \A t \in TIds : tstate[t] = "done"
Terminates == <>Finished

ViewNoOrder == <<pid, tstate, fstep, permits, waitq>>

\* schedules for replay: the completion order of leaf bodies at every terminal state
EmitSchedule == Finished => PrintT(<<"SCHED", ToJson([id |-> Plan.id, order |-> [i \in 1..Len(order) |-> Tasks[order[i]].path]])>>)
=======================================================================
