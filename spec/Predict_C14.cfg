SPECIFICATION Spec
CONSTANT Prop = "C14"
INVARIANT Emit
INVARIANT L1Holds
CHECK_DEADLOCK FALSE
