SPECIFICATION Spec0
INVARIANT Emit
INVARIANT Laws
CHECK_DEADLOCK FALSE
