---------------------------- MODULE Validate ----------------------------
(***************************************************************************)
(* C19, first clause: which graph descriptions the constructor must        *)
(* reject.  A declarative structural-validity predicate over a JSON         *)
(* program description (IR in harness/c19_gen.py), written from the         *)
(* property text and the documentation (docs/06-api-reference/graph.md      *)
(* "GraphConfigError", "Explicit Edges", "Type Validation";                 *)
(* docs/06-api-reference/gates.md "At Graph Build Time";                    *)
(* docs/03-patterns/03-agentic-loops.md "Shared Outputs in a Cycle";        *)
(* docs/06-api-reference/nodes.md emit / wait_for).                         *)
(*                                                                         *)
(*   prog = [name, strict, explicit, edges, nodes, lex]                     *)
(*   edge = [src, dst, auto, vals]                                          *)
(*   node = [name, kind, inputs, outputs, emit, wait_for, defaults,         *)
(*           targets, multi, intypes, outtypes, sub]                        *)
(*                                                                         *)
(* Nodes are identified by their index in prog.nodes (names may be          *)
(* duplicated in a flawed program).                                         *)
(*                                                                         *)
(* Every operator that looks at topology takes a flag `impl`:               *)
(*   impl = FALSE  the declarative reading (the verdict of the check);      *)
(*   impl = TRUE   the same rules evaluated on the edge relation the        *)
(*                 implementation materialises (one data / ordering edge    *)
(*                 per value, from the FIRST producer in node-list order;   *)
(*                 ordering edges carry a value name and are type-checked). *)
(* The second verdict never decides anything: the harness uses it only to   *)
(* give a disagreement a narrow witness class ("the code behaves as if      *)
(* ...").                                                                    *)
(***************************************************************************)
EXTENDS TypeCompat

-----------------------------------------------------------------------------
(* lexical rules *)
Lower  == {"a","b","c","d","e","f","g","h","i","j","k","l","m","n","o","p","q","r","s","t","u","v","w","x","y","z"}
Upper  == {"A","B","C","D","E","F","G","H","I","J","K","L","M","N","O","P","Q","R","S","T","U","V","W","X","Y","Z"}
Digits == {"0","1","2","3","4","5","6","7","8","9"}
Keywords == {"False","None","True","and","as","assert","async","await","break","class",
             "continue","def","del","elif","else","except","finally","for","from","global",
             "if","import","in","is","lambda","nonlocal","not","or","pass","raise","return",
             "try","while","with","yield"}

Chars(p, s) == PairGet(p.lex, s)
IsIdentifier(cs) == /\ Len(cs) > 0
                    /\ cs[1] \in Lower \cup Upper \cup {"_"}
                    /\ \A i \in 1..Len(cs) : cs[i] \in Lower \cup Upper \cup Digits \cup {"_"}
LegalIdent(p, s)     == IsIdentifier(Chars(p, s)) /\ s \notin Keywords
LegalGraphName(p, s) == \A i \in 1..Len(Chars(p, s)) : Chars(p, s)[i] \notin {".", "/"}

-----------------------------------------------------------------------------
(* vocabulary *)
Idx(p)        == 1..Len(p.nodes)
Node(p, i)    == p.nodes[i]
Ins(n)        == Names(n.inputs)
Outs(n)       == Names(n.outputs) \cup Names(n.emit)     \* data outputs and emitted signals
IsGate(n)     == n.kind \in {"route", "ifelse"}
Exclusive(n)  == n.kind = "ifelse" \/ (n.kind = "route" /\ ~n.multi)
\* "END" denotes the END sentinel; a route gate's fallback is one more target ("Add fallback to targets")
StrTargets(n) == (Names(n.targets) \cup (IF n.fallback = None THEN {} ELSE {n.fallback})) \ {"END"}
(* gate DEFINITION rules, checked by the node constructors (docs/06-api-reference/gates.md: routing   *)
(* functions are plain synchronous functions; the string "END" is not a target -- use the END        *)
(* sentinel --; a route gate needs at least one target; fallback and multi_target exclude each other) *)
EndStr == "~ENDSTR"
GateDefOK(n) ==
  /\ n.fnkind = "plain"
  /\ EndStr \notin Names(n.targets) /\ n.fallback # EndStr
  /\ n.kind = "route" => Len(n.targets) > 0 /\ ~(n.multi /\ n.fallback # None)
NodeNames(p)  == {Node(p, i).name : i \in Idx(p)}
ByName(p, s)  == CHOOSE i \in Idx(p) : Node(p, i).name = s
AllOuts(p)    == UNION {Outs(Node(p, i)) : i \in Idx(p)}
Prod(p, o)    == {i \in Idx(p) : o \in Outs(Node(p, i))}  \* producers of a name
First(S)      == CHOOSE i \in S : \A j \in S : i <= j
(* who feeds a value: every producer (declarative) / the first one (impl) *)
Feeders(p, o, impl) == IF Prod(p, o) = {} THEN {}
                       ELSE IF impl THEN {First(Prod(p, o))} ELSE Prod(p, o)

EdgeVals(p, e) ==      \* values carried by an explicit edge
  IF e.auto THEN Ins(Node(p, ByName(p, e.dst))) \cap Outs(Node(p, ByName(p, e.src)))
  ELSE Names(e.vals)

-----------------------------------------------------------------------------
(* edge relations, as sets of <<from, to>> over node indices *)
DataEdges(p, impl, banned) ==    \* name-matched data flow, ignoring the values in `banned`
  {uv \in Idx(p) \X Idx(p) :
     \E x \in Ins(Node(p, uv[2])) \ banned : uv[1] \in Feeders(p, x, impl)}
DeclaredEdges(p) ==
  {<<ByName(p, p.edges[k].src), ByName(p, p.edges[k].dst)>> : k \in 1..Len(p.edges)}
ControlEdges(p) ==
  {gt \in Idx(p) \X Idx(p) :
     IsGate(Node(p, gt[1])) /\ Node(p, gt[2]).name \in StrTargets(Node(p, gt[1]))}
WaitEdges(p, impl) ==
  {uv \in Idx(p) \X Idx(p) :
     /\ uv[1] # uv[2]
     /\ \E w \in Names(Node(p, uv[2]).wait_for) : uv[1] \in Feeders(p, w, impl)}

(* the topology of the graph: declared edges in explicit mode, name-matched *)
(* data flow otherwise; gate->target and producer->waiter always            *)
Topology(p, impl) ==
  (IF p.explicit THEN DeclaredEdges(p) ELSE DataEdges(p, impl, {}))
    \cup ControlEdges(p) \cup WaitEdges(p, impl)

RECURSIVE ReachSet(_, _)
ReachSet(E, S) ==
  LET S2 == S \cup {uv[2] : uv \in {e \in E : e[1] \in S}}
  IN IF S2 = S THEN S ELSE ReachSet(E, S2)
Path(E, a, b) == b \in ReachSet(E, {a})

-----------------------------------------------------------------------------
(* duplicate producers: exclusive gate branches, or ordered *)
TargetIdx(p, g) == {i \in Idx(p) : Node(p, i).name \in StrTargets(Node(p, g))}
(* the branch of target t of gate g: t itself (an exclusive gate activates  *)
(* exactly one of its targets per decision: "exactly one target runs, so    *)
(* same output names are allowed") and everything that is reachable from t  *)
(* and from no other target of g.                                           *)
(* impl: t belongs to its own branch only if no other target reaches it.    *)
Branch(p, E, g, t, impl) ==
  (IF impl THEN {} ELSE {t})
    \cup (ReachSet(E, {t}) \ UNION {ReachSet(E, {t2}) : t2 \in TargetIdx(p, g) \ {t}})
Mutex(p, E, a, b, impl) ==
  \E g \in Idx(p) :
    /\ Exclusive(Node(p, g))
    /\ \E t1 \in TargetIdx(p, g) : \E t2 \in TargetIdx(p, g) \ {t1} :
         a \in Branch(p, E, g, t1, impl) /\ b \in Branch(p, E, g, t2, impl)

(* names contested among the producers of o *)
Contested(p, o) ==
  {o2 \in AllOuts(p) : Cardinality(Prod(p, o2)) > 1 /\ Cardinality(Prod(p, o) \cap Prod(p, o2)) > 1}

(* auto mode: a directed path after removing the contested data edges;      *)
(* explicit mode: a directed path in the declared topology                  *)
OrderEdges(p, o, impl) ==
  IF p.explicit THEN Topology(p, impl)
  ELSE DataEdges(p, FALSE, Contested(p, o)) \cup ControlEdges(p) \cup WaitEdges(p, FALSE)
Ordered(p, o, a, b, impl) ==
  LET E == OrderEdges(p, o, impl) IN Path(E, a, b) \/ Path(E, b, a)

DuplicateProducersOK(p, impl) ==
  \A o \in AllOuts(p) : \A a \in Prod(p, o) : \A b \in Prod(p, o) :
    a < b => (Mutex(p, Topology(p, impl), a, b, impl) \/ Ordered(p, o, a, b, impl))

-----------------------------------------------------------------------------
(* defaults of a shared parameter: all-or-none and equal values.  A nested  *)
(* graph exposes the defaults of its inner consumers.                       *)
(* a nested graph node may expose an inner input under another name:       *)
(* n.ren = <<inner, exposed>> pairs (as_node().with_inputs(inner=exposed))  *)
InnerName(n, x) == IF \E k \in 1..Len(n.ren) : n.ren[k][2] = x
                   THEN n.ren[CHOOSE k \in 1..Len(n.ren) : n.ren[k][2] = x][1] ELSE x
RECURSIVE HasDefault(_, _)
HasDefault(n, x) ==
  IF n.kind = "graph"
  THEN LET q == n.sub[1]
           y == InnerName(n, x)
           C == {i \in Idx(q) : y \in Ins(Node(q, i))}
       IN C # {} /\ \A i \in C : HasDefault(Node(q, i), y)
  ELSE HasPair(n.defaults, x)
RECURSIVE DefaultOf(_, _)
DefaultOf(n, x) ==
  IF n.kind = "graph"
  THEN LET q == n.sub[1]
           y == InnerName(n, x)
       IN DefaultOf(Node(q, First({i \in Idx(q) : y \in Ins(Node(q, i))})), y)
  ELSE PairGet(n.defaults, x)

DefaultsOK(p) ==
  \A i \in Idx(p) : \A j \in Idx(p) : \A x \in Ins(Node(p, i)) \cap Ins(Node(p, j)) :
    i < j =>
      /\ HasDefault(Node(p, i), x) = HasDefault(Node(p, j), x)
      /\ HasDefault(Node(p, i), x) => DefaultOf(Node(p, i), x) = DefaultOf(Node(p, j), x)

-----------------------------------------------------------------------------
(* strict mode: every data edge is annotated on both ends and the producer  *)
(* type satisfies the consumer type                                         *)
TypeOf(pairs, x) == IF HasPair(pairs, x) THEN PairGet(pairs, x) ELSE NoAnn
DataFlows(p, impl) ==        \* <<producer, consumer, value>>
  IF p.explicit
  THEN UNION {{<<ByName(p, p.edges[k].src), ByName(p, p.edges[k].dst), x>> : x \in EdgeVals(p, p.edges[k])}
              : k \in 1..Len(p.edges)}
  ELSE UNION {UNION {{<<u, v, x>> : u \in Feeders(p, x, impl)} : x \in Ins(Node(p, v))} : v \in Idx(p)}
(* impl only: an ordering edge producer->waiter that is not also a data,    *)
(* control or declared edge is materialised with the awaited name as value  *)
OrderingOnly(p) ==
  {uv \in WaitEdges(p, TRUE) :
     uv \notin (IF p.explicit THEN DeclaredEdges(p) ELSE DataEdges(p, TRUE, {})) \cup ControlEdges(p)}
Annotated(p, impl) ==
  /\ \A f \in DataFlows(p, impl) :
       /\ TypeOf(Node(p, f[1]).outtypes, f[3]).k # "~none"
       /\ TypeOf(Node(p, f[2]).intypes, f[3]).k # "~none"
  /\ impl => OrderingOnly(p) = {}
TypesFit(p, impl) ==
  \A f \in DataFlows(p, impl) :
    Compat(TypeOf(Node(p, f[1]).outtypes, f[3]), TypeOf(Node(p, f[2]).intypes, f[3]))

-----------------------------------------------------------------------------
(* one level: the first clause that fails, "ok" when the graph is valid *)
Reason(p, impl) ==
  IF p.name # None /\ ~LegalGraphName(p, p.name) THEN "graph-name"
  ELSE IF \E i \in Idx(p) : \E j \in Idx(p) : i # j /\ Node(p, i).name = Node(p, j).name
    THEN "duplicate-node-name"
  ELSE IF \E i \in Idx(p) :
            \/ Node(p, i).name = "END"
            \/ (IF Node(p, i).kind = "graph" THEN ~LegalGraphName(p, Node(p, i).name)
                ELSE ~LegalIdent(p, Node(p, i).name))
    THEN "node-name"
  ELSE IF \E i \in Idx(p) : Node(p, i).kind # "graph" /\ \E o \in Outs(Node(p, i)) : ~LegalIdent(p, o)
    THEN "output-name"
  ELSE IF p.explicit /\ \E k \in 1..Len(p.edges) : {p.edges[k].src, p.edges[k].dst} \ NodeNames(p) # {}
    THEN "edge-unknown-node"
  ELSE IF p.explicit /\ \E k \in 1..Len(p.edges) :
            /\ ~p.edges[k].auto
            /\ \E x \in Names(p.edges[k].vals) :
                 \/ x \notin Outs(Node(p, ByName(p, p.edges[k].src)))
                 \/ x \notin Ins(Node(p, ByName(p, p.edges[k].dst)))
    THEN "edge-unknown-value"
  ELSE IF \E g \in Idx(p) : IsGate(Node(p, g)) /\ StrTargets(Node(p, g)) \ NodeNames(p) # {}
    THEN "gate-unknown-target"
  ELSE IF \E g \in Idx(p) : IsGate(Node(p, g)) /\ Node(p, g).name \in StrTargets(Node(p, g))
    THEN "gate-self-target"
  ELSE IF \E g \in Idx(p) :
            /\ Node(p, g).kind = "route" /\ Node(p, g).multi
            /\ \E t1 \in TargetIdx(p, g) : \E t2 \in TargetIdx(p, g) \ {t1} :
                 Outs(Node(p, t1)) \cap Outs(Node(p, t2)) # {}
    THEN "multi-target-shared-output"
  ELSE IF ~DuplicateProducersOK(p, impl) THEN "duplicate-producer"
  ELSE IF ~DefaultsOK(p) THEN "inconsistent-defaults"
  ELSE IF \E i \in Idx(p) : \E w \in Names(Node(p, i).wait_for) : Prod(p, w) = {}
    THEN "wait-for-unproduced"
  ELSE IF p.strict /\ ~Annotated(p, impl) THEN "missing-annotation"
  ELSE IF p.strict /\ ~TypesFit(p, impl) THEN "type-mismatch"
  ELSE "ok"

(* the whole tree, in construction order: a nested graph is built (and must *)
(* be rejected) before the graph that contains it                           *)
RECURSIVE Scan(_, _, _, _)
Scan(p, path, impl, k) ==
  IF k > Len(p.nodes)
  THEN LET r == Reason(p, impl) IN [valid |-> r = "ok", reason |-> r, where |-> path]
  ELSE IF Node(p, k).kind = "graph"
       THEN LET v == Scan(Node(p, k).sub[1], path \o "/" \o Node(p, k).name, impl, 1)
            IN IF v.valid THEN Scan(p, path, impl, k + 1) ELSE v
       ELSE IF IsGate(Node(p, k)) /\ ~GateDefOK(Node(p, k))      \* the node constructor raises before the graph exists
            THEN [valid |-> FALSE, reason |-> "gate-definition", where |-> path]
            ELSE Scan(p, path, impl, k + 1)

Valid(p)   == Scan(p, "", FALSE, 1).valid
Verdict(p) == LET d == Scan(p, "", FALSE, 1)
                  m == Scan(p, "", TRUE, 1)
              IN [valid |-> d.valid, reason |-> d.reason, where |-> d.where,
                  ivalid |-> m.valid, ireason |-> m.reason, iwhere |-> m.where]
=======================================================================
