SPECIFICATION Spec
CONSTANTS
  Ks = {0, 1, 3}
  MaxCalls = 2
  Bug = "install_before_early_exit"
INVARIANT OwnLimit
INVARIANT Clean
CHECK_DEADLOCK FALSE
