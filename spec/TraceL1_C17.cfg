SPECIFICATION Spec
CONSTANT Prop = "C17"
INVARIANT Emit
CHECK_DEADLOCK FALSE
