SPECIFICATION Spec
CONSTANTS
  N = 3
  K = 2
  Failing = {}
  Raise = FALSE
  Bug = "none"
INVARIANT InputOrder
INVARIANT FirstError
INVARIANT NoSpuriousError
INVARIANT ContinueCollectsAll
INVARIANT PoolBound
INVARIANT EmitOrder
PROPERTY Terminates
VIEW ViewNoOps
