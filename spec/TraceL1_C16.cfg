SPECIFICATION Spec
CONSTANT Prop = "C16"
INVARIANT Emit
CHECK_DEADLOCK FALSE
