SPECIFICATION Spec
CONSTANT Prop = "none"
INVARIANT Emit
INVARIANT L1Holds
CHECK_DEADLOCK FALSE
