------------------------------- MODULE Viz -------------------------------
(***************************************************************************)
(* C20 -- declarative oracle for the diagram data, evaluated by TLC on     *)
(* RECORDED renderer output (translation validation of every rendering).   *)
(*                                                                         *)
(* A job (one per generated graph, env C20_JOBS, written by                *)
(* harness/c20_gen.py) holds                                                *)
(*   decl   the DECLARED structure, computed by the generator from its own  *)
(*          description of the program (never from hypergraph):            *)
(*            nodes  [id, parent, kind]   kind in function | gate | graph   *)
(*                   (ins, outs: port names, only to name witness classes)  *)
(*            deps   [p, c, kind, val, grp, src, via, rin, rout]             *)
(*                   p = producer LEAF id, c = consumer id (a leaf; for a   *)
(*                   control dependency the gate's target, which may be a   *)
(*                   container), kind in data | control | ordering;         *)
(*                   src / via = the two nodes of the level at which the    *)
(*                   dependency arises (p, c or containers around them);    *)
(*                   val, grp, rin, rout only name the witness class         *)
(*   flat   what Graph.to_flat_graph() lists: [id, parent, kind]            *)
(*   keys   the state keys of nodesByState / edgesByState                   *)
(*   rends  the recorded renderings, one per (expansion state, output      *)
(*          mode) of the interactive view (src = "rf"), per (depth, mode)   *)
(*          of render_graph's initial nodes/edges ("rf0") and of the       *)
(*          Mermaid source ("mm"):                                          *)
(*            expanded  the container ids expanded in that state            *)
(*            nodes     [id, ty, parent, hidden, exp]                        *)
(*                      ty in function|container|branch|data|input|end|...  *)
(*            edges     <<source, target>>                                  *)
(*                                                                         *)
(* One TLC initial state per (graph, rendering) plus one per graph         *)
(* (ri = 0: flattening, state keys, exhaustiveness of the states).         *)
(* Every verdict of the check is taken here; Python only translates.       *)
(***************************************************************************)
EXTENDS HGBase, Json, IOUtils, TLC, TLCExt

Jobs == JsonDeserialize(IOEnv.C20_JOBS)

VARIABLES gi, ri, res
vars == <<gi, ri, res>>

(***************************************************************************)
(* Declared hierarchy.                                                     *)
(***************************************************************************)
DIdx(g)      == 1..Len(g.decl.nodes)
DeclIds(g)   == {g.decl.nodes[i].id : i \in DIdx(g)}
DNode(g, n)  == g.decl.nodes[CHOOSE i \in DIdx(g) : g.decl.nodes[i].id = n]
ParentOf(g, n) == DNode(g, n).parent
KindOf(g, n)   == DNode(g, n).kind
Containers(g)  == {n \in DeclIds(g) : KindOf(g, n) = "graph"}

RECURSIVE AncSelf(_, _)
AncSelf(g, n) == IF n = None THEN {} ELSE {n} \cup AncSelf(g, ParentOf(g, n))
Anc(g, n)     == AncSelf(g, n) \ {n}
Desc(g, n)    == {m \in DeclIds(g) : n \in AncSelf(g, m)}      \* n and everything inside it

\* the type a declared node must be drawn with
TyOf(kind) == CASE kind = "function" -> "function"
                [] kind = "gate"     -> "branch"
                [] kind = "graph"    -> "container"
                [] OTHER             -> "?"

(***************************************************************************)
(* Expansion state of one rendering: visibility and representatives.       *)
(***************************************************************************)
Expanded(r)      == Names(r.expanded)
ValidState(g, S) == \A c \in S : c \in Containers(g) /\ (ParentOf(g, c) = None \/ ParentOf(g, c) \in S)
ValidStates(g)   == {S \in SUBSET Containers(g) : ValidState(g, S)}

Visible(g, r, n) == Anc(g, n) \subseteq Expanded(r)               \* all ancestors expanded
Reps(g, r, n)    == {a \in AncSelf(g, n) : Visible(g, r, a)}      \* the node itself or an enclosing visible container
Rep(g, r, n)     == CHOOSE a \in Reps(g, r, n) : Reps(g, r, n) \subseteq AncSelf(g, a)   \* the nearest one
\* what may stand for n at the end of an edge: a visible representative, or -- when n is a
\* container that is the consumer itself (gate target) -- a visible node inside it (the
\* renderer routes control edges to an entry point of an expanded container)
Stands(g, r, n)  == Reps(g, r, n) \cup {m \in Desc(g, n) : Visible(g, r, m)}

(***************************************************************************)
(* The recorded drawing.                                                   *)
(***************************************************************************)
RIdx(r)      == 1..Len(r.nodes)
AllIds(r)    == {r.nodes[i].id : i \in RIdx(r)}
ShownIdx(r)  == {i \in RIdx(r) : r.nodes[i].hidden = 0}
ShownIds(r)  == {r.nodes[i].id : i \in ShownIdx(r)}
TypeIn(r, n) == r.nodes[CHOOSE i \in RIdx(r) : r.nodes[i].id = n /\ (i \in ShownIdx(r) \/ n \notin ShownIds(r))].ty
FC           == {"function", "container", "branch"}
ShownOf(r, T) == {n \in ShownIds(r) : TypeIn(r, n) \in T}

EdgeSet(r)   == {<<r.edges[i][1], r.edges[i][2]>> : i \in 1..Len(r.edges)}
\* the front end drops an edge with a hidden endpoint: only these are DRAWN
Drawn(r)     == {e \in EdgeSet(r) : e[1] \in ShownIds(r) /\ e[2] \in ShownIds(r)}
\* producer -> consumer connections that the drawing shows: direct edges between function /
\* container / branch nodes, and two-edge paths through a DATA node (separate-outputs mode)
Eff(r) ==
  LET fc   == ShownOf(r, FC)
      dat  == ShownOf(r, {"data"})
      dr   == Drawn(r)
      into == {e \in dr : e[1] \in fc /\ e[2] \in dat}
      from == {e \in dr : e[1] \in dat /\ e[2] \in fc}
  IN {e \in dr : e[1] \in fc /\ e[2] \in fc}
     \cup {<<a[1], b[2]>> : <<a, b>> \in {x \in into \X from : x[1][2] = x[2][1]}}

(***************************************************************************)
(* Clauses.  Each returns the set / sequence of offenders (empty = holds).  *)
(***************************************************************************)
RECURSIVE SetToSeq(_)
SetToSeq(S) == IF S = {} THEN <<>> ELSE LET x == CHOOSE y \in S : TRUE IN <<x>> \o SetToSeq(S \ {x})

\* self-consistent: every edge endpoint is a declared node of that state; an edge that is not an
\* input edge has no hidden endpoint
BadEndpoint(r) == {e \in EdgeSet(r) : e[1] \notin AllIds(r) \/ e[2] \notin AllIds(r)}
HiddenEnd(r)   == {e \in EdgeSet(r) \ BadEndpoint(r) :
                     /\ TypeIn(r, e[1]) # "input"
                     /\ (e[1] \notin ShownIds(r) \/ e[2] \notin ShownIds(r))}

\* each visible node appears once (with its type, under its parent, expanded as the state says);
\* no node that the state hides is shown; nothing undeclared is shown as a function/container
OnceBad(g, r) ==
  LET shown(n) == {i \in ShownIdx(r) : r.nodes[i].id = n}
      okNode(n, i) == /\ r.nodes[i].ty = TyOf(KindOf(g, n))
                      /\ r.nodes[i].parent = ParentOf(g, n)
                      /\ (KindOf(g, n) = "graph" => r.nodes[i].exp = (IF n \in Expanded(r) THEN 1 ELSE 0))
  IN {n \in DeclIds(g) : IF Visible(g, r, n)
                         THEN Cardinality(shown(n)) # 1 \/ \E i \in shown(n) : ~okNode(n, i)
                         ELSE shown(n) # {}}
     \cup {n \in ShownOf(r, FC \cup {"unknown"}) : n \notin DeclIds(g)}
     \cup {n \in ShownIds(r) : Cardinality({i \in ShownIdx(r) : r.nodes[i].id = n}) > 1}

\* per dependency: the admissible edge sources / targets.  A representative that stands for
\* BOTH ends (a container enclosing both) joins nothing.
DepIdx(g)     == 1..Len(g.decl.deps)
SrcOf(g, r, d) == Reps(g, r, d.p) \ Stands(g, r, d.c)
TgtOf(g, r, d) == Stands(g, r, d.c) \ Reps(g, r, d.p)
\* An ordering dependency between two nodes of a level that are already linked by a data or
\* control dependency is carried by that edge: Graph documents that an ordering edge is "only
\* added if no data or control edge already exists between the pair" (graph/core.py), so no
\* separate edge is demanded for it (d.src / d.via are the two nodes of that level).
Carried(g, d) == /\ d.kind = "ordering"
                 /\ \E k \in DepIdx(g) : /\ g.decl.deps[k].kind \in {"data", "control"}
                                         /\ g.decl.deps[k].src = d.src
                                         /\ g.decl.deps[k].via = d.via
\* the dependency has two distinct visible ends (otherwise it is inside one collapsed container)
Needs(g, r, d) == /\ Rep(g, r, d.p) \notin Stands(g, r, d.c)
                  /\ Rep(g, r, d.c) \notin Reps(g, r, d.p)
                  /\ ~Carried(g, d)

\* complete: every dependency whose ends have distinct representatives is drawn between them
Missing(g, r) ==
  LET eff == Eff(r)
  IN {k \in DepIdx(g) : LET d == g.decl.deps[k] IN
        /\ Needs(g, r, d)
        /\ ~ \E s \in SrcOf(g, r, d), t \in TgtOf(g, r, d) : <<s, t>> \in eff}

\* sound: no producer -> consumer connection is drawn that corresponds to no dependency
Unsound(g, r) ==
  {e \in Eff(r) : ~ \E k \in DepIdx(g) : LET d == g.decl.deps[k] IN
                      e[1] \in SrcOf(g, r, d) /\ e[2] \in TgtOf(g, r, d)}

\* a gate that may route to END (decl.ends): whenever the gate ITSELF is on screen, the drawing has an END
\* node and an edge from the gate to it (the control dependency "this gate can finish the run")
EndMissing(g, r) ==
  {n \in Names(g.decl.ends) :
     /\ Visible(g, r, n)
     /\ ~ \E e \in Drawn(r) : e[1] = n /\ TypeIn(r, e[2]) = "end"}

RendResult(g, r, k) ==
  LET be  == BadEndpoint(r)
      he  == HiddenEnd(r)
      ob  == OnceBad(g, r)
      okh == be = {}                         \* the remaining clauses need resolvable endpoints
      mi  == IF okh THEN Missing(g, r) ELSE {}
      un  == IF okh THEN Unsound(g, r) ELSE {}
      em  == IF okh THEN EndMissing(g, r) ELSE {}
      vs  == ValidState(g, Expanded(r))
      failed == (IF be = {} /\ he = {} THEN <<>> ELSE <<"SelfConsistent">>)
                \o (IF ob = {} THEN <<>> ELSE <<"Once">>)
                \o (IF mi = {} THEN <<>> ELSE <<"Complete">>)
                \o (IF un = {} THEN <<>> ELSE <<"Sound">>)
                \o (IF em = {} THEN <<>> ELSE <<"EndEdge">>)
                \o (IF vs THEN <<>> ELSE <<"ValidState">>)
  IN [id |-> ToString(g.id) \o ":" \o ToString(k), ok |-> failed = <<>>, failed |-> failed,
      detail |-> [badEndpoint |-> SetToSeq(be), hiddenEnd |-> SetToSeq(he), once |-> SetToSeq(ob),
                  missing |-> SortedSeq(mi), unsound |-> SetToSeq(un), endMissing |-> SetToSeq(em),
                  needed |-> Cardinality({j \in DepIdx(g) : Needs(g, r, g.decl.deps[j])}),
                  eff |-> Cardinality(Eff(r))]]

(***************************************************************************)
(* Per graph: flattening, state keys, exhaustiveness of the recorded       *)
(* expansion states.                                                       *)
(***************************************************************************)
\* to_flat_graph lists every (nested) node exactly once, under its parent, with its kind
FlatBad(g) ==
  LET F == 1..Len(g.flat)
      at(n) == {i \in F : g.flat[i].id = n}
  IN {n \in DeclIds(g) : \/ Cardinality(at(n)) # 1
                         \/ \E i \in at(n) : g.flat[i].parent # ParentOf(g, n) \/ g.flat[i].kind # KindOf(g, n)}
     \cup {g.flat[i].id : i \in {j \in F : g.flat[j].id \notin DeclIds(g)}}

\* every state has both nodes and edges, and the states are exactly the expected ones
KeysOK(g) == /\ Names(g.keys.nodes) = Names(g.keys.edges)
             /\ Names(g.keys.nodes) = Names(g.keys.expected)
             /\ Len(g.keys.nodes) = Cardinality(Names(g.keys.nodes))
             /\ Len(g.keys.edges) = Cardinality(Names(g.keys.edges))

\* the recorded interactive renderings cover every valid expansion state in both output modes
StatesOf(g, src, sep) == {Expanded(g.rends[i]) : i \in {j \in 1..Len(g.rends) : g.rends[j].src = src /\ g.rends[j].sep = sep}}
Exhaustive(g) == \A sep \in {0, 1} : StatesOf(g, "rf", sep) = ValidStates(g)

GraphResult(g) ==
  LET fb == FlatBad(g)
      failed == (IF fb = {} THEN <<>> ELSE <<"FlatOK">>)
                \o (IF KeysOK(g) THEN <<>> ELSE <<"Keys">>)
                \o (IF Exhaustive(g) THEN <<>> ELSE <<"Exhaustive">>)
  IN [id |-> g.id, ok |-> failed = <<>>, failed |-> failed,
      detail |-> [flat |-> SetToSeq(fb), states |-> Cardinality(ValidStates(g))]]

(***************************************************************************)
(* One evaluation per initial state.                                       *)
(***************************************************************************)
Init == /\ gi \in 1..Len(Jobs)
        /\ ri \in 0..Len(Jobs[gi].rends)
        /\ res = "none"
Next == /\ res = "none"
        /\ res' = ToJson(IF ri = 0 THEN GraphResult(Jobs[gi])
                         ELSE RendResult(Jobs[gi], Jobs[gi].rends[ri], ri))
        /\ UNCHANGED <<gi, ri>>
Spec == Init /\ [][Next]_vars

Emit == res # "none" => PrintT(<<"RESULT", res>>)
=============================================================================
