SPECIFICATION Spec
CONSTANT Prop = "C02"
INVARIANT Emit
INVARIANT L1Holds
CHECK_DEADLOCK FALSE
