SPECIFICATION Spec
CONSTANTS
  NRuns = 2
  Bug = "none"
INVARIANT DefaultPristine
INVARIANT SoloResult
INVARIANT Identities
INVARIANT BoundShared
INVARIANT EmitSchedule
CHECK_DEADLOCK FALSE
