---------------------------- MODULE HGProps ----------------------------
(***************************************************************************)
(* Property-level (L1) definitions.  They say only what the properties     *)
(* say and are written independently of the engine's mechanisms (no        *)
(* versions, no staleness, no supersteps).  TLC checks that the engine     *)
(* model (L2, HGEngine) satisfies them on every job it evaluates           *)
(* (INVARIANT L1Holds in the Predict_* configurations); the conformance    *)
(* harness then compares the real code with the model on the same          *)
(* observables.                                                            *)
(***************************************************************************)
EXTENDS HGEngine

ProvidedMap(job) == PairsToMap(job.provided)
WorldOf(job) == [World0 EXCEPT !.lists = PairsToMap(job.lists)]

(***************************************************************************)
(* C01 -- dependency-order (denotational) evaluation of an acyclic,        *)
(* gate-free program.  Arguments come from the first available of:         *)
(* upstream output, run-time value, bound value, signature default.        *)
(***************************************************************************)
RECURSIVE CanRun(_, _, _), DenArg(_, _, _, _), DenVal(_, _, _)

UpstreamOK(pr, prov, p) == Producers(pr, p) # {} /\ CanRun(pr, prov, FirstProducer(pr, p))

CanRun(pr, prov, i) ==
  LET nd == pr.nodes[i] IN
  \A k \in 1..Len(nd.inputs) : LET p == nd.inputs[k] IN
     \/ UpstreamOK(pr, prov, p)
     \/ p \in DOMAIN prov
     \/ EffBoundHas(pr, p)
     \/ NodeHasDefault(nd, p)

DenArg(pr, prov, nd, p) ==
  IF UpstreamOK(pr, prov, p) THEN DenVal(pr, prov, p)
  ELSE IF p \in DOMAIN prov THEN prov[p]
  ELSE IF EffBoundHas(pr, p) THEN EffBoundVal(pr, p)
  ELSE NodeDefaultVal(nd, p)

DenArgs(pr, prov, nd) == [k \in 1..Len(nd.inputs) |->
                            <<nd.inputs[k], PairGet(nd.pmap, nd.inputs[k]), DenArg(pr, prov, nd, nd.inputs[k])>>]

DenVal(pr, prov, o) ==
  LET nd == pr.nodes[FirstProducer(pr, o)] IN BodyVal(nd, nd.olabels[IndexOf(nd.outputs, o)], DenArgs(pr, prov, nd))

Denote(pr, prov) ==
  [o \in {o \in Outputs(pr) : CanRun(pr, prov, FirstProducer(pr, o))
                              /\ o \in DataOutputs(pr.nodes[FirstProducer(pr, o)])} |-> DenVal(pr, prov, o)]

CallsOf(calls, path) == SelectSeq(calls, LAMBDA c : c.path = path)

\* Node i may start early: one of its parameters is fed by an upstream node and ALSO has another
\* source (default, binding, run-time value).  An early start re-triggers everything downstream,
\* so "exactly once" is claimed for nodes with no early start in their own upstream cone.
EarlyHere(pr, prov, i) ==
  \E k \in 1..Len(pr.nodes[i].inputs) : LET p == pr.nodes[i].inputs[k] IN
       UpstreamOK(pr, prov, p) /\ (NodeHasDefault(pr.nodes[i], p) \/ EffBoundHas(pr, p) \/ p \in DOMAIN prov)
RECURSIVE HasEarlyStart(_, _, _)
HasEarlyStart(pr, prov, i) ==
  \/ EarlyHere(pr, prov, i)
  \/ \E k \in 1..Len(pr.nodes[i].inputs) : LET p == pr.nodes[i].inputs[k] IN
        UpstreamOK(pr, prov, p) /\ HasEarlyStart(pr, prov, FirstProducer(pr, p))

C01(job) ==
  LET pr == job.prog
      prov == ProvidedMap(job)
      r == RunProg(pr, "", job.provided, WorldOf(job), job.mode)
      den == Denote(pr, prov)
  IN [ completes |-> r.status = "completed",
       values    |-> FilterOut(pr, r.vals, <<"**">>) = den,
       runs      |-> \A i \in NodeIdx(pr) :
                        (CallsOf(r.calls, pr.nodes[i].name) # <<>>) <=> CanRun(pr, prov, i),
       once      |-> \A i \in NodeIdx(pr) :
                        (CanRun(pr, prov, i) /\ ~HasEarlyStart(pr, prov, i))
                           => Len(CallsOf(r.calls, pr.nodes[i].name)) = 1,
       lastargs  |-> \A i \in NodeIdx(pr) : CanRun(pr, prov, i) =>
                        LET cs == CallsOf(r.calls, pr.nodes[i].name)
                        IN cs # <<>> /\ cs[Len(cs)].args = CallArgs(DenArgs(pr, prov, pr.nodes[i])) ]

\* the L1 definition itself, exported so that the real run is compared with IT
C01Aux(job) ==
  LET pr == job.prog
      prov == ProvidedMap(job)
      can == {i \in NodeIdx(pr) : CanRun(pr, prov, i)}
  IN [ den      |-> Denote(pr, prov),
       canrun   |-> {pr.nodes[i].name : i \in can},
       once     |-> {pr.nodes[i].name : i \in {i \in can : ~HasEarlyStart(pr, prov, i)}},
       lastargs |-> [n \in {pr.nodes[i].name : i \in can} |->
                        CallArgs(DenArgs(pr, prov, NodeByName(pr, n)))] ]

(***************************************************************************)
(* Frames: every (sub)graph of a program with the path under which its     *)
(* runs are logged.                                                        *)
(***************************************************************************)
RECURSIVE AllFrames(_, _)
AllFrames(pr, prefix) ==
  {[path |-> prefix, prog |-> pr]} \cup
  UNION {AllFrames(pr.nodes[i].sub, Path(prefix, pr.nodes[i].name)) : i \in GraphIdx(pr)}
FrameProg(frames, path) == (CHOOSE f \in frames : f.path = path).prog

RunOf(job) == RunProg(job.prog, "", job.provided, WorldOf(job), job.mode)
Positions(calls, frame, node) == {k \in 1..Len(calls) : calls[k].frame = frame /\ calls[k].node = node}
MaxOf(S) == CHOOSE x \in S : \A y \in S : y <= x

(***************************************************************************)
(* C03 -- gate routing, as a monitor on the call log of each frame.        *)
(* A start of a gated node is justified by some controlling gate g:        *)
(*   - g's most recent decision before that start names the node, or       *)
(*   - g is default-open and has not run yet in this run.                  *)
(* A gate and its targets never start in the same step.                    *)
(***************************************************************************)
Justified(pr, calls, k) ==
  LET c == calls[k]
      gs == ControlledBy(pr, c.node)
  IN gs = {} \/ \E i \in gs : LET g == pr.nodes[i]
         prior == {j \in Positions(calls, c.frame, g.name) : j < k}
         decided == {j \in prior : calls[j].dec # NoDec}
     IN IF decided = {} THEN g.default_open /\ prior = {}
        ELSE DecSelects(g, calls[MaxOf(decided)].dec, c.node)

GateFirst(pr, calls, k) ==      \* no target shares a step with a controlling gate
  LET c == calls[k] IN
  \A i \in ControlledBy(pr, c.node) :
     \A j \in Positions(calls, c.frame, pr.nodes[i].name) : calls[j].step # c.step

\* with closed-by-default gates only, the executed targets are exactly the ones some decision selected
AllClosed(pr) == \A i \in Gates(pr) : ~pr.nodes[i].default_open
SelectedEver(pr, calls, frame, n) ==
  \E i \in ControlledBy(pr, n) : \E j \in Positions(calls, frame, pr.nodes[i].name) :
       calls[j].dec # NoDec /\ DecSelects(pr.nodes[i], calls[j].dec, n)

C03(job) ==
  LET r == RunOf(job)
      frames == AllFrames(job.prog, "")
  IN [ justified |-> \A k \in 1..Len(r.calls) : Justified(FrameProg(frames, r.calls[k].frame), r.calls, k),
       gatefirst |-> \A k \in 1..Len(r.calls) : GateFirst(FrameProg(frames, r.calls[k].frame), r.calls, k),
       exact     |-> \A f \in frames : AllClosed(f.prog) =>
                        \A i \in NodeIdx(f.prog) : LET n == f.prog.nodes[i].name IN
                           (ControlledBy(f.prog, n) # {} /\ Positions(r.calls, f.path, n) # {})
                               => SelectedEver(f.prog, r.calls, f.path, n) ]

(***************************************************************************)
(* C17 -- ordering signals, as a monitor on the call log.  A production of *)
(* name x is a successful invocation of a node that lists x as output.     *)
(* (Failed invocations end the run, so every logged call but possibly the  *)
(* failing ones of the last step completed.)                               *)
(***************************************************************************)
ProducersOf(pr, x) == {pr.nodes[i].name : i \in Producers(pr, x)}
ProdsBefore(pr, calls, frame, x, k) ==
  Cardinality({j \in 1..(k-1) : calls[j].frame = frame /\ calls[j].node \in ProducersOf(pr, x)})

WaitJustified(pr, calls, k) ==
  LET c == calls[k]
      nd == NodeByName(pr, c.node)
      mine == {j \in Positions(calls, c.frame, c.node) : j < k}
  IN \A w \in Names(nd.wait_for) :
       /\ ProdsBefore(pr, calls, c.frame, w, k) >= 1
       /\ mine # {} => ProdsBefore(pr, calls, c.frame, w, k) > ProdsBefore(pr, calls, c.frame, w, MaxOf(mine))
       /\ \A j \in 1..Len(calls) :      \* never in the same step as a producer of w
             (calls[j].frame = c.frame /\ calls[j].node \in ProducersOf(pr, w) /\ calls[j].node # c.node)
                 => calls[j].step # c.step

C17(job) ==
  LET r == RunOf(job)
      frames == AllFrames(job.prog, "")
      prov == ProvidedMap(job)
  IN [ waits |-> \A k \in 1..Len(r.calls) :
                    LET pr == FrameProg(frames, r.calls[k].frame)
                        nd == NodeByName(pr, r.calls[k].node)
                    IN \* a provided value under the awaited name also counts as available (top frame)
                       (r.calls[k].frame = "" /\ \E w \in Names(nd.wait_for) : w \in DOMAIN prov)
                       \* an interrupt whose answer the caller supplied completes without invoking its handler
                       \* (resume path): its signals are produced although the call log shows no invocation
                       \/ (r.calls[k].frame = "" /\ \E w \in Names(nd.wait_for) : \E j \in NodeIdx(pr) :
                              IsIntr(pr.nodes[j]) /\ w \in Names(pr.nodes[j].outputs) /\ DataOutputs(pr.nodes[j]) \subseteq DOMAIN prov)
                       \/ WaitJustified(pr, r.calls, k) ]

(***************************************************************************)
(* C16 -- scoping.  Upper bound on what may execute with entry points:     *)
(* the entry nodes and everything reachable over DECLARED dependencies     *)
(* (data by name from ANY producer, gate -> target, producer -> waiter).   *)
(***************************************************************************)
DeclEdges(pr) ==
  {<<i, j>> \in NodeIdx(pr) \X NodeIdx(pr) :
      \/ Names(pr.nodes[i].outputs) \cap (Names(pr.nodes[j].inputs) \cup Names(pr.nodes[j].wait_for)) # {}
      \/ (IsGate(pr.nodes[i]) /\ pr.nodes[j].name \in Targets(pr, pr.nodes[i]))}
Downstream(pr) == IF pr.entry = <<>> THEN NodeIdx(pr)
                  ELSE ReachFrom(DeclEdges(pr), {IdxOf(pr, pr.entry[k]) : k \in 1..Len(pr.entry)})

C16(job) ==
  LET r == RunOf(job)
      pr == job.prog
      vals == FilterOut(pr, r.vals, job.select)
      eff == EffSelect(pr, job.select)
  IN [ scope   |-> \A k \in 1..Len(r.calls) : r.calls[k].frame = "" =>
                        IdxOf(pr, r.calls[k].node) \in Downstream(pr),
       keys    |-> DOMAIN vals \subseteq Outputs(pr),
       selonly |-> (eff # Unset /\ eff # <<"**">>) => DOMAIN vals \subseteq Names(eff),
       nosent  |-> \A k \in DOMAIN vals : vals[k] # Sent ]

(***************************************************************************)
(* C11 -- partial results of a failed run: every value completed in an     *)
(* earlier step is present; nothing of the failing node or of what is      *)
(* downstream of it; every returned value was produced by a completed      *)
(* node or supplied by the caller under a declared output name.            *)
(***************************************************************************)
C11(job) ==
  LET r == RunOf(job)
      pr == job.prog
      prov == ProvidedMap(job)
      vals == FilterOut(pr, r.vals, job.select)
      done == SelectSeq(r.done, LAMBDA d : d.frame = "")
      top == SelectSeq(r.calls, LAMBDA c : c.frame = "")
      failstep == IF top = <<>> THEN 0 ELSE top[Len(top)].step
      wanted(o) == EffSelect(pr, job.select) \in {Unset, <<"**">>} \/ o \in Names(EffSelect(pr, job.select))
  IN IF r.status # "failed" \/ r.err.kind # "body" THEN [na |-> TRUE]
     ELSE [ produced |-> \A k \in DOMAIN vals :
                           \/ k \in DOMAIN prov
                           \/ \E j \in 1..Len(done) : k \in Names(NodeByName(pr, done[j].node).outputs),
            earlier  |-> \A j \in 1..Len(done) :
                           (done[j].step < failstep /\ ~IsGraph(NodeByName(pr, done[j].node))) =>
                              \A o \in DataOutputs(NodeByName(pr, done[j].node)) : wanted(o) => o \in DOMAIN vals ]

(***************************************************************************)
(* C04 -- loops.  Reference semantics: the equivalent SEQUENTIAL loop,      *)
(* executed in program order with one environment (no supersteps, no       *)
(* versions).  job.meta describes the loop template instance:              *)
(*   body   sequence of body node names b1..bm (b1 is the gate's target)   *)
(*   gate   name of the gate, exit = name of an exit node or "~none"       *)
(*   shape  "while" (gate first) | "dowhile" (body first: the gate waits   *)
(*          on the signal emitted by bm)                                   *)
(*   entry  index of the body node at which execution enters (1 = normal)  *)
(*   frame  path of the graph that contains the loop ("" = top level)      *)
(***************************************************************************)
EnvArgs(pr, env, nd) == [k \in 1..Len(nd.inputs) |->
     <<nd.inputs[k], PairGet(nd.pmap, nd.inputs[k]),
       IF nd.inputs[k] \in DOMAIN env THEN env[nd.inputs[k]]
       ELSE IF EffBoundHas(pr, nd.inputs[k]) THEN EffBoundVal(pr, nd.inputs[k])
       ELSE NodeDefaultVal(nd, nd.inputs[k])>>]

RECURSIVE PutAll(_, _, _)
PutAll(env, outs, k) == IF k > Len(outs) THEN env ELSE PutAll(Put(env, outs[k][1], outs[k][2]), outs, k + 1)
ExecSeq(pr, env, n) == LET nd == NodeByName(pr, n) IN PutAll(env, NodeOuts(nd, EnvArgs(pr, env, nd)), 1)

\* ref state: [env, cnt (node -> executions), trace (seq of envs)]
RefExec(pr, rs, n) == LET e == ExecSeq(pr, rs.env, n) IN
  [rs EXCEPT !.env = e, !.cnt = Put(rs.cnt, n, Get(rs.cnt, n, 0) + 1), !.trace = Append(rs.trace, e)]
RECURSIVE RefBody(_, _, _, _)
RefBody(pr, rs, body, i) == IF i > Len(body) THEN rs ELSE RefBody(pr, RefExec(pr, rs, body[i]), body, i + 1)

RECURSIVE RefLoop(_, _, _, _, _)
RefLoop(pr, meta, rs, k, fuel) ==      \* k = number of gate evaluations so far
  LET g == NodeByName(pr, meta.gate)
      d == Decide(g, RawDecision(g, k + 1, <<>>))   \* loop templates use scripted (non-pure) gates
      rs1 == [rs EXCEPT !.cnt = Put(rs.cnt, g.name, k + 1)]
  IN IF fuel = 0 THEN [rs EXCEPT !.cut = TRUE]
     ELSE IF DecSelects(g, d, meta.body[1]) THEN RefLoop(pr, meta, RefBody(pr, rs1, meta.body, 1), k + 1, fuel - 1)
     ELSE IF meta.exit # None /\ DecSelects(g, d, meta.exit) THEN RefExec(pr, rs1, meta.exit)
     ELSE rs1

WhileRef(pr, meta, env0, fuel) ==
  LET rs0 == [env |-> env0, cnt |-> EmptyMap, trace |-> <<env0>>, cut |-> FALSE]
      rs1 == IF meta.shape = "dowhile" THEN RefBody(pr, rs0, meta.body, 1)
             ELSE IF meta.entry > 1 THEN RefBody(pr, rs0, meta.body, meta.entry)
             ELSE rs0
  IN RefLoop(pr, meta, rs1, 0, fuel)

LoopNodes(meta) == Names(meta.body) \cup {meta.gate} \cup (IF meta.exit = None THEN {} ELSE {meta.exit})

C04(job) ==
  LET r == RunOf(job)
      frames == AllFrames(job.prog, "")
      meta == job.meta
      pr == FrameProg(frames, meta.frame)
      env0 == PairsToMap(meta.seed)
      ref == WhileRef(pr, meta, env0, 40)
      outs == {o \in Outputs(pr) : o \in DOMAIN ref.env /\ ref.env[o] # Sent}
      cnt(n) == Cardinality(Positions(r.calls, meta.frame, n))
      fin == r.status = "completed"
      isloop == meta.shape \in {"while", "dowhile"}
      topvals == FilterOut(job.prog, r.vals, <<"**">>)
  IN [ bounded  |-> r.steps <= job.prog.max_iter,
       outcome  |-> r.status = "completed" \/ (r.status = "failed" /\ r.err.kind = "infinite"),
       counts   |-> (fin /\ isloop) => \A n \in LoopNodes(meta) : cnt(n) = Get(ref.cnt, n, 0),
       values   |-> (fin /\ isloop /\ meta.frame = "") => [o \in outs |-> ref.env[o]] = topvals,
       nomore   |-> isloop => \A n \in LoopNodes(meta) : cnt(n) <= Get(ref.cnt, n, 0),
       \* hand-computed expectations of special templates (e.g. a gate whose one-shot signal never
       \* becomes fresh again: its single decision allows a single execution of the target)
       expect   |-> fin => \A k \in 1..Len(meta.expect) : cnt(meta.expect[k][1]) = meta.expect[k][2],
       prefix   |-> (isloop /\ meta.frame = "") => \A o \in DOMAIN topvals :
                        \E i \in 1..Len(ref.trace) : o \in DOMAIN ref.trace[i] /\ ref.trace[i][o] = topvals[o] ]

C04Aux(job) ==
  LET frames == AllFrames(job.prog, "")
      meta == job.meta
      pr == FrameProg(frames, meta.frame)
      ref == WhileRef(pr, meta, PairsToMap(meta.seed), 40)
  IN [ cnt |-> ref.cnt,
       env |-> [o \in {o \in Outputs(pr) : o \in DOMAIN ref.env /\ ref.env[o] # Sent} |-> ref.env[o]] ]

(***************************************************************************)
(* C05 -- composition.  job.flat is the flat program of which job.prog is  *)
(* a nesting (harness/gen.py nest): same leaves, same outer interface.     *)
(* The nested run must return the flat run's values (restricted to what    *)
(* the nesting exposes) and every leaf function must receive the same      *)
(* arguments.                                                              *)
(***************************************************************************)
LeafCalls(calls) == SelectSeq(calls, LAMBDA c : c.kind # "graph")
ArgsBag(calls, n) == LET cs == SelectSeq(LeafCalls(calls), LAMBDA c : c.node = n)
                     IN [k \in 1..Len(cs) |-> cs[k].args]
C05(job) ==
  LET rn == RunOf(job)
      rf == RunProg(job.flat, "", job.provided, WorldOf(job), job.mode)
      vn == FilterOut(job.prog, rn.vals, job.select)
      vf == FilterOut(job.flat, rf.vals, job.select)
      \* the functions inside nested graphs of the nesting
      leaves == {c.node : c \in {rn.calls[k] : k \in {k \in 1..Len(rn.calls) : rn.calls[k].frame # "" /\ rn.calls[k].kind # "graph"}}}
  IN [ status |-> rn.status = rf.status,
       values |-> (rn.status = "completed") => (DOMAIN vn \subseteq DOMAIN vf /\ \A k \in DOMAIN vn : vn[k] = vf[k]),
       \* (a graph-level select narrows a nested graph as a unit: bindings of a wrapper outside the selected
       \*  scope do not surface, so completeness of the exposed outputs is only claimed without it)
       exposed |-> (rn.status = "completed" /\ job.flat.selected = Unset) => \A k \in DOMAIN vf : (k \in Names(job.hidden) \/ k \in DOMAIN vn),
       args   |-> (rn.status = "completed") => \A n \in leaves : ArgsBag(rn.calls, n) = ArgsBag(rf.calls, n) ]

(***************************************************************************)
(* C14 -- interrupts.  A paused run identifies an interrupt node, shows    *)
(* its first input value and the key to answer under; nothing that         *)
(* depends on the interrupt's outputs has been invoked; every interrupt    *)
(* upstream of it is already resolved (one pause at a time, in dependency  *)
(* order); the values returned are correct values of completed work.  A    *)
(* run that completes (all answers supplied or handlers answering) equals  *)
(* the run in which the handlers return the answers themselves.            *)
(***************************************************************************)
RECURSIVE DependsOn(_, _, _)
DependsOn(pr, S, n) ==          \* node index n (transitively) consumes an output of a node in S
  LET direct == {i \in NodeIdx(pr) : \E j \in S :
                    Names(pr.nodes[j].outputs) \cap (Names(pr.nodes[i].inputs) \cup Names(pr.nodes[i].wait_for)) # {}}
      nxt == S \cup direct
  IN IF nxt = S THEN n \in S ELSE DependsOn(pr, nxt, n)

\* the same, where names in `cut` do not carry a dependency (their value was supplied by the caller)
RECURSIVE DependsOnCut(_, _, _, _)
DependsOnCut(pr, cut, S, n) ==
  LET direct == {i \in NodeIdx(pr) : \E j \in S :
                    (Names(pr.nodes[j].outputs) \ cut) \cap (Names(pr.nodes[i].inputs) \cup Names(pr.nodes[i].wait_for)) # {}}
      nxt == S \cup direct
  IN IF nxt = S THEN n \in S ELSE DependsOnCut(pr, cut, nxt, n)

\* node n lies on a dependency cycle (a loop re-executes it: "pause again", no fixed dependency order)
OnCycle(pr, n) == \E j \in NodeIdx(pr) :
   /\ Names(pr.nodes[n].outputs) \cap (Names(pr.nodes[j].inputs) \cup Names(pr.nodes[j].wait_for)) # {}
   /\ DependsOn(pr, {j}, n)

AutoProg(pr) == [pr EXCEPT !.nodes = [i \in NodeIdx(pr) |-> [pr.nodes[i] EXCEPT !.pause_at = <<>>]]]

C14(job) ==
  LET r == RunOf(job)
      pr == job.prog
      auto == RunProg(AutoProg(pr), "", job.base, WorldOf(job), job.mode)
      top == r.pause.path \in NodeNames(pr)
      pi == IdxOf(pr, r.pause.path)
      nd == pr.nodes[pi]
  IN IF r.status = "paused" /\ top THEN
       [ names_interrupt |-> IsIntr(nd),
         key   |-> r.pause.key = nd.outputs[1],
         value |-> Len(nd.inputs) > 0 => r.pause.value = Resolve(pr, [vals |-> r.vals], nd, nd.inputs[1]),
         dependants_idle |-> OnCycle(pr, pi) \/ \A k \in 1..Len(r.calls) : r.calls[k].frame = "" =>
                                ~(IdxOf(pr, r.calls[k].node) # pi /\ DependsOnCut(pr, PairKeys(job.provided), {pi}, IdxOf(pr, r.calls[k].node))),
         in_order |-> OnCycle(pr, pi) \/ \A j \in NodeIdx(pr) : (IsIntr(pr.nodes[j]) /\ j # pi /\ DependsOnCut(pr, PairKeys(job.provided), {j}, pi))
                          => \A o \in DataOutputs(pr.nodes[j]) : o \in DOMAIN r.vals,
         partial |-> OnCycle(pr, pi) \/ \A k \in DOMAIN FilterOut(pr, r.vals, job.select) :
                        k \in DOMAIN auto.vals /\ (auto.vals[k] = r.vals[k] \/ k \in PairKeys(job.provided)) ]
     ELSE IF r.status = "completed" THEN
       [ same_as_auto |-> auto.status = "completed" /\ FilterOut(pr, r.vals, job.select) = FilterOut(pr, auto.vals, job.select) ]
     ELSE [ na |-> TRUE ]

(***************************************************************************)
(* C09 -- caching is transparent.  job.seq is a sequence of runs sharing   *)
(* one cache.  Every run returns what the uncached run returns; with an    *)
(* unbounded cache a cacheable function is invoked at most once per        *)
(* (definition, outputs, arguments) over the whole sequence; a hit is only *)
(* ever served for an entry stored under the same key.                     *)
(***************************************************************************)
RECURSIVE UncachedProg(_)
UncachedProg(pr) == [pr EXCEPT !.nodes = [i \in NodeIdx(pr) |->
      IF IsGraph(pr.nodes[i]) THEN [pr.nodes[i] EXCEPT !.cache = FALSE, !.sub = UncachedProg(pr.nodes[i].sub)]
      ELSE [pr.nodes[i] EXCEPT !.cache = FALSE]]]

RECURSIVE SeqRuns(_, _, _, _)
SeqRuns(job, k, cache, acc) ==
  IF k > Len(job.seq) THEN acc
  ELSE LET w == [WorldOf(job) EXCEPT !.cache = cache, !.cap = job.cap]
           alt == job.seq[k] \in {"sync@2", "async@2"}
           r == RunProg(IF alt THEN job.alt ELSE job.prog, "", job.provided, w, IF job.seq[k] \in {"sync", "sync@2"} THEN "sync" ELSE "async")
       IN SeqRuns(job, k + 1, r.w.cache, Append(acc, r))

C09(job) ==
  LET rs == SeqRuns(job, 1, <<>>, <<>>)
      progOf(m) == IF m \in {"sync@2", "async@2"} THEN job.alt ELSE job.prog
      un(m) == RunProg(UncachedProg(progOf(m)), "", job.provided, WorldOf(job), IF m \in {"sync", "sync@2"} THEN "sync" ELSE "async")
      framesOf(k) == AllFrames(progOf(job.seq[k]), "")
      allcalls == [k \in 1..Len(rs) |-> rs[k].calls]
      ndOf(k, c) == NodeByName(FrameProg(framesOf(k), c.frame), c.node)
      keyOf(k, c) == <<ndOf(k, c).fid, KindClass(ndOf(k, c)), ndOf(k, c).outputs, ndOf(k, c).targets, <<ndOf(k, c).fallback>>, c.args>>
      \* (an interrupt invocation that PAUSES resolves nothing: there is no entry it could have stored)
      cacheable(k, c) == /\ c.kind # "graph" /\ ndOf(k, c).cache
                         /\ ~(ndOf(k, c).kind = "interrupt" /\ c.idx \in Names(ndOf(k, c).pause_at))
      okcall(k, c) == ~Fails(ndOf(k, c), c.idx, [i \in 1..Len(c.args) |-> <<"", c.args[i][1], c.args[i][2]>>])
  IN [ transparent |-> \A k \in 1..Len(rs) :
                          /\ rs[k].status = un(job.seq[k]).status
                          /\ FilterOut(progOf(job.seq[k]), rs[k].vals, job.select) = FilterOut(progOf(job.seq[k]), un(job.seq[k]).vals, job.select)
                          /\ rs[k].err = un(job.seq[k]).err,
       once |-> job.cap = 0 =>
                  \A k1, k2 \in 1..Len(rs) : \A i1 \in 1..Len(allcalls[k1]) : \A i2 \in 1..Len(allcalls[k2]) :
                     LET c1 == allcalls[k1][i1]  c2 == allcalls[k2][i2] IN
                     (cacheable(k1, c1) /\ cacheable(k2, c2) /\ okcall(k1, c1) /\ okcall(k2, c2) /\ <<k1, i1>> # <<k2, i2>>)
                         => keyOf(k1, c1) # keyOf(k2, c2) ]

\* dispatch used by the Predict_* configurations
L1(prop, job) == CASE prop = "C01" -> C01(job)
                   [] prop = "C03" -> C03(job)
                   [] prop = "C04" -> C04(job)
                   [] prop = "C05" -> C05(job)
                   [] prop = "C09" -> C09(job)
                   [] prop = "C14" -> C14(job)
                   [] prop = "C17" -> C17(job)
                   [] prop = "C16" -> C16(job)
                   [] prop = "C11" -> C11(job)
                   [] OTHER -> [none |-> TRUE]
\* bounds of a partial result: lower = what earlier steps completed, upper = every successful
\* sibling of the failing step included (the async runner's view)
C11Aux(job) ==
  LET r == RunOf(job)
      ra == RunProg(job.prog, "", job.provided, WorldOf(job), "async")
  IN [ lower |-> FilterOut(job.prog, r.pre, job.select),
       upper |-> FilterOut(job.prog, ra.vals, job.select),
       upper_err |-> ra.err ]

Aux(prop, job) == CASE prop = "C01" -> C01Aux(job)
                    [] prop = "C11" -> C11Aux(job)
                    [] prop = "C04" -> C04Aux(job)
                    [] OTHER -> [none |-> TRUE]
=======================================================================
