---------------------------- MODULE HGProps ----------------------------
(***************************************************************************)
(* Property-level (L1) definitions.  They say only what the properties     *)
(* say and are written independently of the engine's mechanisms (no        *)
(* versions, no staleness, no supersteps).  TLC checks that the engine     *)
(* model (L2, HGEngine) satisfies them on every job it evaluates           *)
(* (INVARIANT L1Holds in the Predict_* configurations); the conformance    *)
(* harness then compares the real code with the model on the same          *)
(* observables.                                                            *)
(***************************************************************************)
EXTENDS HGEngine

ProvidedMap(job) == PairsToMap(job.provided)

(***************************************************************************)
(* C01 -- dependency-order (denotational) evaluation of an acyclic,        *)
(* gate-free program.  Arguments come from the first available of:         *)
(* upstream output, run-time value, bound value, signature default.        *)
(***************************************************************************)
RECURSIVE CanRun(_, _, _), DenArg(_, _, _, _), DenVal(_, _, _)

UpstreamOK(pr, prov, p) == Producers(pr, p) # {} /\ CanRun(pr, prov, FirstProducer(pr, p))

CanRun(pr, prov, i) ==
  LET nd == pr.nodes[i] IN
  \A k \in 1..Len(nd.inputs) : LET p == nd.inputs[k] IN
     \/ UpstreamOK(pr, prov, p)
     \/ p \in DOMAIN prov
     \/ EffBoundHas(pr, p)
     \/ NodeHasDefault(nd, p)

DenArg(pr, prov, nd, p) ==
  IF UpstreamOK(pr, prov, p) THEN DenVal(pr, prov, p)
  ELSE IF p \in DOMAIN prov THEN prov[p]
  ELSE IF EffBoundHas(pr, p) THEN EffBoundVal(pr, p)
  ELSE NodeDefaultVal(nd, p)

DenArgs(pr, prov, nd) == [k \in 1..Len(nd.inputs) |->
                            <<nd.inputs[k], PairGet(nd.pmap, nd.inputs[k]), DenArg(pr, prov, nd, nd.inputs[k])>>]

DenVal(pr, prov, o) ==
  LET nd == pr.nodes[FirstProducer(pr, o)] IN BodyVal(nd, o, DenArgs(pr, prov, nd))

Denote(pr, prov) ==
  [o \in {o \in Outputs(pr) : CanRun(pr, prov, FirstProducer(pr, o))
                              /\ o \in DataOutputs(pr.nodes[FirstProducer(pr, o)])} |-> DenVal(pr, prov, o)]

CallsOf(calls, path) == SelectSeq(calls, LAMBDA c : c.path = path)

\* a parameter of node i that is fed by an upstream node and also has a default
HasEarlyStart(pr, prov, i) ==
  \E k \in 1..Len(pr.nodes[i].inputs) : LET p == pr.nodes[i].inputs[k] IN
       UpstreamOK(pr, prov, p) /\ (NodeHasDefault(pr.nodes[i], p) \/ EffBoundHas(pr, p) \/ p \in DOMAIN prov)

C01(job) ==
  LET pr == job.prog
      prov == ProvidedMap(job)
      r == RunProg(pr, "", job.provided, EmptyMap, <<>>, job.mode)
      den == Denote(pr, prov)
  IN [ completes |-> r.status = "completed",
       values    |-> FilterOut(pr, r.vals, <<"**">>) = den,
       runs      |-> \A i \in NodeIdx(pr) :
                        (CallsOf(r.calls, pr.nodes[i].name) # <<>>) <=> CanRun(pr, prov, i),
       once      |-> \A i \in NodeIdx(pr) :
                        (CanRun(pr, prov, i) /\ ~HasEarlyStart(pr, prov, i))
                           => Len(CallsOf(r.calls, pr.nodes[i].name)) = 1,
       lastargs  |-> \A i \in NodeIdx(pr) : CanRun(pr, prov, i) =>
                        LET cs == CallsOf(r.calls, pr.nodes[i].name)
                        IN cs # <<>> /\ cs[Len(cs)].args = CallArgs(DenArgs(pr, prov, pr.nodes[i])) ]

\* the L1 definition itself, exported so that the real run is compared with IT
C01Aux(job) ==
  LET pr == job.prog
      prov == ProvidedMap(job)
      can == {i \in NodeIdx(pr) : CanRun(pr, prov, i)}
  IN [ den      |-> Denote(pr, prov),
       canrun   |-> {pr.nodes[i].name : i \in can},
       once     |-> {pr.nodes[i].name : i \in {i \in can : ~HasEarlyStart(pr, prov, i)}},
       lastargs |-> [n \in {pr.nodes[i].name : i \in can} |->
                        CallArgs(DenArgs(pr, prov, NodeByName(pr, n)))] ]

\* dispatch used by the Predict_* configurations
L1(prop, job) == CASE prop = "C01" -> C01(job)
                   [] OTHER -> [none |-> TRUE]
Aux(prop, job) == CASE prop = "C01" -> C01Aux(job)
                    [] OTHER -> [none |-> TRUE]
=======================================================================
