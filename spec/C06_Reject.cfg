SPECIFICATION Spec
INVARIANT Emit
CHECK_DEADLOCK FALSE
