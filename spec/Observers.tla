---------------------------- MODULE Observers ----------------------------
(***************************************************************************)
(* C13 -- event dispatch (events/dispatcher.py) as a transition system.    *)
(* The engine produces a fixed stream of N events and, at the end, one     *)
(* shutdown.  Each event is delivered to the registered processors in      *)
(* order; a processor may fail on any delivery (the fault set F is chosen  *)
(* nondeterministically in Init: every processor x every position,        *)
(* including shutdown = position N+1).  Best-effort dispatch: a failure is *)
(* swallowed, delivery continues with the next processor, and the engine   *)
(* is never affected.                                                      *)
(*                                                                         *)
(* CONSTANTS N (events), P (processors), Bug:                              *)
(*   "none" | "stop_on_failure" (later processors miss the event)          *)
(*          | "propagate" (the failure reaches the engine and aborts it)   *)
(***************************************************************************)
EXTENDS Naturals, Sequences, FiniteSets, TLC

CONSTANTS N, P, Bug

VARIABLES faults, pos, proc, got, engine, aborted
vars == <<faults, pos, proc, got, engine, aborted>>

Procs == 1..P
Positions == 1..(N + 1)                     \* N events, then shutdown

Init == /\ faults \in SUBSET (Procs \X Positions)
        /\ pos = 1 /\ proc = 1
        /\ got = [p \in Procs |-> <<>>]      \* what each processor has received without failing
        /\ engine = <<>>                     \* the events the engine has emitted (its own progress)
        /\ aborted = FALSE

\* the engine emits event `pos` (or calls shutdown at N+1) and the dispatcher starts delivering it
Deliver ==
  /\ ~aborted /\ pos <= N + 1 /\ proc <= P
  /\ IF <<proc, pos>> \in faults
     THEN /\ got' = got
          /\ IF Bug = "propagate" THEN aborted' = TRUE /\ UNCHANGED <<pos, proc>>
             ELSE IF Bug = "stop_on_failure" THEN proc' = P + 1 /\ UNCHANGED <<pos, aborted>>
             ELSE proc' = proc + 1 /\ UNCHANGED <<pos, aborted>>
     ELSE /\ got' = [got EXCEPT ![proc] = Append(@, pos)]
          /\ proc' = proc + 1 /\ UNCHANGED <<pos, aborted>>
  /\ UNCHANGED <<faults, engine>>

\* all processors served: the engine continues with the next event
Advance ==
  /\ ~aborted /\ pos <= N + 1 /\ proc = P + 1
  /\ engine' = Append(engine, pos)
  /\ pos' = pos + 1 /\ proc' = 1
  /\ UNCHANGED <<faults, got, aborted>>

Done == pos = N + 2
Next == Deliver \/ Advance \/ ((Done \/ aborted) /\ UNCHANGED vars)
Spec == Init /\ [][Next]_vars /\ WF_vars(Next)

\* the engine's behaviour does not depend on the fault set: it emits 1..N+1 in order and finishes
EngineUnaffected == ~aborted /\ engine = [i \in 1..Len(engine) |-> i]
EngineFinishes == <>Done
\* a processor receives every event on which it does not fail itself, whatever the others do
OthersComplete == Done => \A p \in Procs :
                     got[p] = SelectSeq([i \in 1..(N + 1) |-> i], LAMBDA i : <<p, i>> \notin faults)
=======================================================================
