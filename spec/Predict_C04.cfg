SPECIFICATION Spec
CONSTANT Prop = "C04"
INVARIANT Emit
INVARIANT L1Holds
CHECK_DEADLOCK FALSE
