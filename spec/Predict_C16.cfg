SPECIFICATION Spec
CONSTANT Prop = "C16"
INVARIANT Emit
INVARIANT L1Holds
CHECK_DEADLOCK FALSE
