\* C06: the batch-aware maps of the code (build_reverse_rename_map, _build_forward_rename_map)
\* agree with the position-based semantics on every history; Emit prints every history.
SPECIFICATION Spec
CONSTANTS
  P <- EnvP
  U <- EnvU
  D <- EnvD
  AllowId <- EnvId
  AllOrd <- EnvAllOrd
INVARIANT AbsOK
INVARIANT RevOK
INVARIANT FwdOK
INVARIANT Emit
CHECK_DEADLOCK FALSE
