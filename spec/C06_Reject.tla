---------------------------- MODULE C06_Reject ----------------------------
(***************************************************************************)
(* Batch driver for RenameRules: one TLC state per job                      *)
(*   env C06_REJ_JOBS  JSON file: list of [id, cur, batch]                   *)
(* prints Verdict(cur, batch).  harness/props/c06.py attempts the same call  *)
(* on the real node (after the history that led to `cur`) and compares.     *)
(***************************************************************************)
EXTENDS RenameRules, Json, IOUtils, TLC, TLCExt

Jobs == JsonDeserialize(IOEnv.C06_REJ_JOBS)

VARIABLES tid, res
vars == <<tid, res>>

Init == tid \in 1..Len(Jobs) /\ res = "none"
Next == /\ res = "none"
        /\ res' = ToJson([id |-> Jobs[tid].id] @@ Verdict(Jobs[tid].cur, Jobs[tid].batch))
        /\ UNCHANGED tid
Spec == Init /\ [][Next]_vars

Emit == res # "none" => PrintT(<<"RESULT", res>>)
=======================================================================
