\* C06: the two GraphNode algorithms that ignore batch ids / invert stale entries.
\* EXPECTED TO FAIL on the code-shaped operators (model-level evidence of the defects).
SPECIFICATION Spec
CONSTANTS
  P <- EnvP
  U <- EnvU
  D <- EnvD
  AllowId <- EnvId
  AllOrd <- EnvAllOrd
INVARIANT GNResolveOK
INVARIANT GNOutputsOK
CHECK_DEADLOCK FALSE
