SPECIFICATION Spec
CONSTANT Bug = "none"
INVARIANT Bounded
INVARIANT EmitSchedule
CHECK_DEADLOCK TRUE
