SPECIFICATION Spec
CONSTANT Prop = "C05"
INVARIANT Emit
INVARIANT L1Holds
CHECK_DEADLOCK FALSE
