---------------------------- MODULE SpanTree ----------------------------
(***************************************************************************)
(* C12 -- the event grammar as a safety automaton over open spans, used    *)
(* as a TRACE specification: each recorded event stream (env HG_EVENTS)    *)
(* is consumed event by event; an action is enabled only if the event is   *)
(* legal in the current span tree.  A stream is accepted iff all of its    *)
(* events are consumed (position Len+1 is reached) and the final state is  *)
(* closed (nothing open, shutdown seen exactly once, last).  A call the    *)
(* runner REJECTS (trace status "rejected": invalid option, missing input,  *)
(* incompatible runner, bad map arguments) emits nothing at all: no event   *)
(* is enabled, not even the shutdown.                                       *)
(*                                                                         *)
(* Event record: [t, span, parent, node, graph, status, ismap]             *)
(*   t \in RunStart | RunEnd | NodeStart | NodeEnd | NodeError | CacheHit  *)
(*        | RouteDecision | Shutdown                                       *)
(* Trace record: [id, status (what the caller observed), events,           *)
(*                graphnodes (<<node name, wrapped graph name, "1" iff the  *)
(*                node maps over its inputs>>)]                             *)
(***************************************************************************)
EXTENDS HGBase, Json, IOUtils, TLC, TLCExt

Traces == JsonDeserialize(IOEnv.HG_EVENTS)

VARIABLES tid, l, open, kindOf, parentOf, nodeOf, errored, rootSpan, rootClosed, shut
vars == <<tid, l, open, kindOf, parentOf, nodeOf, errored, rootSpan, rootClosed, shut>>

T  == Traces[tid].events
Ev == T[l]
Children(s) == {c \in open : parentOf[c] = s}

Init == /\ tid \in 1..Len(Traces) /\ l = 1
        /\ open = {} /\ kindOf = EmptyMap /\ parentOf = EmptyMap /\ nodeOf = EmptyMap
        /\ errored = {}               \* run spans in which some node raised
        /\ rootSpan = None /\ rootClosed = FALSE /\ shut = 0

IsEvent(t) == l <= Len(T) /\ Ev.t = t /\ l' = l + 1 /\ shut = 0
Fresh(s)   == s \notin DOMAIN kindOf

\* a run starts as the root, under the open span of the (graph) node that launched it, or -- an
\* item of a map -- under the open map-run span
RunStart ==
  /\ IsEvent("RunStart") /\ Fresh(Ev.span)
  /\ IF Ev.parent = None THEN l = 1 /\ rootSpan' = Ev.span /\ Traces[tid].status # "rejected"   \* a rejected call emits nothing
     ELSE /\ Ev.parent \in open /\ UNCHANGED rootSpan
          /\ \/ /\ kindOf[Ev.parent] = "node"
                /\ \E i \in 1..Len(Traces[tid].graphnodes) :      \* the node that launched it wraps this very graph
                      /\ Traces[tid].graphnodes[i][1] = nodeOf[Ev.parent] /\ Traces[tid].graphnodes[i][2] = Ev.graph
                      \* a MAPPING node launches one map run (its items are runs under that map run), any other
                      \* graph node launches one plain run
                      /\ (Traces[tid].graphnodes[i][3] = "1") = Ev.ismap
             \/ kindOf[Ev.parent] = "maprun" /\ ~Ev.ismap
  /\ open' = open \cup {Ev.span}
  /\ kindOf' = Put(kindOf, Ev.span, IF Ev.ismap THEN "maprun" ELSE "run")
  /\ parentOf' = Put(parentOf, Ev.span, Ev.parent)
  /\ nodeOf' = Put(nodeOf, Ev.span, Ev.graph)
  /\ UNCHANGED <<tid, errored, rootClosed, shut>>

NodeStart ==
  /\ IsEvent("NodeStart") /\ Fresh(Ev.span)
  /\ Ev.parent \in open /\ kindOf[Ev.parent] = "run"
  /\ open' = open \cup {Ev.span}
  /\ kindOf' = Put(kindOf, Ev.span, "node")
  /\ parentOf' = Put(parentOf, Ev.span, Ev.parent)
  /\ nodeOf' = Put(nodeOf, Ev.span, Ev.node)
  /\ UNCHANGED <<tid, errored, rootSpan, rootClosed, shut>>

\* exactly one NodeEnd or NodeError closes a node span, after the runs it launched have closed
NodeClose(t) ==
  /\ IsEvent(t)
  /\ Ev.span \in open /\ kindOf[Ev.span] = "node" /\ Children(Ev.span) = {}
  /\ Ev.parent = parentOf[Ev.span] /\ Ev.node = nodeOf[Ev.span]
  /\ open' = open \ {Ev.span}
  /\ errored' = IF t = "NodeError" THEN errored \cup {parentOf[Ev.span]} ELSE errored
  /\ UNCHANGED <<tid, kindOf, parentOf, nodeOf, rootSpan, rootClosed, shut>>

RunEnd ==
  /\ IsEvent("RunEnd")
  /\ Ev.span \in open /\ kindOf[Ev.span] \in {"run", "maprun"} /\ Children(Ev.span) = {}
  /\ Ev.parent = parentOf[Ev.span]
  /\ (Ev.span \in errored) => Ev.status = "failed"          \* a run in which a node raised has failed
  /\ open' = open \ {Ev.span}
  /\ IF Ev.span = rootSpan THEN Ev.status = Traces[tid].status /\ rootClosed' = TRUE
     ELSE UNCHANGED rootClosed
  /\ UNCHANGED <<tid, kindOf, parentOf, nodeOf, errored, rootSpan, shut>>

CacheHit ==
  /\ IsEvent("CacheHit")
  /\ Ev.span \in open /\ kindOf[Ev.span] = "node" /\ Ev.parent = parentOf[Ev.span] /\ Ev.node = nodeOf[Ev.span]
  /\ UNCHANGED <<tid, open, kindOf, parentOf, nodeOf, errored, rootSpan, rootClosed, shut>>

\* a routing decision is reported inside its run, while its gate's node span is open
Route ==
  /\ IsEvent("RouteDecision")
  /\ Ev.parent \in open /\ kindOf[Ev.parent] = "run"
  /\ \E s \in Children(Ev.parent) : kindOf[s] = "node" /\ nodeOf[s] = Ev.node
  /\ UNCHANGED <<tid, open, kindOf, parentOf, nodeOf, errored, rootSpan, rootClosed, shut>>

Shutdown ==
  /\ l <= Len(T) /\ Ev.t = "Shutdown" /\ l' = l + 1
  /\ shut = 0 /\ rootClosed /\ open = {} /\ l = Len(T)       \* once, after the root closed, last
  /\ shut' = 1
  /\ UNCHANGED <<tid, open, kindOf, parentOf, nodeOf, errored, rootSpan, rootClosed>>

Next == RunStart \/ NodeStart \/ NodeClose("NodeEnd") \/ NodeClose("NodeError") \/ RunEnd
        \/ CacheHit \/ Route \/ Shutdown
Spec == Init /\ [][Next]_vars

\* verdict: the furthest position reached per trace (printed; harness keeps the maximum), and
\* whether the stream ended closed
Progress == PrintT(<<"AT", Traces[tid].id, l,
                     l = Len(T) + 1 /\ IF Traces[tid].status = "rejected" THEN Len(T) = 0
                                        ELSE shut = 1 /\ open = {} /\ rootClosed>>)
=======================================================================
