---------------------------- MODULE TypeCompat ----------------------------
(***************************************************************************)
(* C19, second clause: the type-compatibility judgement used by            *)
(* Graph(..., strict_types=True), written from the DOCUMENTED rules         *)
(*   - docs/06-api-reference/graph.md "Type Validation (strict_types)",     *)
(*   - docs/02-core-concepts/getting-started.md "Union Types",              *)
(*   - the rule list in the docstring of hypergraph._typing                 *)
(*     .is_type_compatible ("Compatibility rules: ..."),                    *)
(*   - the property text: identity, Any, unions, parameterised generics,    *)
(*     subclassing.                                                          *)
(*                                                                         *)
(* A type TERM is a record [k |-> STRING, args |-> Seq(TERM)] (JSON         *)
(* {"k": ..., "args": [...]}); every term carries both fields so that TLC   *)
(* never compares values of different shapes:                               *)
(*    k = "int" | "bool" | "str" | "A" | "B" | "none"   plain classes       *)
(*        (bool <: int, B <: A, "none" is NoneType), args = <<>>            *)
(*    k = "any"                                          typing.Any         *)
(*    k = "list" | "dict" | "tuple" | "seq" | "iter" | "mapping"  generic    *)
(*        origin (seq/iter/mapping: collections.abc.Sequence / Iterable /   *)
(*        Mapping, superclasses of the concrete ones); args = <<>> is the   *)
(*        unparameterised form, otherwise the type arguments                *)
(*    k = "union"   X | Y | ...  (Optional[X] is union(X, none)); the       *)
(*        members are already flattened and de-duplicated (the harness      *)
(*        reads the term back from the real typing object)                  *)
(*    k = "ann"     typing.Annotated[X, metadata]: args = <<X>>             *)
(*    k = "tvar" | "tvarb" | "tvarc"   a TypeVar: unconstrained (no args),   *)
(*        with bound = args[1], with the constraints args                    *)
(*    k = "~none"   no annotation (never passed to Compat)                  *)
(*                                                                         *)
(* This module is pure (no variables); C19_Types.tla evaluates it over a    *)
(* closed universe, Validate.tla uses it for the strict-mode clause.        *)
(***************************************************************************)
EXTENDS HGBase

NoAnn == [k |-> "~none", args |-> <<>>]

Arity(t)  == Len(t.args)
IsUnion(t) == t.k = "union"

(* Rule "identical types are compatible".  Identity of typing objects is   *)
(* structural and, for unions, insensitive to the order of the members      *)
(* (int | str == str | int in Python).                                      *)
RECURSIVE Same(_, _)
Same(a, b) ==
  IF a.k # b.k THEN FALSE
  ELSE IF a.k = "union"
       THEN /\ \A i \in 1..Arity(a) : \E j \in 1..Arity(b) : Same(a.args[i], b.args[j])
            /\ \A j \in 1..Arity(b) : \E i \in 1..Arity(a) : Same(a.args[i], b.args[j])
       ELSE /\ Arity(a) = Arity(b)
            /\ \A i \in 1..Arity(a) : Same(a.args[i], b.args[i])

(* Rule "subclassing" on plain classes and on generic origins.              *)
SubClassPairs == {<<"bool", "int">>, <<"B", "A">>,
                  \* generic origins: list/tuple <: Sequence <: Iterable, dict <: Mapping <: Iterable (issubclass on the ABCs)
                  <<"list", "seq">>, <<"tuple", "seq">>, <<"list", "iter">>, <<"tuple", "iter">>, <<"seq", "iter">>,
                  <<"dict", "mapping">>, <<"dict", "iter">>, <<"mapping", "iter">>,
                  <<"str", "seq">>, <<"str", "iter">>}      \* str is itself a Sequence (unparameterised on the incoming side: S2)
SubOrigin(a, b) == a = b \/ <<a, b>> \in SubClassPairs

(***************************************************************************)
(* Compat(out, in): may a value of type `out` (producer side, "incoming")  *)
(* be fed to a parameter of type `in` (consumer side, "required")?          *)
(*                                                                         *)
(*  R1 identical types are compatible                                       *)
(*  R2 Any as required accepts anything                                     *)
(*  R3 Union on the incoming side: EVERY member must fit the required type  *)
(*     ("Union[A, B] -> C requires both A and B compatible with C")         *)
(*  R4 Union on the required side: SOME member must accept the incoming     *)
(*     type ("A -> Union[B, C] requires A compatible with B or C";          *)
(*     "a more specific type satisfies a broader union type")               *)
(*  R5 otherwise the origins must be compatible by subclassing              *)
(*     (plain classes are their own origin: bool -> int, B -> A), and       *)
(*  R6 an unparameterised generic on the required side accepts any          *)
(*     parameterisation ("list[int] -> list IS compatible"),                *)
(*  R7 two parameterised generics need equal arity and pairwise compatible  *)
(*     arguments ("list[int] -> list[str] is NOT compatible").              *)
(*                                                                         *)
(*  R8 Annotated[X, ...] is X on either side: the metadata is not part of   *)
(*     the type (changelog: "type compatibility engine supporting generics,  *)
(*     Annotated, and forward refs"; _handle_generic_types: "stripping       *)
(*     metadata and comparing primary types")                                *)
(*  R9 a TypeVar as the REQUIRED type accepts anything when it is            *)
(*     unconstrained, what SOME constraint accepts when it has constraints,  *)
(*     what its bound accepts when it is bounded (_is_typevar_compatible)    *)
(*                                                                         *)
(* Combinations the documentation does not settle, aligned with the code   *)
(* (never a reason for an alarm):                                           *)
(*  S1 Any on the INCOMING side and a required type other than Any: the     *)
(*     docs only speak about Any as required.  The code treats typing.Any   *)
(*     as a plain class that is a subclass of nothing else, so Any -> int   *)
(*     is rejected, Any -> int | Any accepted through R4 + R1.              *)
(*  S2 an unparameterised generic on the INCOMING side against a            *)
(*     parameterised required type (list -> list[int]): accepted by the     *)
(*     code; the docs only mention the required side.                       *)
(*  S3 a TypeVar on the INCOMING side: accepted ("we can't know the         *)
(*     concrete type without runtime info").                                *)
(***************************************************************************)
RECURSIVE Compat(_, _)
Compat(o, i) ==
  IF o.k = "ann" THEN Compat(o.args[1], i)                                   \* R8
  ELSE IF i.k = "ann" THEN Compat(o, i.args[1])                              \* R8
  ELSE IF o.k \in {"tvar", "tvarb", "tvarc"} THEN TRUE                       \* S3
  ELSE IF Same(o, i) THEN TRUE                                               \* R1
  ELSE IF i.k = "any" THEN TRUE                                              \* R2
  ELSE IF i.k = "tvar" THEN TRUE                                             \* R9
  ELSE IF i.k = "tvarc" THEN \E m \in 1..Arity(i) : Compat(o, i.args[m])     \* R9
  ELSE IF i.k = "tvarb" THEN Compat(o, i.args[1])                            \* R9
  ELSE IF IsUnion(o) THEN \A m \in 1..Arity(o) : Compat(o.args[m], i)        \* R3
  ELSE IF IsUnion(i) THEN \E m \in 1..Arity(i) : Compat(o, i.args[m])        \* R4
  ELSE IF ~SubOrigin(o.k, i.k) THEN FALSE                                    \* R5 (and S1)
  ELSE IF Arity(i) = 0 THEN TRUE                                             \* R6
  ELSE IF Arity(o) = 0 THEN TRUE                                             \* S2
  ELSE /\ Arity(o) = Arity(i)                                                \* R7
       /\ \A m \in 1..Arity(o) : Compat(o.args[m], i.args[m])
=======================================================================
