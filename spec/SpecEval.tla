---------------------------- MODULE SpecEval ----------------------------
(***************************************************************************)
(* Batch evaluation of the input contract (InputSpec.tla) for C05 and C08: *)
(* one job = [id, prog, select, given (names supplied by the caller)].     *)
(* TLC prints the specified required / optional / entry-point sets and     *)
(* whether a run with exactly `given` is accepted; as invariants it checks *)
(* the structural laws of the contract on every job.                       *)
(***************************************************************************)
EXTENDS InputSpec, Json, IOUtils, TLCExt

Jobs == JsonDeserialize(IOEnv.HG_SPECJOBS)
VARIABLES tid, res
vars == <<tid, res>>

SpecOf(job) == Spec(job.prog, EffSelect(job.prog, job.select))
Observe(job) ==
  LET sel == EffSelect(job.prog, job.select)
      sp == Spec(job.prog, sel)
  IN [id |-> job.id, required |-> sp.required, optional |-> sp.optional, entry |-> sp.entry,
      active |-> sp.active,
      groups |-> {{job.prog.nodes[i].name : i \in grp} : grp \in CycleGroups(job.prog, ActiveFor(job.prog, sel))},
      accepts |-> IF job.entrypoint = None THEN Accepts(job.prog, sel, Names(job.given))
                  ELSE AcceptsAt(job.prog, sel, Names(job.given), job.entrypoint)]

Init == tid \in 1..Len(Jobs) /\ res = "none"
Next == res = "none" /\ res' = ToJson(Observe(Jobs[tid])) /\ UNCHANGED tid
Spec0 == Init /\ [][Next]_vars
Emit == res # "none" => PrintT(<<"RESULT", res>>)

\* laws of the contract (C08): categories are disjoint; binding moves required -> optional and
\* unbinding restores; the exact required set plus one entry point per cycle is accepted, and
\* omitting any single required input is rejected
Law(name, ok) == ok \/ PrintT(<<"L1FAIL", Jobs[tid].id, name>>) = FALSE
Laws == res # "none" =>
  LET job == Jobs[tid]
      pr == job.prog
      sel == EffSelect(pr, job.select)
      sp == Spec(pr, sel)
      act == ActiveFor(pr, sel)
      ep == UNION {Names(sp.entry[n]) : n \in DOMAIN sp.entry}
      MinEntry(grp) == CHOOSE i \in grp : \A j \in grp : Len(EntryParams(pr, act, i)) <= Len(EntryParams(pr, act, j))
      oneEntry == UNION {Names(EntryParams(pr, act, MinEntry(grp))) : grp \in CycleGroups(pr, act)}
      GivenFor(e) == sp.required \cup oneEntry \cup Names(EntryParams(pr, act, e))
      OthersClear(e, given) == \A grp \in CycleGroups(pr, act) : e \notin grp =>
           LET sat == {i \in grp : Satisfied(pr, act, i, given \cup PairKeys(pr.bound))}
           IN \A i, j \in sat : EntryParams(pr, act, i) = EntryParams(pr, act, j)
      unbound == [pr EXCEPT !.bound = <<>>]
  IN /\ Law("disjoint", sp.required \cap sp.optional = {} /\ sp.required \cap ep = {} /\ sp.optional \cap ep = {})
     /\ Law("bind_moves", \A k \in 1..Len(pr.bound) : pr.bound[k][1] \notin sp.required)
     /\ Law("unbind_restores", \A k \in 1..Len(pr.bound) :
              LET p == pr.bound[k][1] us == Spec(unbound, sel) IN
                 (p \in us.required) => (p \in sp.optional))
     /\ Law("sufficient", \A e \in EntryNodes(pr, act) :
              OthersClear(e, GivenFor(e)) => AcceptsAt(pr, sel, GivenFor(e), pr.nodes[e].name))
     /\ Law("sufficient_dag", CycleGroups(pr, act) = {} => Accepts(pr, sel, sp.required))
     /\ Law("necessary", \A p \in sp.required : ~HasPair(pr.bound, p) =>
              /\ ~Accepts(pr, sel, (sp.required \cup oneEntry) \ {p})
              /\ \A e \in EntryNodes(pr, act) : ~AcceptsAt(pr, sel, GivenFor(e) \ {p}, pr.nodes[e].name))
=======================================================================
