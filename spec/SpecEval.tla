---------------------------- MODULE SpecEval ----------------------------
(***************************************************************************)
(* Batch evaluation of the input contract (InputSpec.tla) for C05 and C08: *)
(* one job = [id, prog, select, given (names supplied by the caller)].     *)
(* TLC prints the specified required / optional / entry-point sets and     *)
(* whether a run with exactly `given` is accepted; as invariants it checks *)
(* the structural laws of the contract on every job.                       *)
(***************************************************************************)
EXTENDS InputSpec, Json, IOUtils, TLCExt

Jobs == JsonDeserialize(IOEnv.HG_SPECJOBS)
VARIABLES tid, res
vars == <<tid, res>>

SpecOf(job) == Spec(job.prog, EffSelect(job.prog, job.select))
Observe(job) ==
  LET sel == EffSelect(job.prog, job.select)
      sp == Spec(job.prog, sel)
  IN [id |-> job.id, required |-> sp.required, optional |-> sp.optional, entry |-> sp.entry,
      active |-> sp.active, accepts |-> Accepts(job.prog, sel, Names(job.given))]

Init == tid \in 1..Len(Jobs) /\ res = "none"
Next == res = "none" /\ res' = ToJson(Observe(Jobs[tid])) /\ UNCHANGED tid
Spec0 == Init /\ [][Next]_vars
Emit == res # "none" => PrintT(<<"RESULT", res>>)

\* laws of the contract (C08): categories are disjoint; binding moves required -> optional and
\* unbinding restores; the exact required set plus one entry point per cycle is accepted, and
\* omitting any single required input is rejected
Law(name, ok) == ok \/ PrintT(<<"L1FAIL", Jobs[tid].id, name>>) = FALSE
Laws == res # "none" =>
  LET job == Jobs[tid]
      pr == job.prog
      sel == EffSelect(pr, job.select)
      sp == Spec(pr, sel)
      act == ActiveFor(pr, sel)
      ep == UNION {Names(sp.entry[n]) : n \in DOMAIN sp.entry}
      oneEntry == UNION {Names(EntryParams(pr, act, CHOOSE i \in grp : TRUE)) : grp \in CycleGroups(pr, act)}
      unbound == [pr EXCEPT !.bound = <<>>]
  IN /\ Law("disjoint", sp.required \cap sp.optional = {} /\ sp.required \cap ep = {} /\ sp.optional \cap ep = {})
     /\ Law("bind_moves", \A k \in 1..Len(pr.bound) : pr.bound[k][1] \notin sp.required)
     /\ Law("unbind_restores", \A k \in 1..Len(pr.bound) :
              LET p == pr.bound[k][1] us == Spec(unbound, sel) IN
                 (p \in us.required) => (p \in sp.optional))
     /\ Law("sufficient", Accepts(pr, sel, sp.required \cup oneEntry))
     /\ Law("necessary", \A p \in sp.required : ~Accepts(pr, sel, (sp.required \cup oneEntry) \ {p}))
=======================================================================
