---------------------------- MODULE HGBase ----------------------------
(***************************************************************************)
(* Small total helpers shared by every module of the suite.               *)
(*                                                                         *)
(* Conventions (see DESIGN.md 2.3): values are canonical STRINGS, JSON    *)
(* null is the string "~none", finite maps are TLA+ functions whose       *)
(* domain is a set of strings, association lists coming from JSON are     *)
(* sequences of 2-tuples <<key, value>>.                                   *)
(***************************************************************************)
EXTENDS Sequences, Naturals, FiniteSets

None     == "~none"      \* JSON null / Python None
Sent     == "~sentinel"  \* value of an emit (ordering-only) output
EmptyMap == <<>>         \* the function with empty domain

Names(seq)   == {seq[i] : i \in 1..Len(seq)}
Get(f, k, d) == IF k \in DOMAIN f THEN f[k] ELSE d
Put(f, k, v) == [x \in (DOMAIN f) \cup {k} |-> IF x = k THEN v ELSE f[x]]
Drop(f, k)   == [x \in (DOMAIN f) \ {k} |-> f[x]]
RestrictTo(f, S) == [x \in (DOMAIN f) \cap S |-> f[x]]

\* association lists <<k, v>>
HasPair(pairs, k) == \E i \in 1..Len(pairs) : pairs[i][1] = k
PairGet(pairs, k) == pairs[CHOOSE i \in 1..Len(pairs) : pairs[i][1] = k][2]
PairGetD(pairs, k, d) == IF HasPair(pairs, k) THEN PairGet(pairs, k) ELSE d
PairKeys(pairs)   == {pairs[i][1] : i \in 1..Len(pairs)}
PairsToMap(pairs) == [k \in PairKeys(pairs) |-> PairGet(pairs, k)]

Min2(a, b) == IF a < b THEN a ELSE b
Max2(a, b) == IF a > b THEN a ELSE b

\* index of the first occurrence (0 when absent)
IndexOf(seq, x) == IF \E i \in 1..Len(seq) : seq[i] = x
                   THEN CHOOSE i \in 1..Len(seq) : seq[i] = x /\ \A j \in 1..(i-1) : seq[j] # x
                   ELSE 0

RECURSIVE JoinWith(_, _, _)
JoinWith(seq, sep, k) ==          \* seq of strings -> "a<sep>b<sep>c"
  IF k > Len(seq) THEN ""
  ELSE (IF k > 1 THEN sep ELSE "") \o seq[k] \o JoinWith(seq, sep, k + 1)
Join(seq, sep) == JoinWith(seq, sep, 1)

\* canonical text of a list value (the Python side renders lists the same way)
ListText(seq) == "[" \o Join(seq, ";") \o "]"

RECURSIVE SeqFilter(_, _, _)
SeqFilter(seq, S, k) ==           \* subsequence of the elements that are in S
  IF k > Len(seq) THEN <<>>
  ELSE (IF seq[k] \in S THEN <<seq[k]>> ELSE <<>>) \o SeqFilter(seq, S, k + 1)

\* the sorted sequence of a finite set of naturals
RECURSIVE SortedSeq(_)
SortedSeq(S) == IF S = {} THEN <<>>
                ELSE LET m == CHOOSE x \in S : \A y \in S : x <= y
                     IN <<m>> \o SortedSeq(S \ {m})
=======================================================================
