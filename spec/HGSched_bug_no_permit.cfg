SPECIFICATION Spec
CONSTANT Bug = "no_permit"
INVARIANT Bounded
INVARIANT PermitsOK
INVARIANT AllRan
VIEW ViewNoOrder
CHECK_DEADLOCK TRUE
