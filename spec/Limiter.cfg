SPECIFICATION Spec
CONSTANTS
  Ks = {0, 1, 3}
  MaxCalls = 2
  Bug = "none"
INVARIANT OwnLimit
INVARIANT Clean
INVARIANT Emit
CHECK_DEADLOCK FALSE
