SPECIFICATION Spec
CONSTANTS
  Keys = {"k1", "k2", "k3"}
  Vals = {"v1", "v2"}
  Cap = 2
  MaxOps = 5
INVARIANT Bounded
INVARIANT HitIsLastSet
INVARIANT Emit
CHECK_DEADLOCK FALSE
