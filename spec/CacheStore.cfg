SPECIFICATION Spec
CONSTANTS
  Keys = {"k1", "k2"}
  Vals = {"v1", "v2"}
  MaxOps = 4
  Bug = "none"
INVARIANT GetOK
INVARIANT Serves
INVARIANT NoUnverifiedUnpickle
INVARIANT Emit
CHECK_DEADLOCK FALSE
