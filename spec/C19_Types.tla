---------------------------- MODULE C19_Types ----------------------------
(***************************************************************************)
(* Batch driver for TypeCompat: TLC evaluates Compat on ALL ordered pairs   *)
(* of a closed universe of type terms.                                      *)
(*   env C19_UNIVERSE  JSON file: the universe, a list of terms             *)
(*   env C19_ROWS      JSON file: list of [id |-> i]; one TLC state per      *)
(*                     row i, it prints the verdicts Compat(U[i], U[j])      *)
(*                     for every j as a sequence of booleans.                *)
(* harness/props/c19.py builds the same typing objects and compares with    *)
(* hypergraph._typing.is_type_compatible.                                   *)
(***************************************************************************)
EXTENDS TypeCompat, Json, IOUtils, TLC, TLCExt

Universe == JsonDeserialize(IOEnv.C19_UNIVERSE)
Jobs     == JsonDeserialize(IOEnv.C19_ROWS)

VARIABLES tid, res
vars == <<tid, res>>

Row(i) == [id |-> i, row |-> [j \in 1..Len(Universe) |-> Compat(Universe[i], Universe[j])]]

Init == tid \in 1..Len(Jobs) /\ res = "none"
Next == /\ res = "none"
        /\ res' = ToJson(Row(Jobs[tid].id))
        /\ UNCHANGED tid
Spec == Init /\ [][Next]_vars

Emit == res # "none" => PrintT(<<"RESULT", res>>)
=======================================================================
