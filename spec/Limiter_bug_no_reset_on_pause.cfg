SPECIFICATION Spec
CONSTANTS
  Ks = {0, 1, 3}
  MaxCalls = 2
  Bug = "no_reset_on_pause"
INVARIANT OwnLimit
INVARIANT Clean
CHECK_DEADLOCK FALSE
