---------------------------- MODULE CacheStore ----------------------------
(***************************************************************************)
(* C09 (store level) -- the on-disk cache entry (hypergraph/cache.py       *)
(* DiskCache) as a transition system.  An entry of key k is TWO writes:    *)
(* the payload (pickled bytes) under k and its HMAC under k:hmac.  The     *)
(* environment may crash between the two writes and may corrupt what is    *)
(* stored.  get(k) must behave as a miss unless the payload is exactly     *)
(* what a COMPLETED set() stored, and must not deserialise bytes whose     *)
(* HMAC it has not verified.                                               *)
(*                                                                         *)
(* payload[k] = "absent" | [v, tam (bytes altered), typ \in bytes|other]   *)
(* sig[k]     = "absent" | [v (the value whose bytes it signs), typ \in    *)
(*                          str|other]                                     *)
(* CONSTANTS Keys, Vals, MaxOps, Bug \in {"none", "unpickle_before_verify",*)
(*           "skip_verify", "accept_missing_sig"}                          *)
(***************************************************************************)
EXTENDS Naturals, Sequences, FiniteSets, TLC, Json

CONSTANTS Keys, Vals, MaxOps, Bug

VARIABLES payload, sig, complete, ops, lastGet, unverified
vars == <<payload, sig, complete, ops, lastGet, unverified>>

Absent == "absent"
NoPayload == [v |-> "-", tam |-> FALSE, typ |-> "absent"]      \* uniform records: TLC cannot compare a record with a string
NoSig == [v |-> "-", typ |-> "absent"]
HasPayload(k) == payload[k].typ # "absent"
HasSig(k) == sig[k].typ # "absent"

Init == /\ payload = [k \in Keys |-> NoPayload]
        /\ sig = [k \in Keys |-> NoSig]
        /\ complete = [k \in Keys |-> Absent]     \* value of the last COMPLETELY written, still intact entry (ghost)
        /\ ops = <<>>                             \* history of operations (for replay)
        /\ lastGet = <<"none">>
        /\ unverified = FALSE                     \* some get deserialised bytes it had not authenticated (ghost)

Log(op) == ops' = Append(ops, op)
Room == Len(ops) < MaxOps

\* set(k, v): both writes happen
SetFull(k, v) ==
  /\ Room
  /\ payload' = [payload EXCEPT ![k] = [v |-> v, tam |-> FALSE, typ |-> "bytes"]]
  /\ sig' = [sig EXCEPT ![k] = [v |-> v, typ |-> "str"]]
  /\ complete' = [complete EXCEPT ![k] = v]
  /\ Log(<<"set", k, v>>) /\ UNCHANGED <<lastGet, unverified>>

\* set(k, v) torn by a crash after the first write: new payload, old (or no) signature
SetTorn(k, v) ==
  /\ Room
  /\ payload' = [payload EXCEPT ![k] = [v |-> v, tam |-> FALSE, typ |-> "bytes"]]
  /\ complete' = [complete EXCEPT ![k] = IF sig[k].typ = "str" /\ sig[k].v = v THEN v ELSE Absent]
  /\ Log(<<"torn", k, v>>) /\ UNCHANGED <<sig, lastGet, unverified>>

\* corruption classes
Corrupt(k, how) ==
  /\ Room
  /\ CASE how = "flip"     -> payload[k].typ = "bytes"
                              /\ payload' = [payload EXCEPT ![k].tam = TRUE] /\ UNCHANGED sig
       [] how = "truncate" -> payload[k].typ = "bytes"
                              /\ payload' = [payload EXCEPT ![k].tam = TRUE] /\ UNCHANGED sig
       [] how = "ptype"    -> HasPayload(k)
                              /\ payload' = [payload EXCEPT ![k].typ = "other"] /\ UNCHANGED sig
       [] how = "stype"    -> HasSig(k)
                              /\ sig' = [sig EXCEPT ![k].typ = "other"] /\ UNCHANGED payload
       [] how = "sigalter" -> sig[k].typ = "str"     \* the signature TEXT is altered (still a string)
                              /\ sig' = [sig EXCEPT ![k].v = "~garbage"] /\ UNCHANGED payload
       [] how = "delsig"   -> HasSig(k) /\ sig' = [sig EXCEPT ![k] = NoSig] /\ UNCHANGED payload
       [] how = "delpay"   -> HasPayload(k) /\ payload' = [payload EXCEPT ![k] = NoPayload] /\ UNCHANGED sig
  /\ complete' = [complete EXCEPT ![k] = Absent]
  /\ Log(<<"corrupt", k, how>>) /\ UNCHANGED <<lastGet, unverified>>

\* get(k): verify, then (and only then) deserialise; anything suspicious is evicted and is a miss
Verified(k) == /\ sig[k].typ = "str"
               /\ payload[k].typ = "bytes" /\ ~payload[k].tam /\ sig[k].v = payload[k].v
\* what get(k) does: <<result, evict payload?, evict signature?, deserialised?>>
GetOutcome(k) ==
  IF ~HasPayload(k) THEN <<"miss", FALSE, FALSE, FALSE>>
  ELSE IF payload[k].typ # "bytes" THEN <<"miss", TRUE, FALSE, FALSE>>
  ELSE IF Bug = "unpickle_before_verify" THEN
       (IF Verified(k) THEN <<"hit", FALSE, FALSE, TRUE>> ELSE <<"miss", TRUE, TRUE, TRUE>>)
  ELSE IF ~HasSig(k) THEN
       (IF Bug = "accept_missing_sig" /\ ~payload[k].tam THEN <<"hit", FALSE, FALSE, TRUE>> ELSE <<"miss", TRUE, FALSE, FALSE>>)
  ELSE IF sig[k].typ # "str" THEN <<"miss", TRUE, TRUE, FALSE>>
  ELSE IF Verified(k) THEN <<"hit", FALSE, FALSE, TRUE>>
  ELSE IF Bug = "skip_verify" THEN
       (IF payload[k].tam THEN <<"miss", TRUE, TRUE, TRUE>> ELSE <<"hit", FALSE, FALSE, TRUE>>)
  ELSE <<"miss", TRUE, TRUE, FALSE>>                 \* HMAC mismatch

Get(k) ==
  LET o == GetOutcome(k) IN
  /\ Room
  /\ lastGet' = IF o[1] = "hit" THEN <<"hit", payload[k].v>> ELSE <<"miss">>
  /\ payload' = IF o[2] THEN [payload EXCEPT ![k] = NoPayload] ELSE payload
  /\ sig' = IF o[3] THEN [sig EXCEPT ![k] = NoSig] ELSE sig
  /\ complete' = IF o[2] THEN [complete EXCEPT ![k] = Absent] ELSE complete
  /\ unverified' = (unverified \/ (o[4] /\ ~Verified(k)))
  /\ Log(<<"get", k, o[1], IF o[1] = "hit" THEN payload[k].v ELSE "-", IF o[4] THEN "unpickled" ELSE "-">>)

Hows == {"flip", "truncate", "ptype", "stype", "sigalter", "delsig", "delpay"}
Next == \/ \E k \in Keys, v \in Vals : SetFull(k, v) \/ SetTorn(k, v)
        \/ \E k \in Keys, h \in Hows : Corrupt(k, h)
        \/ \E k \in Keys : Get(k)
Spec == Init /\ [][Next]_vars

(***************************************************************************)
(* Properties.                                                             *)
(***************************************************************************)
\* a hit returns exactly the value of the last completely written, intact entry
GetOK == (ops # <<>> /\ ops[Len(ops)][1] = "get" /\ ops[Len(ops)][3] = "hit") =>
            complete[ops[Len(ops)][2]] = ops[Len(ops)][4]
\* a completely written, untouched entry is served: no spurious miss
Serves == \A k \in Keys : (complete[k] # Absent) => GetOutcome(k)[1] = "hit"
\* no deserialisation of unauthenticated bytes
NoUnverifiedUnpickle == ~unverified

\* behaviours for replay: every history of exactly MaxOps operations, with the model's verdict of each get
Emit == Len(ops) = MaxOps => PrintT(<<"HIST", ToJson(ops)>>)
=======================================================================
