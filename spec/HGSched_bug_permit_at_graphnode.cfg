SPECIFICATION Spec
CONSTANT Bug = "permit_at_graphnode"
INVARIANT Bounded
INVARIANT PermitsOK
INVARIANT AllRan
VIEW ViewNoOrder
CHECK_DEADLOCK TRUE
