---------------------------- MODULE InputSpec ----------------------------
(***************************************************************************)
(* The input contract of a graph, written from the documented rules        *)
(* (docs/06-api-reference/inputspec.md):                                   *)
(*   Phase 1  scope narrowing: entry points narrow from the front          *)
(*            (forward-reachable), a selection narrows from the back       *)
(*            (backward-reachable, every target of a needed gate may run); *)
(*   Phase 2  "edge cancels default": a parameter fed by another active    *)
(*            node is not an input; fed from its own cycle it is an ENTRY  *)
(*            POINT parameter (grouped by consuming node); otherwise it is *)
(*            optional when bound or defaulted and required when not.      *)
(* and the acceptance predicate of a run (all required inputs, one entry   *)
(* point per cycle).                                                       *)
(***************************************************************************)
EXTENDS HGEngine

\* ---- Phase 1 (scope narrowing) lives in HGEngine.tla: Preds, NeededFor, ActiveFor, SpecActive

\* ---- Phase 2 ---------------------------------------------------------------
\* data edges among active nodes (the first producer of a name feeds its consumers)
DataEdgesIn(pr, act) ==
  {<<FirstProducer(pr, p), i>> : <<i, p>> \in
      {<<i, p>> \in act \X Outputs(pr) : p \in Names(pr.nodes[i].inputs) /\ FirstProducer(pr, p) \in act}}

FedByEdge(pr, act, p) == Producers(pr, p) # {} /\ FirstProducer(pr, p) \in act
                         /\ \E i \in act : p \in Names(pr.nodes[i].inputs)

\* i and the producer of p lie on a common cycle of data edges
FedFromOwnCycle(pr, act, i, p) ==
  /\ p \in Names(pr.nodes[i].inputs) /\ Producers(pr, p) # {} /\ FirstProducer(pr, p) \in act
  /\ FirstProducer(pr, p) \in ReachFrom(DataEdgesIn(pr, act), {e[2] : e \in {e \in DataEdgesIn(pr, act) : e[1] = i}})
     \/ FirstProducer(pr, p) = i

IntrProduced(pr, act, p) == \E j \in act : IsIntr(pr.nodes[j]) /\ p \in Names(pr.nodes[j].outputs)

EntryParams(pr, act, i) ==
  SelectSeq(pr.nodes[i].inputs, LAMBDA p :
      /\ FedFromOwnCycle(pr, act, i, p)
      /\ ~HasPair(pr.bound, p)
      /\ ~IntrProduced(pr, act, p)
      /\ ~NodeHasDefault(pr.nodes[i], p))

EntryNodes(pr, act) == {i \in act : ~IsGate(pr.nodes[i]) /\ EntryParams(pr, act, i) # <<>>}
AllEntryParams(pr, act) == UNION {Names(EntryParams(pr, act, i)) : i \in EntryNodes(pr, act)}

ParamsOf(pr, act) == UNION {Names(pr.nodes[i].inputs) : i \in act}
HasFallback(pr, act, p) == EffBoundHas(pr, p) \/ \E i \in act : p \in Names(pr.nodes[i].inputs) /\ NodeHasDefault(pr.nodes[i], p)

Spec(pr, selected) ==
  LET act == ActiveFor(pr, selected)
      ext == {p \in ParamsOf(pr, act) : ~FedByEdge(pr, act, p) /\ p \notin AllEntryParams(pr, act)}
  IN [ required |-> {p \in ext : ~HasFallback(pr, act, p)},
       optional |-> {p \in ext : HasFallback(pr, act, p)},
       entry    |-> [n \in {pr.nodes[i].name : i \in EntryNodes(pr, act)} |-> EntryParams(pr, act, IdxOf(pr, n))],
       active   |-> {pr.nodes[i].name : i \in act} ]

\* cycles: entry nodes grouped by strongly connected component of the data edges
SameCycle(pr, act, i, j) ==
  LET D == DataEdgesIn(pr, act) IN j \in ReachFrom(D, {i}) /\ i \in ReachFrom(D, {j})
CycleGroups(pr, act) ==
  {{j \in EntryNodes(pr, act) : SameCycle(pr, act, i, j)} : i \in EntryNodes(pr, act)}

\* A run is accepted when every required input is supplied and, for every cycle, the supplied
\* values satisfy at least one of its entry points (several only if they need the same parameters).
Satisfied(pr, act, i, given) == Names(EntryParams(pr, act, i)) \subseteq given
Accepts(pr, selected, given) ==
  LET sp == Spec(pr, selected)
      act == ActiveFor(pr, selected)
      have == given \cup {pr.bound[k][1] : k \in 1..Len(pr.bound)}
  IN /\ sp.required \subseteq have
     /\ \A grp \in CycleGroups(pr, act) :
          LET sat == {i \in grp : Satisfied(pr, act, i, have)}
          IN sat # {} /\ \A i, j \in sat : EntryParams(pr, act, i) = EntryParams(pr, act, j)

\* with an explicit entry point e (runner.run(..., entrypoint=e)): e's parameters must be supplied;
\* the other cycles are checked as above
AcceptsAt(pr, selected, given, e) ==
  LET sp == Spec(pr, selected)
      act == ActiveFor(pr, selected)
      have == given \cup {pr.bound[k][1] : k \in 1..Len(pr.bound)}
      ei == IdxOf(pr, e)
  IN /\ sp.required \subseteq have
     /\ ei \in EntryNodes(pr, act) /\ Satisfied(pr, act, ei, have)
     /\ \A grp \in CycleGroups(pr, act) : ei \notin grp =>
          LET sat == {i \in grp : Satisfied(pr, act, i, have)}
          IN sat # {} /\ \A i, j \in sat : EntryParams(pr, act, i) = EntryParams(pr, act, j)
=======================================================================
