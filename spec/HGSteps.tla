---------------------------- MODULE HGSteps ----------------------------
(***************************************************************************)
(* The superstep engine as a TRANSITION SYSTEM (one frame; nested graphs   *)
(* run as value-level child runs), built from the operators of             *)
(* HGEngine.tla -- one action per critical section of                      *)
(* runners/{sync,async_}/runner.py and superstep.py:                       *)
(*                                                                         *)
(*   Plan     get_ready_nodes on the current state (quiescence, iteration  *)
(*            cap, or the ready list of the next superstep + the snapshot) *)
(*   Exec     the next ready node runs on the SNAPSHOT; a gate takes ANY   *)
(*            of its possible decisions, a node marked `mayfail` may       *)
(*            raise -- TLC explores every combination                      *)
(*   Commit   the step's outcome: failure / pause / next step              *)
(*                                                                         *)
(* TLC checks the property-level monitors of HGProps (routing, signals,    *)
(* scope, step bound) as INVARIANTS in every reachable state of every      *)
(* behaviour, and prints each terminal behaviour (decisions taken, faults, *)
(* outcome, call log) so that the harness can replay it on the real        *)
(* runners: the decision sequences become the gates' scripts.              *)
(*                                                                         *)
(* Jobs (env HG_STEPJOBS): [id, prog, provided, mode, dbudget (max number  *)
(* of gate decisions), fbudget (max number of injected failures), badopt    *)
(* (gates may also return an INVALID target)].                             *)
(***************************************************************************)
EXTENDS HGProps, Json, IOUtils, TLCExt

Jobs == JsonDeserialize(IOEnv.HG_STEPJOBS)

VARIABLES pid, st, phase, rs, k, snap, acc, outcome, nfail, inj
vars == <<pid, st, phase, rs, k, snap, acc, outcome, nfail, inj>>

Job == Jobs[pid]
Pr  == Job.prog
Mode == Job.mode

NoAcc == [st |-> [none |-> TRUE], first |-> "none", err |-> NoErr, pause |-> NoPause]
State0(job) == [vals |-> PairsToMap(job.provided), vers |-> [x \in PairKeys(job.provided) |-> 1],
                last |-> EmptyMap, dec |-> EmptyMap, steps |-> 0, w |-> [World0 EXCEPT !.lists = PairsToMap(job.lists)]]

Init == /\ pid \in 1..Len(Jobs)
        /\ st = State0(Jobs[pid])
        /\ phase = "plan" /\ rs = <<>> /\ k = 0 /\ snap = State0(Jobs[pid]) /\ acc = NoAcc
        /\ outcome = [status |-> "running", err |-> NoErr, pause |-> NoPause]
        /\ nfail = 0
        /\ inj = <<>>          \* the injected failures <<node, invocation index>> (for the replay)

GateCalls == Cardinality({i \in 1..Len(st.w.calls) : st.w.calls[i].dec # NoDec})

Plan ==
  /\ phase = "plan"
  /\ LET r == ReadySeq(Pr, st, Mode) IN
     IF r = <<>> THEN
        /\ phase' = "done" /\ outcome' = [outcome EXCEPT !.status = "completed"]
        /\ UNCHANGED <<st, rs, k, snap, acc>>
     ELSE IF st.steps >= Pr.max_iter THEN
        /\ phase' = "done" /\ outcome' = [outcome EXCEPT !.status = "failed", !.err = [path |-> "", kind |-> "infinite"]]
        /\ UNCHANGED <<st, rs, k, snap, acc>>
     ELSE LET s0 == [st EXCEPT !.dec = DecClean(Pr, st)] IN
        /\ phase' = "exec" /\ rs' = r /\ k' = 1 /\ snap' = s0
        /\ acc' = [st |-> s0, first |-> "none", err |-> NoErr, pause |-> NoPause]
        /\ UNCHANGED <<st, outcome>>
  /\ UNCHANGED <<pid, nfail, inj>>

\* the decisions a gate may take: each target (END included), none; for multi-target gates also the full set
Options(nd) ==
  {<<nd.targets[i]>> : i \in 1..Len(nd.targets)}
  \cup (IF nd.kind = "ifelse" THEN {} ELSE {<<None>>})
  \cup (IF nd.kind = "route" /\ Job.badopt THEN {<<"~bad">>} ELSE {})      \* a name outside the targets: the gate raises
  \cup (IF nd.multi /\ Len(nd.targets) >= 2 THEN {[i \in 1..Len(SelectSeq(nd.targets, LAMBDA t : t # "END")) |-> SelectSeq(nd.targets, LAMBDA t : t # "END")[i]]} ELSE {})

Exec ==
  /\ phase = "exec" /\ k <= Len(rs)
  /\ LET nd == Pr.nodes[rs[k]]
         idx == Get(acc.st.w.ctr, nd.name, 0) + 1
     IN \E choice \in (IF IsGate(nd) /\ GateCalls < Job.dbudget THEN Options(nd) ELSE {<<"~script">>}) :
        \E failnow \in (IF nd.mayfail /\ nfail < Job.fbudget THEN {FALSE, TRUE} ELSE {FALSE}) :
          LET nd1 == [nd EXCEPT !.script = IF choice = <<"~script">> THEN @ ELSE <<choice>>,
                                !.pure = FALSE, !.dec_args = <<>>,
                                !.fail_at = IF failnow THEN <<idx>> ELSE <<>>]
              pr1 == [Pr EXCEPT !.nodes = [i \in NodeIdx(Pr) |-> IF i = rs[k] THEN nd1 ELSE Pr.nodes[i]]]
              a1 == StepFold(pr1, "", snap, acc, <<rs[k]>>, 1, Mode)
          IN /\ acc' = a1
             /\ nfail' = IF failnow THEN nfail + 1 ELSE nfail
             /\ inj' = IF failnow THEN Append(inj, <<nd.name, idx>>) ELSE inj
             /\ k' = IF Mode = "sync" /\ a1.first = "fail" THEN Len(rs) + 1 ELSE k + 1
  /\ UNCHANGED <<pid, st, phase, rs, snap, outcome>>

Commit ==
  /\ phase = "exec" /\ k > Len(rs)
  /\ IF acc.first = "fail" THEN
        /\ phase' = "done" /\ st' = acc.st
        /\ outcome' = [outcome EXCEPT !.status = "failed", !.err = acc.err]
     ELSE IF acc.first = "pause" THEN
        /\ phase' = "done" /\ st' = [snap EXCEPT !.w = acc.st.w]
        /\ outcome' = [outcome EXCEPT !.status = "paused", !.pause = acc.pause]
     ELSE /\ phase' = "plan" /\ st' = [acc.st EXCEPT !.steps = st.steps + 1] /\ UNCHANGED outcome
  /\ UNCHANGED <<pid, rs, k, snap, acc, nfail, inj>>

Next == Plan \/ Exec \/ Commit
Spec == Init /\ [][Next]_vars

(***************************************************************************)
(* Invariants: the L1 monitors hold in every reachable state.              *)
(***************************************************************************)
CallsNow == IF phase = "exec" THEN acc.st.w.calls ELSE st.w.calls
Frames == AllFrames(Pr, "")
TopCalls == {i \in 1..Len(CallsNow) : CallsNow[i].frame = ""}

RoutingOK == \A i \in TopCalls : Justified(Pr, CallsNow, i) /\ GateFirst(Pr, CallsNow, i)
SignalsOK == \A i \in TopCalls :
               LET nd == NodeByName(Pr, CallsNow[i].node) IN
               \/ (\E w \in Names(nd.wait_for) : w \in PairKeys(Job.provided))
               \/ (\E w \in Names(nd.wait_for) : \E j \in NodeIdx(Pr) :       \* resume path of an interrupt (no invocation logged)
                      IsIntr(Pr.nodes[j]) /\ w \in Names(Pr.nodes[j].outputs) /\ DataOutputs(Pr.nodes[j]) \subseteq PairKeys(Job.provided))
               \/ WaitJustified(Pr, CallsNow, i)
ScopeOK   == \A i \in TopCalls : IdxOf(Pr, CallsNow[i].node) \in Downstream(Pr)
StepBound == st.steps <= Pr.max_iter
\* a node runs at most once per superstep
OncePerStep == \A i, j \in TopCalls : (i # j /\ CallsNow[i].node = CallsNow[j].node) => CallsNow[i].step # CallsNow[j].step

\* terminal behaviours for replay
Emit == phase = "done" =>
  PrintT(<<"BEHAV", ToJson([id |-> Job.id, status |-> outcome.status, err |-> outcome.err, pause |-> outcome.pause,
                            values |-> FilterOut(Pr, st.vals, Job.select), steps |-> st.steps,
                            calls |-> st.w.calls, inj |-> inj])>>)
\* bound on exploration: decisions beyond the budget follow the node's own script
=======================================================================
