---------------------------- MODULE C07_MC ----------------------------
(***************************************************************************)
(* Model-checking wrapper of GraphAlgebra for property C07: the constants  *)
(* come from the environment so that one configuration serves every tier   *)
(* and scenario (harness/props/c07.py sets them).                          *)
(*   C07_D        bound on the history length                              *)
(*   C07_SCENARIO g0 | g1 | nodes | all | nest                             *)
(*   C07_OPS      graph | node | all | nest  (which operations are enabled;*)
(*                all includes wrap; nest = the operations around NESTING: *)
(*                bind / unbind / select / as_node / with_inputs / wrap)   *)
(*   C07_OBS      1 = observe / run are operations of the history          *)
(*   C07_WIDE     1 = larger argument alphabets                            *)
(*   C07_EMIT     1 = print every history                                  *)
(*   C07_FULL     1 = Independent checked for all objects of every state   *)
(***************************************************************************)
EXTENDS GraphAlgebra, IOUtils

GraphOps == {"bind", "unbind", "select", "with_entrypoint", "add_nodes", "as_node"}
NodeOps  == {"with_name", "with_inputs", "with_outputs", "map_over"}
NestOps  == {"bind", "unbind", "select", "as_node", "with_inputs", "wrap"}
ObsOps   == {"observe", "run"}

MC_D        == atoi(IOEnv.C07_D)
MC_Scenario == IOEnv.C07_SCENARIO
MC_Ops      == (CASE IOEnv.C07_OPS = "graph" -> GraphOps
                  [] IOEnv.C07_OPS = "node"  -> NodeOps \cup {"as_node"}
                  [] IOEnv.C07_OPS = "nest"  -> NestOps
                  [] IOEnv.C07_OPS = "all"   -> GraphOps \cup NodeOps \cup {"wrap"})
               \cup (IF IOEnv.C07_OBS = "1" THEN ObsOps ELSE {})
MC_Wide     == IOEnv.C07_WIDE = "1"
MC_Emit     == IOEnv.C07_EMIT = "1"
MC_Full     == IOEnv.C07_FULL = "1"
=======================================================================
