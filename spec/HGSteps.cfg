SPECIFICATION Spec
INVARIANT RoutingOK
INVARIANT SignalsOK
INVARIANT ScopeOK
INVARIANT StepBound
INVARIANT OncePerStep
INVARIANT Emit
CHECK_DEADLOCK FALSE
