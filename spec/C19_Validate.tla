---------------------------- MODULE C19_Validate ----------------------------
(***************************************************************************)
(* Batch driver for Validate: one TLC state per program description read    *)
(* from JSON (env C19_JOBS, a list of [id, prog]); prints the verdict of    *)
(* the specification for each.  harness/props/c19.py builds the same        *)
(* program with the real constructors and compares.                         *)
(***************************************************************************)
EXTENDS Validate, Json, IOUtils, TLC, TLCExt

Jobs == JsonDeserialize(IOEnv.C19_JOBS)

VARIABLES tid, res
vars == <<tid, res>>

Judge(job) == LET v == Verdict(job.prog)
              IN [id |-> job.id, valid |-> v.valid, reason |-> v.reason, where |-> v.where,
                  ivalid |-> v.ivalid, ireason |-> v.ireason, iwhere |-> v.iwhere]

Init == tid \in 1..Len(Jobs) /\ res = "none"
Next == /\ res = "none"
        /\ res' = ToJson(Judge(Jobs[tid]))
        /\ UNCHANGED tid
Spec == Init /\ [][Next]_vars

Emit == res # "none" => PrintT(<<"RESULT", res>>)
=======================================================================
