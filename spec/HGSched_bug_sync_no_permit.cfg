SPECIFICATION Spec
CONSTANT Bug = "sync_no_permit"
INVARIANT Bounded
INVARIANT PermitsOK
INVARIANT AllRan
PROPERTY SyncFits
VIEW ViewNoOrder
CHECK_DEADLOCK TRUE
