SPECIFICATION Spec
CONSTANT Prop = "C17"
INVARIANT Emit
INVARIANT L1Holds
CHECK_DEADLOCK FALSE
