#!/bin/bash
# usage: tools/soak.sh <tier> "<seeds>" [ids...]   -- runs every (or the given) check for each seed, prints one line per run
tier=$1; seeds=$2; shift 2
ids=${@:-C01 C02 C03 C04 C05 C06 C07 C08 C09 C10 C11 C12 C13 C14 C15 C16 C17 C18 C19 C20}
cd "$(dirname "$0")/.."
for s in $seeds; do
  for c in $ids; do
    out=$(VERIF_SEED=$s timeout 3000 ./check $c --tier $tier 2>&1); rc=$?
    echo "seed=$s $c rc=$rc $(echo "$out" | grep "^\[$c\]" | tail -1) $(echo "$out" | grep -c '^VIOLATION') $(echo "$out" | grep 'class=' | sed 's/^ *class=\([^ ]*\).*/\1/' | sort | uniq -c | sort -rn | head -3 | tr '\n' ';') $(echo "$out" | grep -i 'MACHINERY\|Error' | head -2 | tr '\n' ' ' | cut -c1-200)"
  done
done
