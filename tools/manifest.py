#!/venv/bin/python
"""Regenerate MANIFEST.json from the table below (single source of truth for the interface)."""
import json, os
ROOT = os.path.dirname(os.path.dirname(os.path.abspath(__file__)))
props = [json.loads(l) for l in open(os.path.join(ROOT, "properties.jsonl"))]

CHECKS = {
 "C01": dict(level="model_checking", engine="HGEngine",
   text="TLC evaluates the declarative dependency-order denotation (HGProps!Denote) and checks, as an invariant, that the TLA+ engine model satisfies it on every program of an exhaustively enumerated small-scope family plus seeded random DAGs; every such program is executed on both real runners and compared with the denotation itself (values, executed set, exactly-once, last arguments).",
   note="Trusted: TLC, the harness-generated node bodies (pure string functions), the IR->hypergraph builder. Small scope: <=3 nodes exhaustively, <=7 nodes sampled.",
   technique="TLA+ engine model + L1 denotation checked by TLC (invariant); spec->code differential replay"),
 "C03": dict(level="model_checking", engine="HGEngine",
   text="Routing monitor (HGProps!Justified/GateFirst/exact) is a TLC invariant on the engine model's runs over an enumerated gated family (all decision scripts of length 2) and random gated programs; every recorded call log of the real runners is trace-checked by TLC against the same monitor (TraceL1) and compared with the model on executed set, output keys, decisions and (gate,target) order projections.",
   note="Trusted: TLC, scripted gate bodies, builder. Decisions are scripted by invocation index. Step numbers of the real run are not observed; same-step exclusion is checked through order projections against the model.",
   technique="TLA+ engine model + L1 monitor as TLC invariant; TLC trace validation of recorded call logs; spec->code differential"),
 "C04": dict(level="model_checking", engine="HGEngine",
   text="The sequential program-order loop (HGProps!WhileRef) is the reference; TLC checks the engine model against it (iteration counts, final values, step bound, prefix-consistency of truncated runs) for every loop template instance, and the real runners are compared with the reference (counts, final values) and with the model (termination outcome, partial values).",
   note="Trusted: TLC, scripted gates, builder. Templates: while / documented signal-synchronised chat loop, body length 1..3, END or exit node, nested for single-node cycles, all listed entry points, truncating and sufficient max_iterations.",
   technique="TLA+ engine model refines sequential while-loop (TLC invariant); spec->code differential replay"),
 "C11": dict(level="fault_enumeration", engine="HGEngine",
   text="Every function/gate node of every generated program (flat gated/cyclic, DAGs with nested graphs to depth 2) is made the failing node (1st and 2nd invocation, and pairs), under both error_handling modes and both runners. The surfaced exception must be the very object the body raised (is), and the FAILED result's values must lie between the bounds TLC computes on the engine model (lower: everything completed before the failing step; upper: every successful sibling), the model itself being checked against HGProps!C11 as a TLC invariant.",
   note="Trusted: TLC, harness bodies, builder. map()-level error propagation is covered by C10. Interrupt handlers excluded (the code wraps their failures on purpose).",
   technique="fault enumeration over node positions; TLA+ engine model gives partial-result bounds (TLC invariant L2|=L1); spec->code differential"),
 "C15": dict(level="model_checking", engine="HGSched",
   text="For every shape (nesting depth <= 3, map fan-out <= 3, mapped level) and k in 1..3, TLC explores ALL interleavings of task creation, FIFO permit grants, completions and step boundaries on HGSched.tla over the plan tree derived from the engine model: invariants in-flight <= k, permit accounting, all tasks ran, deadlock freedom, and termination as a liveness property on the smaller plans; two wrong designs (permits held by graph nodes; no permits) must be caught. The real AsyncRunner is then driven by an adversarial driver that holds every body the framework lets start, with oldest/newest/random release policies and TLC-enumerated completion orders: the in-flight maximum must stay <= k at every instant, the run must terminate, and the result must equal the unlimited run.",
   note="Trusted: TLC, the controlled driver (a body counts as executing from its call until released). Sync gate functions are atomic and not counted.",
   technique="TLA+ schedule-level spec exhaustively model-checked by TLC (safety, deadlock, liveness, spec mutants); adversarial replay on the real async runner"),
 "C16": dict(level="model_checking", engine="HGEngine",
   text="TLC checks the engine model against HGProps!C16 (only nodes in the declared downstream cone of the entry points run; result keys within declared outputs and the effective selection; no sentinel) and trace-checks every recorded real call log against the scope monitor; the real results are compared with the model (values, executed set) and with the on_missing policy (ignore/warn once/ValueError).",
   note="Trusted: TLC, harness bodies, builder; inputs are taken from the implementation's own input spec (C08 covers the contract). Paused results are covered in C14.",
   technique="TLA+ engine model + L1 scope monitor as TLC invariant; TLC trace validation of recorded call logs; spec->code differential"),
 "C17": dict(level="model_checking", engine="HGEngine",
   text="Signal monitor (a waiter start is preceded by a completed production that no earlier run of it consumed; never in the producer's step) is a TLC invariant on the model's runs and is evaluated by TLC on every recorded real call log; (producer, waiter) order projections and waiter invocation counts of the real runners equal the model's (liveness half), including the documented signal-synchronised loop.",
   note="Trusted: TLC, harness bodies, builder. A production = completed invocation of a node listing the awaited name as output.",
   technique="TLA+ engine model + L1 monitor as TLC invariant; TLC trace validation of recorded call logs; spec->code differential"),
 "C02": dict(level="model_checking", engine="HGSched",
   text="TLC enumerates, on the schedule-level specification HGSched.tla over the plan tree derived from the engine model, every completion order of every superstep under max_concurrency in {unlimited,1,2,3} (invariants: in-flight bound, permits, all tasks ran; no deadlock); each enumerated order is replayed on the real AsyncRunner by a controlled driver that releases parked node bodies one at a time, and the outcome (status, values, invocation multiset, error, partial values) is compared with the SyncRunner run and with the model; node-list permutations are compared when output names are unique.",
   note="Trusted: TLC, the controlled asyncio driver (bodies park on harness futures), builder. Schedules beyond the cap per program are sampled. Interrupts excluded (C14).",
   technique="TLA+ schedule-level spec model-checked by TLC; replay of TLC-enumerated schedules into the real async runner"),
 "C05": dict(level="model_checking", engine="HGEngine",
   text="For every generated DAG and every (capped) convex node subset, nestings with local renames, binding placement, inner select and depth 1..3 are built; TLC checks on the models that the nested run equals the flat run (values, exposed outputs, arguments of every leaf function: HGProps!C05) and that InputSpec.tla is invariant under nesting; the real nested and flat graphs are compared with each other and with the specification (graph.inputs as sets, values, leaf arguments).",
   note="Trusted: TLC, builder, gen.nest (constructs the nesting and its flat equivalent). Inner select hides only secondary outputs of multi-output nodes (select narrows a graph's inputs by design).",
   technique="TLA+ engine model + InputSpec: nested vs flat equivalence as TLC invariant; spec->code differential (nested vs flat vs model)"),
 "C06": dict(level="model_checking", engine="Rename",
   text="Rename.tla is a transition system over rename histories (every partial injective batch whose result is duplicate-free, incl. swaps, rotations, chains through temporaries); TLC explores all histories within the bounds and checks the batch-aware reverse/forward map algorithms against the position-based semantics; EVERY explored history is replayed on FunctionNode, RouteNode, IfElseNode, InterruptNode and GraphNode (also mapped, with clone lists) and observed through the public surface and by executing the node, comparing received arguments, defaults/bound/types and result names with the model; alpha-renamed graphs are compared with the originals.",
   note="Trusted: TLC, the replay harness. Rename_gn.cfg keeps the pre-fix GraphNode algorithms as model-level evidence of the two repaired defects (expected to fail); only the replay decides the property.",
   technique="TLA+ transition system of rename histories model-checked by TLC; replay of all TLC-explored histories into the real nodes"),
 "C07": dict(level="model_checking", engine="GraphAlgebra",
   text="GraphAlgebra.tla models the heap of immutable graph/node objects and the ten derivation operations (plus observe/run); TLC explores all histories within the bounds and checks AppendOnly (action property), Independent, OneNew, WellFormed; every explored history is replayed on real objects through the public API in an eager mode (every live object re-observed after every step: inputs, outputs, bindings, selection, entry points, definition_hash, run result) and a lazy cold-cache mode, each object compared with its own previous observation, with the model's abstract state and with the object built from its own derivation chain alone.",
   note="Trusted: TLC, the replay harness, a small catalogue of base graphs/nodes. Exhaustive to depth 3-4 per scenario, simulated to depth 6. Containers handed out by an object (inputs.bound dict) writing through to that same object are recorded as divergences (no derivation op involved).",
   technique="TLA+ heap transition system model-checked by TLC; replay of all TLC-explored histories into real objects"),
 "C08": dict(level="model_checking", engine="InputSpec",
   text="InputSpec.tla states the documented contract (scope narrowing, edge cancels default, entry points per cycle, acceptance); TLC evaluates it and checks its laws (disjoint categories, bind/unbind, canonical input set accepted, every single omission rejected) on every configuration. Behaviourally, for the REPORTED spec of the real graph: required + the parameters of one listed entry point per cycle must be accepted (no missing value at run time), and omitting any single required input must raise MissingInputError before any node function, event or shutdown; bind/unbind are exercised on the real object.",
   note="Trusted: TLC, builder. Differences between reported spec and InputSpec.tla that the documentation does not settle (select narrowing through gates, parameters fed by another cycle) are recorded as divergences, never alarms. One open known finding (inputs of a node bypassed by a bound output).",
   technique="TLA+ input-contract specification with laws checked by TLC; behavioural sufficiency/necessity enumeration against the real runners"),
 "C10": dict(level="model_checking", engine="HGEngine",
   text="Input combinations (zip/product, row-major) and list collection are defined in HGEngine.tla and evaluated by TLC for every mapping-node and runner.map case of an enumerated family (lengths 0..3, 1-2 mapped parameters, failing items, branching items, raise/continue, renames, clone); the real runners are compared item by item. MapPool.tla (worker pool, completion-order append, order restoration, first error in input order) is model-checked for every configuration and EVERY completion order TLC finds is replayed on AsyncRunner.map with the controlled driver.",
   note="Trusted: TLC, controlled driver, builder. N<=3 items for the pool replay.",
   technique="TLA+ engine model (Combos, map branch) + MapPool transition system model-checked by TLC; replay of TLC-enumerated completion orders"),
 "C19": dict(level="model_checking", engine="Validate",
   text="Validate.tla is a declarative structural-validity predicate and TypeCompat.tla the documented type-compatibility relation; TLC evaluates them on every valid base program x every single injected flaw at every position (incl. nested graphs) x node-list permutations and on all ordered pairs of a closed type universe; the real constructor / is_type_compatible must agree (GraphConfigError exactly when invalid, repaired program accepted, no raw library error).",
   note="Trusted: TLC, the flaw injector. Docs-silent type combinations (Any as incoming type, bare generic incoming) follow the code and are marked S1/S2 in TypeCompat.tla.",
   technique="TLA+ validity predicate and type relation evaluated by TLC over enumerated finite universes; differential against the constructor"),
 "C20": dict(level="translation_validation", engine="Viz",
   text="Every rendering (all valid expansion states x both output modes of render_graph, Mermaid depth 0..3 x both modes, to_flat_graph) of every generated graph is recorded and validated by TLC against Viz.tla (SelfConsistent, Once, Complete, Sound, FlatOK, exhaustive state keys) using the generator's own declared hierarchy and dependencies.",
   note="Trusted: TLC, the generator's declared dependency computation, the Mermaid parser. Input-node/END edges only checked for self-consistency. Seven genuine renderer defects are listed in known_findings.json (open).",
   technique="TLA+ declarative oracle evaluated by TLC on recorded renderer output (translation validation of each rendering)"),
}

def entry(pid, c):
    return {"property_id": pid, "quick_cmd": f"./check {pid} --tier quick", "thorough_cmd": f"./check {pid} --tier thorough",
            "evidence_file": f"/verif/evidence/{pid}.json", "replay_cmd_template": f"./check {pid} --replay {{path}}",
            "engine": c["engine"],
            "level_claimed": {"category": c["level"], "text": c["text"], "design_ref": f"DESIGN.md 5/{pid}"},
            "level_note": c["note"], "technique": c["technique"]}

NA_REASON = "check under construction in this round (the specification suite is being extended property by property); not claimed yet"
man = {
 "version": 1,
 "setup_cmd": "cd /verif && /venv/bin/python -c \"import sys; sys.path.insert(0,'/verif'); import hypergraph, harness.build\" && cd /verif/spec && tla-sany Predict.tla > /dev/null && tla-sany HGSched.tla > /dev/null",
 "hooks": {"guard": "HYPERGRAPH_VERIF", "enable": "no source hooks: observation uses harness-generated node bodies, the public EventProcessor/CacheBackend APIs and a controlled asyncio driver",
           "baseline_off_cmd": "cd /repo && /venv/bin/python -m pytest -ra -q -p no:cacheprovider --timeout=900 --continue-on-collection-errors",
           "source_commits": [], "add_only": True},
 "engines": [{"name": "HGSched", "path": "spec/HGSched.tla", "serves_properties": ["C02", "C15"], "kind_free_text": "TLA+ schedule-level spec (permits, completion orders, nested frames, map items) model-checked by TLC; schedules replayed on AsyncRunner"},
             {"name": "Rename", "path": "spec/Rename.tla", "serves_properties": ["C06"], "kind_free_text": "TLA+ transition system of rename histories, model-checked; histories replayed into real nodes"},
             {"name": "InputSpec", "path": "spec/InputSpec.tla", "serves_properties": ["C08", "C05"], "kind_free_text": "TLA+ input-contract specification evaluated by TLC (SpecEval batch)"},
             {"name": "GraphAlgebra", "path": "spec/GraphAlgebra.tla", "serves_properties": ["C07"], "kind_free_text": "TLA+ heap of immutable objects with derivation operations, model-checked; histories replayed on real objects"},
             {"name": "Validate", "path": "spec/Validate.tla", "serves_properties": ["C19"], "kind_free_text": "TLA+ structural validity predicate + TypeCompat relation evaluated by TLC"},
             {"name": "Viz", "path": "spec/Viz.tla", "serves_properties": ["C20"], "kind_free_text": "TLA+ faithful-drawing oracle evaluated by TLC on recorded renderings"},
             {"name": "HGEngine", "path": "spec/HGEngine.tla", "serves_properties": sorted(p for p, c in CHECKS.items() if c["engine"] == "HGEngine"),
              "kind_free_text": "TLA+ specification of the superstep engine with property-level definitions (HGProps), checked by TLC; bound to the code by Predict (spec->code) and TraceL1 (code->spec)"}],
 "checks": [entry(p, CHECKS[p]) for p in sorted(CHECKS)],
 "notes": "see DESIGN.md; known_findings.json lists genuine defects (open ones are printed as KNOWN-FINDING lines, fixed ones suppress nothing)",
 "not_applicable": [{"property_id": p["id"], "reason": NA_REASON} for p in props if p["id"] not in CHECKS],
}
for e in man["engines"]:
    pass
json.dump(man, open(os.path.join(ROOT, "MANIFEST.json"), "w"), indent=1)
print("claimed:", sorted(CHECKS))
