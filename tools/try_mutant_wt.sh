#!/bin/bash
# usage: tools/try_mutant_wt.sh <patch.diff> <check ids...>
# Triage variant of try_mutant.sh that leaves /repo alone (for use while a soak / thorough run reads /repo):
# the patch is applied to a scratch worktree of /repo's HEAD and the checks import hypergraph from there.
patch=$1; shift
wt=$(mktemp -d /tmp/trywt.XXXXXX); rmdir $wt
git -C /repo worktree add -q --detach $wt HEAD || exit 2
trap 'git -C /repo worktree remove --force '$wt EXIT
if ! git -C $wt apply --check "$patch" 2>/dev/null; then echo "PATCH DOES NOT APPLY: $patch"; exit 2; fi
git -C $wt apply "$patch"
cd /verif
for c in "$@"; do
  out=$(PYTHONPATH=$wt/src timeout 900 ./check $c --tier ${TIER:-quick} 2>&1)
  rc=$?
  line=$(echo "$out" | grep "^\[$c\]" | tail -1)
  cls=$(echo "$out" | grep "class=" | sed 's/^ *class=\([^ ]*\).*/\1/' | sort | uniq -c | sort -rn | head -3 | tr '\n' ';')
  echo "$c rc=$rc $line :: $cls"
done
