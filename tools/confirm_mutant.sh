#!/bin/bash
# usage: tools/confirm_mutant.sh <PID> <i> <caught_by...>  : confirms /tmp/mut/<PID>_patch_<i>.diff in a scratch worktree and stores it under seeded/
pid=$1; i=$2; shift 2; caught="$*"
mut=${MUTDIR:-/tmp/mut}; tagp=${MUTTAG:-m}
name=${pid}_${tagp}${i}
wt=/tmp/confirm_$name
patch=$mut/${pid}_patch_${i}.diff; demo=$mut/${pid}_demo_${i}.py; meta=$mut/${pid}_meta_${i}.json
git -C /repo worktree add -q --detach $wt HEAD || exit 2
cd $wt
PYTHONPATH=$wt/src /venv/bin/python $demo > /tmp/confirm_${name}_clean.log 2>&1; rc_clean=$?
git apply $patch || { echo "patch failed"; git -C /repo worktree remove --force $wt; exit 2; }
PYTHONPATH=$wt/src /venv/bin/python $demo > /tmp/confirm_${name}_mut.log 2>&1; rc_mut=$?
PYTHONPATH=$wt/src timeout 1200 /venv/bin/python -m pytest -q -p no:cacheprovider --timeout=900 -W ignore -x > /tmp/confirm_${name}_tests.log 2>&1; rc_tests=$?
if [ $rc_tests -ne 0 ]; then
  # timing assertions of the suite are load-sensitive: rerun just the failed tests on their own
  failed=$(grep '^FAILED ' /tmp/confirm_${name}_tests.log | sed 's/^FAILED \([^ ]*\).*/\1/' | sort -u)
  if [ -n "$failed" ]; then
    PYTHONPATH=$wt/src timeout 600 /venv/bin/python -m pytest -q -p no:cacheprovider -o addopts= -W ignore $failed > /tmp/confirm_${name}_tests_rerun.log 2>&1; rc_tests=$?
  fi
fi
cd /verif
git -C /repo worktree remove --force $wt
mkdir -p seeded/$name
cp $patch seeded/$name/patch.diff; cp $demo seeded/$name/demo.py
/venv/bin/python - <<PY
import json
m=json.load(open("$meta"))
m.update({"id":"$name","property":"$pid","confirmed":{"demo_exit_on_clean_tree":$rc_clean,"demo_exit_with_patch":$rc_mut,"repo_test_suite_exit_with_patch":$rc_tests},
 "ran":["PYTHONPATH=<worktree>/src /venv/bin/python demo.py (clean, patched)","PYTHONPATH=<worktree>/src /venv/bin/python -m pytest -q -p no:cacheprovider --timeout=900 -W ignore -x"],
 "caught_by":"$caught".split()})
json.dump(m,open("seeded/$name/meta.json","w"),indent=1)
print("$name", m["confirmed"])
PY
