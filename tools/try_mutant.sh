#!/bin/bash
# usage: tools/try_mutant.sh <patch.diff> <check ids...>   -- applies the patch to /repo, runs the quick checks, reverts
patch=$1; shift
cd /repo || exit 2
if ! git apply --check "$patch" 2>/dev/null; then echo "PATCH DOES NOT APPLY: $patch"; exit 2; fi
git apply "$patch"
trap 'git -C /repo checkout -- . ; git -C /repo clean -fdq src' EXIT
cd /verif
for c in "$@"; do
  out=$(timeout 900 ./check $c --tier ${TIER:-quick} 2>&1)
  rc=$?
  line=$(echo "$out" | grep "^\[$c\]" | tail -1)
  cls=$(echo "$out" | grep "class=" | sed 's/^ *class=\([^ ]*\).*/\1/' | sort | uniq -c | sort -rn | head -3 | tr '\n' ';')
  echo "$c rc=$rc $line :: $cls"
done
